"""C07 -- tasking decisions are feasible and optimal in the sense each policy documents."""
import itertools
import numpy as np
import z3
from pyvc.harness import obligation
from pyvc import sym

DD = "resonaate.tasking.decisions.decisions:"
DB = "resonaate.tasking.decisions.decision_base:"
RB = "resonaate.tasking.rewards.reward_base:"
RW = "resonaate.tasking.rewards.rewards:"
SHAPES_Q = [(n, m) for n in (1, 2, 3) for m in (1, 2, 3)]
SHAPES_T = [(n, m) for n in (1, 2, 3, 4) for m in (1, 2, 3, 4) if (n, m) not in SHAPES_Q]


def _RV(vc, n, m):
    R = vc.mat("R", n, m, -1e3, 1e3)
    if vc.symbolic:
        V = np.empty((n, m), dtype=object)
        for i in range(n):
            for j in range(m):
                V[i, j] = vc.bool(f"V[{i},{j}]")
    else:
        V = np.array([[vc.bool(f"V[{i},{j}]") for j in range(m)] for i in range(n)], dtype=bool)
        R = np.round(R / 250.0)  # small integers: ties are frequent
    return R, V


def _count(vc, xs):
    tot = 0
    for x in xs:
        tot = tot + vc.ite(x, 1, 0)
    return tot


def _mk(prefix, shapes, tier):
    for (n, m) in shapes:
        S = f"[{n}x{m}]"

        @obligation("C07", f"{prefix}greedy{S}", ensures=[f"O-C07-greedy.feasible{S}", f"O-C07-greedy.atmost1{S}", f"O-C07-greedy.opt{S}"],
                    fns=[DD + "MyopicNaiveGreedyDecision._calculate", DB + "Decision.calculate"], mode="R", tier=tier,
                    bounded=f"shape {n}x{m} (all real reward values and visibility masks)")
        def greedy(vc, n=n, m=m, S=S):
            R, V = _RV(vc, n, m)
            pol = vc.new(DD + "MyopicNaiveGreedyDecision")
            D = pol.calculate(R, V)
            vc.ensure(f"O-C07-greedy.feasible{S}", vc.And(*[vc.implies(D[i, j], V[i, j]) for i in range(n) for j in range(m)]))
            vc.ensure(f"O-C07-greedy.atmost1{S}", vc.And(*[_count(vc, [D[i, j] for i in range(n)]) <= 1 for j in range(m)]))
            # every sensor gets its highest-reward target (first maximal row), tasked iff visible
            opt = []
            for j in range(m):
                for i in range(n):
                    is_first_max = vc.And(*[R[i, j] > R[k, j] for k in range(i)], *[R[i, j] >= R[k, j] for k in range(i + 1, n)])
                    opt.append(vc.iff(D[i, j], vc.And(is_first_max, V[i, j])))
            vc.ensure(f"O-C07-greedy.opt{S}", vc.And(*opt))

        @obligation("C07", f"{prefix}munkres{S}", ensures=[f"O-C07-munkres.feasible{S}", f"O-C07-munkres.atmost1{S}", f"O-C07-munkres.opt{S}", f"O-C07-munkres.call{S}"],
                    fns=[DD + "MunkresDecision._calculate", DB + "Decision.calculate"], mode="R", tier=tier,
                    bounded=f"shape {n}x{m} (all real reward values and visibility masks; all complete assignments enumerated)",
                    assumes=["scipy.optimize.linear_sum_assignment returns an optimal complete one-to-one assignment of the matrix it is given (library contract)"])
        def munkres(vc, n=n, m=m, S=S):
            R, V = _RV(vc, n, m)
            pol = vc.new(DD + "MunkresDecision")
            D = pol.calculate(R, V)
            vc.ensure(f"O-C07-munkres.feasible{S}", vc.And(*[vc.implies(D[i, j], V[i, j]) for i in range(n) for j in range(m)]))
            vc.ensure(f"O-C07-munkres.atmost1{S}", vc.And(*[_count(vc, [D[i, j] for i in range(n)]) <= 1 for j in range(m)],
                                                           *[_count(vc, [D[i, j] for j in range(m)]) <= 1 for i in range(n)]))
            if vc.symbolic:
                calls = sym.ctx().__dict__.get("lsa_calls", [])
                ok_call = len(calls) == 1 and calls[0][1] is True and calls[0][0].shape == (n, m) and \
                    all(calls[0][0][i, j] is R[i, j] for i in range(n) for j in range(m))
                vc.ensure(f"O-C07-munkres.call{S}", ok_call)
            else:
                vc.ensure(f"O-C07-munkres.call{S}", True)
            # D = A & V for a complete one-to-one assignment A of maximal total reward over ALL complete assignments
            k = min(n, m)
            if n <= m:
                cands = [(tuple(range(n)), cols) for cols in itertools.permutations(range(m), n)]
            else:
                cands = [(rows, perm) for rows in itertools.combinations(range(n), m) for perm in itertools.permutations(range(m), m)]
            tot = lambda c: sum((R[i, j] for i, j in zip(*c)), 0)
            exists = []
            for c in cands:
                pairs = set(zip(*c))
                is_this = vc.And(*[vc.iff(D[i, j], vc.And((i, j) in pairs, V[i, j])) for i in range(n) for j in range(m)])
                maximal = vc.And(*[tot(c) >= tot(o) for o in cands if o != c]) if len(cands) > 1 else True
                exists.append(vc.And(is_this, maximal))
            vc.ensure(f"O-C07-munkres.opt{S}", vc.Or(*exists))

        # (one path per visibility mask: 2^(n*m); 4x4 would be 65 536 paths - the thorough tier stops at 12 cells)
        @(obligation("C07", f"{prefix}allvis{S}", ensures=[f"O-C07-allvis{S}"], fns=[DD + "AllVisibleDecision._calculate", DB + "Decision.calculate"],
                     mode="R", tier=tier, bounded=f"shape {n}x{m}") if n * m <= 12 else (lambda f: f))
        def allvis(vc, n=n, m=m, S=S):
            R, V = _RV(vc, n, m)
            pol = vc.new(DD + "AllVisibleDecision")
            D = pol.calculate(R, V)
            vc.ensure(f"O-C07-allvis{S}", vc.And(*[vc.iff(D[i, j], V[i, j]) for i in range(n) for j in range(m)]))

        # (one path per mask AND per choice of the generator: 3x4 is 28 561 paths / 17 min - the thorough tier stops at 9 cells)
        @(obligation("C07", f"{prefix}random{S}", ensures=[f"O-C07-random.feasible{S}", f"O-C07-random.atmost1{S}", f"O-C07-random.tasks-if-any{S}"],
                     fns=[DD + "RandomDecision._calculate", DB + "Decision.calculate"], mode="R", tier=tier, bounded=f"shape {n}x{m}",
                     assumes=["numpy Generator.choice(a, 1) returns a 1-element array holding some element of a (library contract)"]) if n * m <= 9 else (lambda f: f))
        def random_(vc, n=n, m=m, S=S):
            R, V = _RV(vc, n, m)

            class Rng:
                def choice(self, arr, size):
                    arr = list(arr)
                    if not vc.symbolic:
                        return np.array([arr[0]])
                    sel = sym.SNum(sym.ctx().fresh("choice", "int"))
                    sym.ctx().assume(sym.And(sel >= 0, sel < len(arr)))
                    for i in range(len(arr)):
                        if sel == i:
                            return np.array([arr[i]])
                    raise sym.PathAbort()
            pol = vc.new(DD + "RandomDecision", _seed=Rng() if vc.symbolic else np.random.default_rng(vc.int("seed", 0, 99)))
            D = pol.calculate(R, V)
            vc.ensure(f"O-C07-random.feasible{S}", vc.And(*[vc.implies(D[i, j], V[i, j]) for i in range(n) for j in range(m)]))
            cnt = [_count(vc, [D[i, j] for i in range(n)]) for j in range(m)]
            vc.ensure(f"O-C07-random.atmost1{S}", vc.And(*[c <= 1 for c in cnt]))
            vc.ensure(f"O-C07-random.tasks-if-any{S}", vc.And(*[vc.iff(cnt[j] == 1, vc.Or(*[V[i, j] for i in range(n)])) for j in range(m)]))


_mk("", SHAPES_Q, "quick")
_mk("t.", SHAPES_T, "thorough")


CE = "resonaate.tasking.engine.centralized_engine:"


def _sgn(vc, x):
    return vc.ite(x > 0, 1, vc.ite(x < 0, -1, 0))


@obligation("C07", "rewards", ensures=["O-C07-reward.cost-constrained", "O-C07-reward.sum", "O-C07-reward.combined", "O-C07-reward.zero-metrics"],
            fns=[RW + "CostConstrainedReward.calculate", RW + "SimpleSummationReward.calculate", RW + "CombinedReward.calculate"], mode="R",
            bounded="metric tensor 2x2xK (element-wise formulas; values unbounded)",
            note="each reward is exactly the documented combination delta*(sign(stab)+info) - (1-delta)*sens [+ behaviour], resp. the sum of the metrics; all-zero metrics (an invisible pair) give reward 0")
def rewards(vc):
    from resonaate.common.labels import MetricTypeLabel as L
    n, m = 2, 2
    dt = object if vc.symbolic else float
    M = np.empty((n, m, 4), dtype=dt)
    for i in range(n):
        for j in range(m):
            for k in range(4):
                M[i, j, k] = vc.real(f"M[{i},{j},{k}]", -5, 5)
    delta = vc.real("delta", 0, 1)
    idx = {L.INFORMATION: [0], L.STABILITY: [1], L.SENSOR: [2], L.TARGET: [3]}
    cc = vc.new(RW + "CostConstrainedReward", _metric_type_indices=idx, _delta=delta)
    r = cc.calculate(M[:, :, :3].copy())
    exp = lambda i, j: delta * (_sgn(vc, M[i, j, 1]) + M[i, j, 0]) - (1 - delta) * M[i, j, 2]
    vc.ensure("O-C07-reward.cost-constrained", vc.And(*[vc.eq(r[i, j], exp(i, j)) for i in range(n) for j in range(m)]))
    ss = vc.new(RW + "SimpleSummationReward")
    r2 = ss.calculate(M.copy())
    vc.ensure("O-C07-reward.sum", vc.And(*[vc.eq(r2[i, j], M[i, j, 0] + M[i, j, 1] + M[i, j, 2] + M[i, j, 3]) for i in range(n) for j in range(m)]))
    cb = vc.new(RW + "CombinedReward", _metric_type_indices=idx, _delta=delta)
    r3 = cb.calculate(M.copy())
    vc.ensure("O-C07-reward.combined", vc.And(*[vc.eq(r3[i, j], exp(i, j) + M[i, j, 3]) for i in range(n) for j in range(m)]))
    Z = np.zeros((n, m, 4)) if not vc.symbolic else np.full((n, m, 4), 0, dtype=object)
    vc.ensure("O-C07-reward.zero-metrics", vc.And(vc.eq(cc.calculate(Z[:, :, :3]), np.zeros((n, m))), vc.eq(ss.calculate(Z), np.zeros((n, m))),
                                                  vc.eq(cb.calculate(Z), np.zeros((n, m)))))


@obligation("C07", "reward_ctor", ensures=["O-C07-reward.configured-delta", "O-C07-reward.ctor-indices"],
            fns=[RW + "CostConstrainedReward.__init__", RW + "CombinedReward.__init__", RW + "CostConstrainedReward.fromConfig", RW + "CombinedReward.fromConfig", RB + "Reward.__init__"], mode="R",
            note="the weight delta used by the documented combination is the one the caller / the configuration gives, for every delta in [0, 1] (both ends included: delta = 0 is 'sensor cost "
                 "only'); the constructor files each metric under its own type, in the order given")
def reward_ctor(vc):
    from types import SimpleNamespace as NS
    from resonaate.common.labels import MetricTypeLabel as L
    from resonaate.tasking.metrics.metric_base import Metric
    delta = vc.real("delta", 0, 1, special=[0.0, 1.0, 0.85])
    kinds4 = [L.SENSOR, L.INFORMATION, L.STABILITY, L.TARGET]
    for name, K in (("CostConstrainedReward", 3), ("CombinedReward", 4)):
        mets = [type(f"Met{k}", (Metric,), {"METRIC_TYPE": kinds4[k], "calculate": lambda self, e, s: 0.0})() for k in range(K)]
        for via_config in (False, True):
            if vc.symbolic:
                C = vc.cls(RW + name)
                if via_config:
                    rw = C.fromConfig(mets, NS(delta=delta, name=name, metrics=[]))
                else:
                    rw = object.__new__(C)
                    C.__init__(rw, mets, delta=delta)
            else:
                C = vc.fn(RW + name)
                rw = C.fromConfig(mets, NS(delta=delta, name=name, metrics=[])) if via_config else C(mets, delta=delta)
            vc.ensure("O-C07-reward.configured-delta", vc.close(rw._delta, delta, 0.0))
            idx = rw._metric_type_indices
            vc.ensure("O-C07-reward.ctor-indices", all(list(idx[kinds4[k]]) == [k] for k in range(K)) and len(idx) == K)


def _norm_harness(shape, tier):
    n, m, K = shape
    S = f"[{n}x{m}x{K}]"

    @obligation("C07", f"normalize{S}", ensures=[f"O-C07-normalize.max1{S}", f"O-C07-normalize.scaled{S}"], fns=[RB + "Reward.normalizeMetrics"], mode="R",
                tier=tier, bounded=f"metric tensor {n}x{m}x{K}",
                note="after normalisation every metric plane has maximum <= 1; a plane whose maximum is <= 0 is unchanged, otherwise it is divided by its maximum (zeros stay zero)")
    def h(vc):
        dt = object if vc.symbolic else float
        M = np.empty((n, m, K), dtype=dt)
        for i in range(n):
            for j in range(m):
                for k in range(K):
                    M[i, j, k] = vc.real(f"M[{i},{j},{k}]", -5, 5)
        orig = M.copy()
        # a reward built by the REAL constructor from metric objects, several of which share one metric type (e.g. two covariance-trace metrics)
        from resonaate.tasking.metrics.metric_base import Metric
        kinds = ["information", "information", "stability"]
        mets = [type(f"Met{k}", (Metric,), {"METRIC_TYPE": kinds[k % 3], "calculate": lambda self, e, s: 0.0})() for k in range(K)]
        if vc.symbolic:
            rw = vc.new(RW + "SimpleSummationReward")
            vc.fn(RB + "Reward.__init__")(rw, mets)
        else:
            rw = vc.fn(RW + "SimpleSummationReward")(mets)
        out = rw.normalizeMetrics(M)
        oks, sc = [], []
        for k in range(K):
            plane = [orig[i, j, k] for i in range(n) for j in range(m)]
            mx = plane[0]
            for x in plane[1:]:
                mx = vc.ite(x > mx, x, mx)
            for i in range(n):
                for j in range(m):
                    oks.append(vc.le(out[i, j, k], 1))
                    sc.append(vc.ite(mx > 0, vc.eq(out[i, j, k] * mx, orig[i, j, k]), vc.eq(out[i, j, k], orig[i, j, k])))
        vc.ensure(f"O-C07-normalize.max1{S}", vc.And(*oks))
        vc.ensure(f"O-C07-normalize.scaled{S}", vc.And(*sc))
    return h


_norm_harness((2, 2, 1), "quick")
_norm_harness((1, 2, 2), "quick")
_norm_harness((1, 2, 3), "quick")
_norm_harness((2, 3, 2), "thorough")


class _NS:
    def __init__(self, **kw):
        self.__dict__.update(kw)


@obligation("C07", "engine", ensures=["O-C07-engine.rewards", "O-C07-engine.tasking"],
            fns=[CE + "CentralizedTaskingEngine.calculateRewards", CE + "CentralizedTaskingEngine.generateTasking"], mode="Z",
            note="the engine's reward matrix is reward.calculate(reward.normalizeMetrics(metric_matrix)) reshaped to targets x sensors, and its decision matrix is decision.calculate(reward_matrix, visibility_matrix) - the policies above see exactly the engine's matrices")
def engine(vc):
    log = []
    metric = np.arange(12.0).reshape(2, 3, 2)
    normed = np.arange(12.0).reshape(2, 3, 2) + 100
    rew = np.arange(6.0) + 1000
    reward = _NS(normalizeMetrics=lambda mm: (log.append(("norm", mm)), normed)[1], calculate=lambda mm: (log.append(("calc", mm)), rew)[1])
    vis = np.ones((2, 3), dtype=bool)
    dec = np.zeros((2, 3), dtype=bool)
    decision = _NS(calculate=lambda r, v: (log.append(("dec", r, v)), dec)[1])
    eng = vc.new(CE + "CentralizedTaskingEngine", _reward=reward, _decision=decision, metric_matrix=metric, target_list=[11, 12], sensor_list=[1, 2, 3],
                 visibility_matrix=vis)
    eng.calculateRewards()
    ok1 = log[0][0] == "norm" and log[0][1] is metric and log[1][0] == "calc" and log[1][1] is normed and \
        eng.reward_matrix.shape == (2, 3) and bool(np.all(eng.reward_matrix == rew.reshape(2, 3)))
    vc.ensure("O-C07-engine.rewards", ok1)
    eng.generateTasking()
    ok2 = log[2][0] == "dec" and log[2][1] is eng.reward_matrix and log[2][2] is vis and eng.decision_matrix is dec
    vc.ensure("O-C07-engine.tasking", ok2)


def _equiv(n, m, tier):
    S = f"[{n}x{m}]"

    @obligation("C07", f"equivariance{S}", ensures=[f"O-C07-equivariance.greedy{S}", f"O-C07-equivariance.munkres-value{S}", f"O-C07-equivariance.allvis{S}"],
                fns=[DD + "MyopicNaiveGreedyDecision._calculate", DD + "MunkresDecision._calculate", DD + "AllVisibleDecision._calculate", DB + "Decision.calculate"],
                mode="R", tier=tier, bounded=f"shape {n}x{m}, every row and column permutation",
                note="relabelling targets (rows) and sensors (columns) relabels the greedy decision (strict column maxima: ties are broken by index, which the statement cannot forbid) and the all-visible decision, and leaves the total reward of the assignment policy's choice unchanged")
    def h(vc):
        R, V = _RV(vc, n, m)
        if vc.symbolic:
            for j in range(m):  # strict maxima per column
                for i in range(n):
                    for k in range(i + 1, n):
                        vc.assume(R[i, j] != R[k, j])
        else:
            R = R + np.arange(n * m).reshape(n, m) * 1e-3
        g = vc.new(DD + "MyopicNaiveGreedyDecision")
        mk = vc.new(DD + "MunkresDecision")
        av = vc.new(DD + "AllVisibleDecision")
        D0, A0 = g.calculate(R, V), av.calculate(R, V)
        M0 = mk.calculate(R, V)
        okg, oka, okm = [], [], []
        full = np.full((n, m), True, dtype=object if vc.symbolic else bool)
        T0 = mk.calculate(R, full)
        tot0 = sum((vc.ite(T0[i, j], R[i, j], 0) for i in range(n) for j in range(m)), 0)
        for sg in itertools.permutations(range(n)):
            for tu in itertools.permutations(range(m)):
                if sg == tuple(range(n)) and tu == tuple(range(m)):
                    continue
                Rp, Vp = R[np.ix_(sg, tu)], V[np.ix_(sg, tu)]
                Dp, Ap = g.calculate(Rp, Vp), av.calculate(Rp, Vp)
                okg.append(vc.And(*[vc.iff(Dp[a, b], D0[sg[a], tu[b]]) for a in range(n) for b in range(m)]))
                oka.append(vc.And(*[vc.iff(Ap[a, b], A0[sg[a], tu[b]]) for a in range(n) for b in range(m)]))
                Tp = mk.calculate(Rp, full)
                totp = sum((vc.ite(Tp[a, b], Rp[a, b], 0) for a in range(n) for b in range(m)), 0)
                okm.append(vc.eq(totp, tot0, 1e-9))
        vc.ensure(f"O-C07-equivariance.greedy{S}", vc.And(*okg))
        vc.ensure(f"O-C07-equivariance.allvis{S}", vc.And(*oka))
        vc.ensure(f"O-C07-equivariance.munkres-value{S}", vc.And(*okm))
    return h


_equiv(2, 2, "quick")
# (3x2: > 11 000 paths and 30 min of exploration - beyond the thorough budget; larger shapes only through the bounded stand-in)


@obligation("C07", "policies_bounded", ensures=["B-C07-large.feasible", "B-C07-large.atmost1", "B-C07-large.greedy-opt", "B-C07-large.munkres-opt", "B-C07-large.allvis", "B-C07-large.random"],
            fns=[DD + "MyopicNaiveGreedyDecision._calculate", DD + "MunkresDecision._calculate", DD + "AllVisibleDecision._calculate", DD + "RandomDecision._calculate", DB + "Decision.calculate"],
            mode="R", native_only=True, samples=300,
            bounded="BOUNDED stand-in, not a proof: 300 (quick) / 3000 (thorough) random reward/visibility matrices per run with 1..12 targets x 1..12 sensors and small-integer rewards (ties, zeros, negatives); "
                    "the unbounded-in-values proofs above stop at 3x3 (4x4 thorough)",
            note="same clauses as O-C07-{greedy,munkres,allvis,random}.* on shapes beyond the proved ones; the assignment policy's total reward is compared with an independent optimum (brute force over all complete assignments up to 6x6, scipy beyond)")
def policies_bounded(vc):
    import importlib
    from scipy.optimize import linear_sum_assignment
    n, m = vc.int("targets", 1, 12), vc.int("sensors", 1, 12)
    rng = np.random.default_rng(vc.int("seed", 0, 10 ** 9))
    span = [1, 2, 5, 50][vc.int("span", 0, 3)]
    R = rng.integers(-span, span + 1, size=(n, m)).astype(float)
    V = rng.random((n, m)) < [0.2, 0.5, 0.9, 1.0][vc.int("density", 0, 3)]
    D_ = importlib.import_module(DD[:-1])
    pols = {"greedy": D_.MyopicNaiveGreedyDecision(), "munkres": D_.MunkresDecision(), "allvis": D_.AllVisibleDecision(), "random": D_.RandomDecision(int(rng.integers(0, 1000)))}
    out = {k: p.calculate(R.copy(), V.copy()) for k, p in pols.items()}
    vc.ensure("B-C07-large.feasible", all(bool(np.all(~d | V)) and d.shape == (n, m) and d.dtype == bool for d in out.values()))
    vc.ensure("B-C07-large.atmost1", all(bool(np.all(out[k].sum(axis=0) <= 1)) for k in ("greedy", "munkres", "random")) and bool(np.all(out["munkres"].sum(axis=1) <= 1)))
    g = np.zeros((n, m), dtype=bool)
    g[np.argmax(R, axis=0), np.arange(m)] = True  # first maximal row of every column
    vc.ensure("B-C07-large.greedy-opt", bool(np.array_equal(out["greedy"], g & V)))
    vc.ensure("B-C07-large.allvis", bool(np.array_equal(out["allvis"], V)))
    vc.ensure("B-C07-large.random", bool(np.array_equal(out["random"].sum(axis=0) == 1, V.any(axis=0))))
    # assignment policy: D = A & V for some complete one-to-one assignment A of maximal total reward
    A = pols["munkres"]._calculate(R.copy(), V.copy())
    k = min(n, m)
    if max(n, m) <= 6:
        best = max(sum(R[i, j] for i, j in zip(rows, cols)) for rows in (itertools.combinations(range(n), k) if n > m else [tuple(range(n))])
                   for cols in itertools.permutations(range(m), k))
    else:
        r_, c_ = linear_sum_assignment(R, maximize=True)
        best = R[r_, c_].sum()
    ok = A.sum() == k and bool(np.all(A.sum(axis=0) <= 1)) and bool(np.all(A.sum(axis=1) <= 1)) and abs(R[A].sum() - best) < 1e-9 and bool(np.array_equal(out["munkres"], A & V))
    vc.ensure("B-C07-large.munkres-opt", bool(ok))


# the engine hands the reward workers its sensors in matrix-column order and creates one task job per tasked target (C08 assess_jobs): re-checked in this property's own run
from pyvc.harness import share as _share  # noqa: E402
from contracts import C08 as _C08  # noqa: E402,F401
_share("C08", "assess_jobs", "C07")
