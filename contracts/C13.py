"""C13 -- the high-fidelity force model equals an independent reference at every state/epoch (claimed in part)."""
import itertools
import numpy as np
import z3
from pyvc.harness import obligation
from pyvc import sym

SP = "resonaate.dynamics.special_perturbations:"
GP = "resonaate.physics.bodies.gravitational_potential:"


class _NS:
    def __init__(self, **kw):
        self.__dict__.update(kw)


@obligation("C13", "thirdbody", ensures=["O-C13-3body"], fns=[SP + "_getThirdBodyAcceleration"], mode="R",
            note="Gram vectors: Vallado's cancellation-free form equals the direct formula (r3 - r)/|r3 - r|^3 - r3/|r3|^3 for every satellite and third-body position")
def thirdbody(vc):
    r, r3 = vc.gvec("r"), vc.gvec("r3")
    d = r3 - r
    vc.assume(vc.dot(r, r) > 1)
    vc.assume(vc.dot(r3, r3) > 1)
    vc.assume(vc.dot(d, d) > 1)
    a = vc.fn(SP + "_getThirdBodyAcceleration")(r, r3)
    nd, n3 = vc.norm(d), vc.norm(r3)
    ref = d / (nd * nd * nd) - r3 / (n3 * n3 * n3)
    if not vc.symbolic:
        vc.ensure("O-C13-3body", vc.eq(a, ref, 1e-6) if np.linalg.norm(ref) > 0 else True)
    else:
        vc.ensure("O-C13-3body", vc.eq(a, ref))


@obligation("C13", "relativity", ensures=["O-C13-gr"], fns=[SP + "_getGeneralRelativityAcceleration"], mode="R",
            note="equals mu/(c^2 r^3) [ (4 mu / r - v^2) r + 4 (r.v) v ] (Montenbruck 3.146)")
def relativity(vc):
    import resonaate.physics.bodies.earth as E
    import resonaate.physics.constants as const
    r, v = vc.gvec("r"), vc.gvec("v")
    vc.assume(vc.dot(r, r) > 1)
    vc.assume(vc.dot(v, v) > 1e-8)
    if not vc.symbolic:
        v = v * 2e-4
    a = vc.fn(SP + "_getGeneralRelativityAcceleration")(r, v)
    mu = float(E.Earth.mu)
    c_sq = (float(const.SPEED_OF_LIGHT) / 1000) ** 2
    rn = vc.norm(r)
    ref = (r * (4 * mu / rn - vc.dot(v, v)) + v * (4 * vc.dot(r, v))) * (mu / (c_sq * rn * rn * rn))
    vc.ensure("O-C13-gr", vc.eq(a, ref, 1e-9))


@obligation("C13", "srp", ensures=["O-C13-srp.formula", "O-C13-srp.direction"], fns=[SP + "SpecialPerturbations._getSolarRadiationPressureAcceleration", SP + "calcSatRatio"],
            mode="R", note="cannonball SRP: -P * C_R*(A/m) * AU^2 * (s - r)/|s - r|^3 * nu / 1000 with nu exactly the value calculateSunVizFraction returns (by contract, C14); directed away from the Sun when nu > 0; C_R*(A/m) = (1+reflectivity)*vcs/mass")
def srp(vc):
    import resonaate.physics.constants as const
    r, s = vc.gvec("r"), vc.gvec("s")
    p = s - r
    vc.assume(vc.dot(p, p) > 1)
    vcs, mass, refl = vc.real("vcs", 0.01, 100), vc.real("mass", 1, 1e4), vc.real("refl", 0, 1)
    ratio = vc.fn(SP + "calcSatRatio")(vcs, mass, refl)
    if vc.symbolic:
        nu = vc.real("nu", 0, 1)
        vc.stub("resonaate.physics.sensor_utils:calculateSunVizFraction", lambda a, b: nu)
    else:
        import resonaate.physics.sensor_utils as su
        s = s * 3000.0
        p = s - r
        vc.assume(np.linalg.norm(r) > 6400)
        nu = su.calculateSunVizFraction(r, s)
    o = vc.new(SP + "SpecialPerturbations", sat_ratio=ratio)
    a = o._getSolarRadiationPressureAcceleration(r, s)
    pn = vc.norm(p)
    P, AU = float(const.SOLAR_PRESSURE), float(const.AU2KM)
    ref = p * (-P * ((1.0 + refl) * (vcs / mass)) * (AU * AU) / (pn * pn * pn) * nu / 1000.0)
    vc.ensure("O-C13-srp.formula", vc.eq(a, ref, 1e-9))
    vc.ensure("O-C13-srp.direction", vc.le(vc.dot(a, p), 0))


def _sum_native(vc, K, T):
    """native replay of the sum obligations: the real _differentialEquation of a real SpecialPerturbations object (EGM96 4x4, real Sun/Moon ephemerides)
    against the sum assembled column by column from direct formulas (point mass, third body, SRP) and the separately contracted helpers, at jd0 + t/86400"""
    import datetime
    import resonaate.dynamics.special_perturbations as sp
    import resonaate.physics.constants as const
    from resonaate.physics.bodies import Earth
    from resonaate.physics.bodies.third_body import Sun
    from resonaate.physics.bodies.gravitational_potential import loadGeopotentialCoefficients
    from resonaate.physics.time.stardate import JulianDate, datetimeToJulianDate, julianDateToDatetime
    from resonaate.physics.transforms.reductions import ReductionParams
    from resonaate.physics.sensor_utils import calculateSunVizFraction
    use_srp, use_gr, thrust_on = vc.bool("srp"), vc.bool("gr"), vc.bool("thrust")
    bodies = [(), ("moon",), ("sun", "moon"), ("sun",)][vc.int("bodies", 0, 3)]
    jd0 = datetimeToJulianDate(datetime.datetime(2019, 6, 1) + datetime.timedelta(seconds=vc.int("start_off", 0, 86400 * 500)))
    t = vc.real("t_elapsed", 0, 20 * 86400)
    dyn = object.__new__(sp.SpecialPerturbations)
    from resonaate.common.labels import GeopotentialModel
    c_nm, s_nm = loadGeopotentialCoefficients(GeopotentialModel.EGM96)
    thrust = np.array([1e-6, -2e-6, 3e-6])
    dyn.__dict__.update(init_julian_date=jd0, c_nm=c_nm, s_nm=s_nm, degree=4, order=4, third_bodies=sp.thirdBodyFactory(list(bodies)), use_srp=use_srp, sat_ratio=0.02,
                        use_gr=use_gr, finite_thrust=(lambda x: np.concatenate([thrust, np.zeros(3)])) if thrust_on else None)
    cols = []
    for k in range(K):
        rad = vc.real(f"radius{k}", 6600, 60000)
        u = vc.vec(f"dir{k}", 3, -1, 1)
        vc.assume(np.linalg.norm(u) > 0.1)
        r = rad * u / np.linalg.norm(u)
        v = vc.vec(f"vel{k}", 3, -8, 8)
        cols.append((r, v))
    state = np.concatenate([np.array([c[0][i] for c in cols]) for i in range(3)] + [np.array([c[1][i] for c in cols]) for i in range(3)])
    got = dyn._differentialEquation(t, state)
    jd = JulianDate(float(jd0) + t / 86400)
    Emat = sp._getRotationMatrix(jd, ReductionParams.build(julianDateToDatetime(jd)))
    sun = np.asarray(Sun.getPosition(jd), dtype=float)
    ok_v, ok_p = True, True
    for k, (r, v) in enumerate(cols):
        a = -float(Earth.mu) * r / np.linalg.norm(r) ** 3
        a = a + Emat @ sp.nonSphericalAcceleration(Emat.T @ r, Earth.mu, Earth.radius, c_nm, s_nm, 4, 4)
        for body in dyn.third_bodies:
            p = np.asarray(body.getPosition(jd), dtype=float)
            a = a + float(body.mu) * ((p - r) / np.linalg.norm(p - r) ** 3 - p / np.linalg.norm(p) ** 3)
        if use_srp:
            d = sun - r
            a = a + (-const.SOLAR_PRESSURE * 0.02 * (const.AU2KM / np.linalg.norm(d)) ** 2 * d / np.linalg.norm(d)) * calculateSunVizFraction(r, sun) / 1000.0
        if use_gr:
            a = a + sp._getGeneralRelativityAcceleration(r, v)
        if thrust_on:
            a = a + thrust
        ok_v = ok_v and bool(np.allclose(got[3 * K + k::K], a, rtol=1e-9, atol=1e-16))
        ok_p = ok_p and bool(np.array_equal(got[k:3 * K:K], v))
    vc.ensure(f"O-C13-sum.velocity-rate{T}", ok_v)
    vc.ensure(f"O-C13-sum.position-rate{T}", ok_p)
    vc.ensure(f"O-C13-sum.epoch{T}", ok_v)  # (a wrong epoch shows up as a wrong Sun/Moon/rotation term above)
    vc.ensure(f"O-C13-sum.frames{T}", ok_v)


def _sum_harness(K, tier):
    T = f"[K{K}]"

    @obligation("C13", f"sum{T}", ensures=[f"O-C13-sum.velocity-rate{T}", f"O-C13-sum.position-rate{T}", f"O-C13-sum.epoch{T}", f"O-C13-sum.frames{T}"],
                fns=[SP + "SpecialPerturbations._differentialEquation"], mode="R", tier=tier,
                bounded=f"batch of {K} column(s); every subset of {{SRP, GR, thrust}} and third-body sets {{}}, {{Moon}}, {{Sun, Moon}}",
                note="modular (each force term by its own contract): for every batch column the velocity rate is -mu r/|r|^3 + E a_ns(E^T r) + sum_b mu_b a_3(r, p_b) + [srp] a_srp(r, sun) + [gr] a_gr(r, v) + [thrust], each term present exactly when configured (SRP uses the Sun position also when the Sun is not a third body); the position rate is the velocity of the same column; every epoch-dependent quantity is evaluated at init_julian_date + time/86400 only")
    def h(vc):
        import resonaate.physics.bodies.earth as E
        mu = float(E.Earth.mu)
        state = vc.vec("state", 6 * K, -5e4, 5e4)
        t = vc.real("t", 0, 1e6)
        jd0 = vc.real("jd0", 2450000, 2470000)
        Emat = vc.mat("E", 3, 3, -1, 1)
        if not vc.symbolic:
            _sum_native(vc, K, T)
            return
        for use_srp, use_gr, thrust_on, bodies in [(a, b, c, d) for a in (False, True) for b in (False, True) for c in (False, True)
                                                   for d in ((), ("moon",), ("sun", "moon"))][:: (1 if tier == "thorough" or K == 1 else 5)]:
            log = {"jd": [], "ns": [], "tb": [], "srp": [], "gr": []}

            def fresh3(tag):
                n = sum(len(v) for v in log.values())
                return np.array([sym.SNum(z3.Real(f"{tag}{n}.{i}")) for i in range(3)], dtype=object)

            class Body:
                def __init__(self, name):
                    self.name, self.mu, self.pos = name, sym.SNum(z3.Real("mu_" + name)), np.array([sym.SNum(z3.Real(f"p_{name}.{i}")) for i in range(3)], dtype=object)

                def getPosition(self, jd):
                    log["jd"].append(("pos:" + self.name, jd))
                    return self.pos

                def __hash__(self):
                    return hash(self.name)

                def __eq__(self, o):
                    return isinstance(o, Body) and o.name == self.name
            SunB = Body("sun")
            tbs = {Body(b) if b != "sun" else SunB: b for b in bodies}
            vc.stub(SP + "@Sun", SunB)
            vc.stub(SP + "@JulianDate", lambda x: x)
            vc.stub(SP + "@julianDateToDatetime", lambda jd: (log["jd"].append(("dt", jd)), "DT")[1])
            vc.stub(SP + "@ReductionParams", _NS(build=lambda d: (log["jd"].append(("red", d)), "RED")[1]))
            vc.stub(SP + "_getRotationMatrix", lambda jd, red: (log["jd"].append(("rot", jd, red)), Emat)[1])
            vc.stub(SP + "@checkEarthCollision", lambda x: None)

            def ns_stub(r_ecef, mu_, rad, c, s, deg, order):
                out = fresh3("ans")
                log["ns"].append((r_ecef, (mu_, rad, c, s, deg, order), out))
                return out

            def tb_stub(r, p):
                out = fresh3("atb")
                log["tb"].append((r, p, out))
                return out

            def gr_stub(r, v):
                out = fresh3("agr")
                log["gr"].append((r, v, out))
                return out

            def srp_stub(self_, r, sun):
                out = fresh3("asrp")
                log["srp"].append((r, sun, out))
                return out
            vc.stub(GP + "nonSphericalAcceleration", ns_stub)
            vc.stub(SP + "_getThirdBodyAcceleration", tb_stub)
            vc.stub(SP + "_getGeneralRelativityAcceleration", gr_stub)
            vc.stub(SP + "SpecialPerturbations._getSolarRadiationPressureAcceleration", srp_stub)
            thrust_vec = np.array([sym.SNum(z3.Real(f"thr.{i}")) for i in range(6)], dtype=object)
            thr_log = []
            o = vc.new(SP + "SpecialPerturbations", init_julian_date=jd0, third_bodies=tbs, use_srp=use_srp, use_gr=use_gr, sat_ratio=0.02,
                       c_nm="C", s_nm="S", degree=4, order=4, finite_thrust=(lambda x: (thr_log.append(x), thrust_vec)[1]) if thrust_on else None)
            der = o._differentialEquation(t, state.copy())
            S2 = state.reshape(6, K)
            D2 = np.asarray(der, dtype=object).reshape(6, K)
            ok_v, ok_p, ok_f = [], [], []
            for j in range(K):
                r, v = S2[:3, j], S2[3:, j]
                n2 = r[0] * r[0] + r[1] * r[1] + r[2] * r[2]
                rn = vc.sqrt(n2)
                acc = r * (-1.0 * mu / (rn * rn * rn))
                # geopotential: evaluated at E^T r, rotated back by E
                r_ecef_used, cfg, a_ns = log["ns"][j]
                ok_f.append(vc.And(vc.eq(np.asarray(r_ecef_used, dtype=object), np.dot(Emat.T, r)), cfg[2] == "C" and cfg[3] == "S" and cfg[4] == 4 and cfg[5] == 4))
                acc = acc + np.dot(Emat, a_ns)
                tb_calls = log["tb"][j * len(tbs):(j + 1) * len(tbs)]
                ok_f.append(len(tb_calls) == len(tbs))
                for (rr, pp, out), body in zip(tb_calls, tbs):
                    ok_f.append(vc.And(vc.eq(np.asarray(rr, dtype=object), r), vc.eq(np.asarray(pp, dtype=object), body.pos)))
                    acc = acc + body.mu * out
                if use_srp:
                    rr, sun, out = log["srp"][j]
                    ok_f.append(vc.And(vc.eq(np.asarray(rr, dtype=object), r), vc.eq(np.asarray(sun, dtype=object), SunB.pos)))
                    acc = acc + out
                if use_gr:
                    rr, vv, out = log["gr"][j]
                    ok_f.append(vc.And(vc.eq(np.asarray(rr, dtype=object), r), vc.eq(np.asarray(vv, dtype=object), v)))
                    acc = acc + out
                if thrust_on:
                    ok_f.append(vc.eq(np.asarray(thr_log[j], dtype=object), np.concatenate([r, v])))
                    acc = acc + thrust_vec[:3]
                ok_v.append(vc.eq(D2[3:, j], acc))
                ok_p.append(vc.eq(D2[:3, j], v))
            ok_f.append(len(log["srp"]) == (K if use_srp else 0) and len(log["gr"]) == (K if use_gr else 0) and len(thr_log) == (K if thrust_on else 0)
                        and len(log["ns"]) == K)
            jd_expected = jd0 + t / 86400
            ok_e = [vc.eq(e[1], jd_expected) for e in log["jd"] if e[0] in ("dt", "rot") or e[0].startswith("pos:")]
            ok_e.append(any(e[0] == "red" and e[1] == "DT" for e in log["jd"]) and any(e[0] == "rot" and e[2] == "RED" for e in log["jd"]))
            vc.ensure(f"O-C13-sum.velocity-rate{T}", vc.And(*ok_v))
            vc.ensure(f"O-C13-sum.position-rate{T}", vc.And(*ok_p))
            vc.ensure(f"O-C13-sum.frames{T}", vc.And(*ok_f))
            vc.ensure(f"O-C13-sum.epoch{T}", vc.And(*ok_e))
    return h


_sum_harness(1, "quick")
_sum_harness(2, "quick")
_sum_harness(3, "thorough")


@obligation("C13", "rotation", ensures=["O-C13-rotation.def", "O-C13-rotation.orthogonal"], fns=[SP + "_getRotationMatrix"], mode="R",
            note="the Earth-fixed -> inertial matrix used for the geopotential is rot_pn * rot3(-GAST) * rot_w (orthogonal; the same composition as ReductionParams.rot_pnr * rot_w, C04), with GAST evaluated at the integration epoch's calendar fields incl. dUT1")
def rotation(vc):
    from pyvc import orth
    from contracts import C04
    if not vc.symbolic:
        # native replay: the real function on real reduction parameters against PN * rot3(-GAST) * W assembled from the real helpers
        import datetime
        from resonaate.dynamics.special_perturbations import _getRotationMatrix
        from resonaate.physics.transforms.reductions import ReductionParams
        from resonaate.physics.time.stardate import datetimeToJulianDate
        from resonaate.physics.time.conversions import dayOfYear, greenwichApparentTime
        from resonaate.physics.maths import rot3
        d = datetime.datetime(2019, 3, 4, 5, 6, 7) + datetime.timedelta(seconds=vc.int("secs", 0, 86400 * 600))
        red = ReductionParams.build(d)
        jd = datetimeToJulianDate(d)
        y, mo, dd, h, mi, sec = jd.calendar_date
        gast = greenwichApparentTime(y, dayOfYear(y, mo, dd, h, mi, sec + red.dut1) - 1, red.eq_equinox)
        R = _getRotationMatrix(jd, red)
        vc.ensure("O-C13-rotation.def", bool(np.allclose(R, red.rot_pn @ rot3(-1.0 * gast) @ red.rot_w, atol=1e-13, rtol=0)))
        vc.ensure("O-C13-rotation.orthogonal", bool(np.allclose(R.T @ R, np.eye(3), atol=1e-12, rtol=0)))
        return
    vc.stub("resonaate.physics.maths:rot3", C04.rot_stub(3))
    calls = {}
    doy, gast = vc.real("doy", 1, 367), vc.angle("gast", 0, 6.28)
    vc.stub("resonaate.physics.time.conversions:dayOfYear", lambda *a: (calls.__setitem__("doy", a), doy)[1])
    vc.stub("resonaate.physics.time.conversions:greenwichApparentTime", lambda *a: (calls.__setitem__("gast", a), gast)[1])
    PN, W = orth.LMat.gen("PN"), orth.LMat.gen("W")
    dut1, eqe = vc.real("dut1", -1, 1), vc.angle("eqe")
    sec = vc.real("sec", 0, 60)
    jd = _NS(calendar_date=(2020, 5, 6, 7, 8, sec))
    R = vc.fn(SP + "_getRotationMatrix")(jd, _NS(rot_pn=PN, rot_w=W, dut1=dut1, eq_equinox=eqe))
    ok_args = vc.And(calls["doy"][:5] == (2020, 5, 6, 7, 8), calls["doy"][5] == sec + dut1, calls["gast"][0] == 2020, calls["gast"][1] == doy - 1, calls["gast"][2] == eqe)
    vc.ensure("O-C13-rotation.def", vc.And(ok_args, vc.eq(R, PN @ C04.rot_stub(3)(-gast) @ W)))
    vc.ensure("O-C13-rotation.orthogonal", vc.And(vc.eq(R.T @ R, orth.LMat.identity()), vc.eq(R @ R.T, orth.LMat.identity())))


def _sp_eval(e, env):
    """evaluate a sympy expression with exact rational coefficients on contract values (symbolic or float)"""
    import sympy as sp
    from fractions import Fraction
    if e.is_Symbol:
        return env[e]
    if e.is_Rational:
        return Fraction(int(e.p), int(e.q)) if e.q != 1 else int(e.p)
    if e.is_Add:
        acc = _sp_eval(e.args[0], env)
        for a in e.args[1:]:
            acc = acc + _sp_eval(a, env)
        return acc
    if e.is_Mul:
        acc = _sp_eval(e.args[0], env)
        for a in e.args[1:]:
            acc = acc * _sp_eval(a, env)
        return acc
    if e.is_Pow and e.exp.is_Integer:
        b = _sp_eval(e.base, env)
        n = int(e.exp)
        acc = 1
        for _ in range(abs(n)):
            acc = acc * b
        return acc if n >= 0 else 1 / acc
    raise ValueError(f"unsupported sympy node {e.func}")


def _harmonics(deg, order, tier):
    T = f"[{deg},{order}]"

    @obligation("C13", f"harmonics{T}", ensures=[f"O-C13-harm.gradient{T}"], fns=[GP + "nonSphericalAcceleration", GP + "getNonSphericalHarmonics"], mode="R",
                tier=tier, bounded=f"degree {deg}, order {order} (all positions and coefficient values symbolic; no induction over the Cunningham recursion is attempted)",
                sympy_timeout_s=240, timeout_ms=30000,
                note="the fully unrolled recursion equals the gradient of U = (mu/r) sum_n sum_m (R/r)^n P_nm(z/r) (C_nm cos(m lam) + S_nm sin(m lam)), n = 2..degree, written as explicit polynomials in x, y, z over powers of r (derived by symbolic differentiation in the contract); polynomial identity modulo r^2 = x^2+y^2+z^2, back end sympy-ring (Groebner reduction)")
    def h(vc):
        import sympy as sp
        x, y, z = vc.real("x", -5e4, 5e4), vc.real("y", -5e4, 5e4), vc.real("z", -5e4, 5e4)
        rn = vc.real("rn", 6000, 1e5)
        if vc.symbolic:
            vc.assume(rn * rn == x * x + y * y + z * z)
            vc.stub(GP + "@norm", lambda v: rn)
        else:
            sc = rn / np.sqrt(x * x + y * y + z * z)
            x, y, z = x * sc, y * sc, z * sc
        # (mu and R are parameters of the function: symbolic here, so no float constant is folded)
        mu, R = vc.real("mu", 3e5, 5e5), vc.real("R", 6000, 7000)
        n1 = deg + 1
        dt = object if vc.symbolic else float
        C = np.zeros((n1 + 1, n1 + 1), dtype=dt)
        S = np.zeros((n1 + 1, n1 + 1), dtype=dt)
        # reference potential, built with sympy
        X, Y, Z, Rr, MU, RE = sp.symbols("X Y Z Rr MU RE", real=True)  # (mu, R as symbols: sympy must not fold the float constants)
        U = 0
        csyms = {}
        for n in range(2, deg + 1):
            for m in range(0, min(n, order) + 1):
                C[n, m] = vc.real(f"C{n}{m}", -1e-3, 1e-3)
                S[n, m] = vc.real(f"S{n}{m}", -1e-3, 1e-3) if m > 0 else 0.0
                cs, ss = sp.Symbol(f"c{n}{m}"), sp.Symbol(f"s{n}{m}")
                csyms[(n, m)] = (cs, ss)
                u = sp.Symbol("u")
                Pnm = (1 - u ** 2) ** sp.Rational(m, 2) * sp.diff(sp.legendre(n, u), u, m)  # no Condon-Shortley phase (Montenbruck)
                # (1-u^2)^(m/2) * (cos, sin)(m lam) = Re/Im (x + i y)^m / r^m
                zc = sp.expand((X + sp.I * Y) ** m)
                cosm, sinm = sp.re(zc), sp.im(zc)
                poly_lat = sp.diff(sp.legendre(n, u), u, m).subs(u, Z / Rr)
                U += (MU / Rr) * (RE / Rr) ** n * poly_lat * (cs * cosm + ss * sinm) / Rr ** m
        grad = []
        for var in (X, Y, Z):
            g = sp.diff(U, var) + sp.diff(U, Rr) * (var / Rr)  # chain rule: dr/dvar = var/r
            grad.append(g)
        env = {X: x, Y: y, Z: z, Rr: rn, MU: mu, RE: R}
        for (n, m), (cs, ss) in csyms.items():
            env[cs], env[ss] = C[n, m], S[n, m]
        ref = [_sp_eval(g, env) for g in grad]
        acc = vc.fn(GP + "nonSphericalAcceleration")(np.array([x, y, z], dtype=dt), mu, R, C, S, deg, order)
        vc.ensure(f"O-C13-harm.gradient{T}", vc.And(*[vc.eq(acc[i], ref[i], 1e-9) for i in range(3)]))
    return h


_harmonics(2, 0, "quick")
_harmonics(2, 2, "quick")
_harmonics(3, 3, "quick")
_harmonics(4, 4, "quick")
_harmonics(6, 6, "thorough")
_harmonics(8, 8, "thorough")
_harmonics(10, 10, "thorough")


# the SRP obligation above takes the visible fraction "by contract": that contract is re-checked in this property's own run
from pyvc.harness import share as _share  # noqa: E402
from contracts import C14 as _C14  # noqa: E402,F401
_share("C14", "sunfrac", "C13")


@obligation("C13", "harmonics_bounded", ensures=["B-C13-harm.high-degree-gradient", "B-C13-harm.file-model"], fns=[GP + "nonSphericalAcceleration", GP + "getNonSphericalHarmonics", GP + "loadGeopotentialCoefficients"],
            mode="R", native_only=True, samples=60,
            bounded="BOUNDED stand-in, not a proof: 60 (quick) / 600 (thorough) sampled positions per run from 200 km altitude to 10 Earth radii, degree/order 11..20 with random coefficients "
                    "(every coefficient of the top degree non-zero) and with each shipped geopotential file at 20x20; the symbolic proofs stop at degree 10",
            note="the real recursion against a central finite difference of the potential U = (mu/r) sum_n sum_m (R/r)^n P_nm(sin lat)(C_nm cos m lon + S_nm sin m lon) evaluated independently (Legendre functions by "
                 "explicit differentiation of numpy Legendre polynomials); agreement to 1e-6 of the term magnitude")
def harmonics_bounded(vc):
    from numpy.polynomial import legendre as npl
    from resonaate.physics.bodies.gravitational_potential import nonSphericalAcceleration, loadGeopotentialCoefficients
    from resonaate.common.labels import GeopotentialModel
    from resonaate.physics.bodies import Earth
    rng = np.random.default_rng(vc.int("seed", 0, 10 ** 9))
    deg = vc.int("degree", 11, 20)
    order = vc.int("order", 0, 20) % (deg + 1)
    rad = float(Earth.radius) + 200 + (9 * float(Earth.radius)) * vc.real("height", 0, 1) ** 3
    u = rng.normal(size=3)
    r = rad * u / np.linalg.norm(u)
    mu, R = float(Earth.mu), float(Earth.radius)

    def potential(p, C, S, deg, order):
        x, y, z = p
        rr = np.sqrt(x * x + y * y + z * z)
        s, lon = z / rr, np.arctan2(y, x)
        tot = 0.0
        for n in range(2, deg + 1):
            cn = np.zeros(n + 1)
            cn[n] = 1.0
            for m in range(0, min(n, order) + 1):
                pnm = (1 - s * s) ** (m / 2.0) * npl.legval(s, npl.legder(cn, m))  # no Condon-Shortley phase
                tot += (R / rr) ** n * pnm * (C[n, m] * np.cos(m * lon) + S[n, m] * np.sin(m * lon))
        return mu / rr * tot

    def fd_grad(C, S, deg, order):
        h = 1e-2
        g = np.zeros(3)
        for i in range(3):
            e = np.zeros(3)
            e[i] = h
            g[i] = (potential(r + e, C, S, deg, order) - potential(r - e, C, S, deg, order)) / (2 * h)
        return g
    C = np.zeros((22, 22))
    S = np.zeros((22, 22))
    for n in range(2, deg + 1):
        for m in range(0, n + 1):
            sc = 1e-6 / np.sqrt(float(np.prod(np.arange(n - m + 1, n + m + 1, dtype=float)))) if m else 1e-6
            C[n, m] = rng.normal() * sc * 10
            S[n, m] = rng.normal() * sc * 10 if m else 0.0
    got = np.asarray(nonSphericalAcceleration(r, mu, R, C, S, deg, order), dtype=float)
    ref = fd_grad(C, S, deg, order)
    # magnitude of the top-degree contribution: the tolerance must be far below it, or an index slip there would pass
    Ctop, Stop = np.zeros_like(C), np.zeros_like(S)
    Ctop[deg], Stop[deg] = C[deg], S[deg]
    top = np.linalg.norm(fd_grad(Ctop, Stop, deg, order))
    vc.ensure("B-C13-harm.high-degree-gradient", bool(np.linalg.norm(got - ref) <= 1e-3 * top + 1e-6 * np.linalg.norm(ref) + 1e-16))
    models = list(GeopotentialModel)
    model = models[vc.int("model", 0, 7) % len(models)]
    Cf, Sf = loadGeopotentialCoefficients(model)
    got_f = np.asarray(nonSphericalAcceleration(r, mu, R, Cf, Sf, 20, 20), dtype=float)
    ref_f = fd_grad(Cf, Sf, 20, 20)
    vc.ensure("B-C13-harm.file-model", bool(np.linalg.norm(got_f - ref_f) <= 2e-6 * np.linalg.norm(ref_f) + 1e-15))


@obligation("C13", "ephemeris_bounded", ensures=["B-C13-ephem.sun-analytic", "B-C13-ephem.moon-analytic", "B-C13-ephem.continuous"],
            fns=["resonaate.physics.bodies.third_body:Sun.getPosition", "resonaate.physics.bodies.third_body:Moon.getPosition", "resonaate.physics.bodies.third_body:getSegmentPosition"],
            mode="R", native_only=True, samples=400,
            bounded="BOUNDED stand-in, not a proof: 400 (quick) / 4000 (thorough) sampled epochs per run in 2014-2022 (uniform, and pairs straddling whole-day and 4/8/16/32-day record boundaries of the ephemeris file)",
            note="Sun and Moon positions agree with the low-precision analytic series (Vallado alg. 29 / 31: direction within 0.6 deg resp. 1 deg - the series are mean-of-date, the file J2000 -, distance within 0.2 % resp. 1.5 %) "
                 "and are continuous in time: the displacement over any interval dt is bounded by the bodies' geocentric speed (35 km/s, 1.3 km/s) x dt, also across record boundaries")
def ephemeris_bounded(vc):
    from resonaate.physics.bodies.third_body import Sun, Moon
    from resonaate.physics.bodies import Earth
    jd = 2456658.5 + vc.real("days", 0, 3190)
    if vc.bool("near_record_boundary"):
        step = 4.0 * [1, 2, 4, 8][vc.int("rec", 0, 3)]
        jd = 2451536.5 + round((jd - 2451536.5) / step) * step + [0.0, 0.5][vc.int("half", 0, 1)]
    dt = 10 ** vc.real("log_dt", -7, -0.3)
    T = (jd - 2451545.0) / 36525.0
    d2r = np.pi / 180
    eps = (23.439291 - 0.0130042 * T) * d2r
    M = (357.5291092 + 35999.05034 * T) * d2r
    lam = (280.460 + 36000.771 * T + 1.914666471 * np.sin(M) + 0.019994643 * np.sin(2 * M)) * d2r
    rs = (1.000140612 - 0.016708617 * np.cos(M) - 0.000139589 * np.cos(2 * M)) * 149597870.7
    sun_ref = rs * np.array([np.cos(lam), np.cos(eps) * np.sin(lam), np.sin(eps) * np.sin(lam)])
    sn = lambda a: np.sin(a * d2r)
    cs = lambda a: np.cos(a * d2r)
    lm = 218.32 + 481267.8813 * T + 6.29 * sn(134.9 + 477198.85 * T) - 1.27 * sn(259.2 - 413335.38 * T) + 0.66 * sn(235.7 + 890534.23 * T) \
        + 0.21 * sn(269.9 + 954397.70 * T) - 0.19 * sn(357.5 + 35999.05 * T) - 0.11 * sn(186.6 + 966404.05 * T)
    ph = 5.13 * sn(93.3 + 483202.03 * T) + 0.28 * sn(228.2 + 960400.87 * T) - 0.28 * sn(318.3 + 6003.18 * T) - 0.17 * sn(217.6 - 407332.20 * T)
    par = 0.9508 + 0.0518 * cs(134.9 + 477198.85 * T) + 0.0095 * cs(259.2 - 413335.38 * T) + 0.0078 * cs(235.7 + 890534.23 * T) + 0.0028 * cs(269.9 + 954397.70 * T)
    rm = float(Earth.radius) / sn(par)
    moon_ref = rm * np.array([cs(ph) * cs(lm), np.cos(eps) * cs(ph) * sn(lm) - np.sin(eps) * sn(ph), np.sin(eps) * cs(ph) * sn(lm) + np.cos(eps) * sn(ph)])
    ang = lambda a, b: np.degrees(np.arccos(np.clip(np.dot(a, b) / (np.linalg.norm(a) * np.linalg.norm(b)), -1, 1)))
    s0, m0 = np.asarray(Sun.getPosition(jd), dtype=float).reshape(3), np.asarray(Moon.getPosition(jd), dtype=float).reshape(3)
    vc.ensure("B-C13-ephem.sun-analytic", bool(ang(s0, sun_ref) < 0.6 and abs(np.linalg.norm(s0) / rs - 1) < 2e-3))
    vc.ensure("B-C13-ephem.moon-analytic", bool(ang(m0, moon_ref) < 1.0 and abs(np.linalg.norm(m0) / rm - 1) < 1.5e-2))
    s1 = np.asarray(Sun.getPosition(jd + dt), dtype=float).reshape(3)
    m1 = np.asarray(Moon.getPosition(jd + dt), dtype=float).reshape(3)
    s_1 = np.asarray(Sun.getPosition(jd - dt), dtype=float).reshape(3)
    m_1 = np.asarray(Moon.getPosition(jd - dt), dtype=float).reshape(3)
    sec = dt * 86400
    vc.ensure("B-C13-ephem.continuous", bool(max(np.linalg.norm(s1 - s0), np.linalg.norm(s0 - s_1)) <= 35.0 * sec + 1e-3 and max(np.linalg.norm(m1 - m0), np.linalg.norm(m0 - m_1)) <= 1.3 * sec + 1e-4))


DYN = "resonaate.dynamics:"


@obligation("C13", "configured", ensures=["O-C13-config.fields", "O-C13-config.third-bodies", "O-C13-config.factory"],
            fns=[SP + "SpecialPerturbations.__init__", SP + "thirdBodyFactory", DYN + "dynamicsFactory"], mode="Z",
            note="'each present exactly when configured': the propagator stores the configured degree and order (independently: a 4x2 field stays 4x2), coefficient tables of the configured model, the configured "
                 "SRP / relativity switches, start date and area-to-mass term, and exactly the configured third bodies; the factory builds it for a spacecraft with the scenario's start date, geopotential and "
                 "perturbation settings and the agent's own cross-section, mass and reflectivity")
def configured(vc):
    deg, order = vc.int("degree", 0, 80), vc.int("order", 0, 80)
    srp, gr = vc.bool("srp"), vc.bool("gr")
    loaded = []
    vc.install(SP + "@loadGeopotentialCoefficients", lambda model: (loaded.append(model), ("C-of-" + str(model), "S-of-" + str(model)))[1])
    geo = _NS(model="MODEL", degree=deg, order=order)
    if vc.symbolic:
        import resonaate.physics.bodies.third_body as tb
        tbf = vc.fn(SP + "thirdBodyFactory")
        pert = _NS(third_bodies=["moon", "Sun"], solar_radiation_pressure=srp, general_relativity=gr)
        dyn = vc.new(SP + "SpecialPerturbations")
        vc.fn(SP + "SpecialPerturbations.__init__")(dyn, "JD0", geo, pert, "RATIO", method="DOP853")
    else:
        import resonaate.dynamics.special_perturbations as spm
        import resonaate.physics.bodies.third_body as tb
        tbf = spm.thirdBodyFactory
        pert = _NS(third_bodies=["moon", "Sun"], solar_radiation_pressure=srp, general_relativity=gr)
        dyn = spm.SpecialPerturbations("JD0", geo, pert, "RATIO", method="DOP853")
    vc.ensure("O-C13-config.fields", vc.And(dyn.degree is deg or vc.eq(dyn.degree, deg), dyn.order is order or vc.eq(dyn.order, order), dyn.init_julian_date == "JD0", dyn.sat_ratio == "RATIO",
                                             dyn.use_srp is srp or dyn.use_srp == srp, dyn.use_gr is gr or dyn.use_gr == gr, dyn.c_nm == "C-of-MODEL", dyn.s_nm == "S-of-MODEL", loaded == ["MODEL"],
                                             dyn._method == "DOP853", dyn.finite_thrust is None))
    names = lambda d: sorted(k.__name__ for k in d)
    vc.ensure("O-C13-config.third-bodies", names(dyn.third_bodies) == ["Moon", "Sun"] and names(tbf([])) == [] and names(tbf(["jupiter", "SATURN", "venus"])) == ["Jupiter", "Saturn", "Venus"]
              and all(issubclass(k, tb.ThirdBody) for k in tbf(["sun", "moon", "jupiter", "saturn", "venus"])))
    # the factory
    import resonaate.scenario.config.platform_config as pc
    made = []
    vc.install(DYN + "@SpecialPerturbations", lambda *a, **k: (made.append((a, k)), "SP")[1])
    vc.install(DYN + "@TwoBody", lambda **k: (made.append(("twobody", k)), "TB")[1])
    vc.install(DYN + "@calcSatRatio", lambda a, m, r: ("RATIO", a, m, r))
    plat = object.__new__(pc.SpacecraftConfig)
    plat.__dict__.update(visual_cross_section=12.0, mass=345.0, reflectivity=0.3)
    acfg = _NS(platform=plat, state=None)
    # (a clock that has already ticked: an agent added mid-run is built with the clock at a later epoch; the reference epoch of its force model is still the START of the scenario)
    clock = _NS(julian_date_start="JD-START", datetime_start="DT-START", julian_date_epoch="JD-NOW", datetime_epoch="DT-NOW", time=7200.0)
    fac = vc.fn(DYN + "dynamicsFactory")
    out1 = fac(acfg, _NS(propagation_model="Special_Perturbations", integration_method="RK45"), "GEO", "PERT", clock)
    out2 = fac(acfg, _NS(propagation_model="two_body", integration_method="DOP853"), "GEO", "PERT", clock)
    vc.ensure("O-C13-config.factory", out1 == "SP" and out2 == "TB" and made[0] == (("JD-START", "GEO", "PERT", ("RATIO", 12.0, 345.0, 0.3)), {"method": "RK45"}) and made[1] == ("twobody", {"method": "DOP853"}))
