"""C06 -- unscented filter equals Kalman filter on linear systems; covariances stay valid."""
import numpy as np
import z3
from pyvc.harness import obligation
from pyvc import sym, shims

UK = "resonaate.estimation.kalman.unscented_kalman_filter:"
LIN = ["linear-Gaussian system: dynamics.propagate(t0, tf, X) = F X column-wise and every measurement component is H_j x with non-angular components (this is what 'on any linear-Gaussian system' means)",
       "numpy.linalg.cholesky returns the lower-triangular factor with positive diagonal (library contract; uniqueness)"]


class _NS:
    def __init__(self, **kw):
        self.__dict__.update(kw)


def _spd(vc, name, n):
    """symmetric positive-definite matrix given by its Cholesky factor"""
    dt = object if vc.symbolic else float
    L = np.zeros((n, n), dtype=dt)
    for i in range(n):
        for j in range(i + 1):
            L[i, j] = vc.real(f"{name}L[{i},{j}]", 0.05 if i == j else -3, 3)
    P = np.dot(L, L.T)
    return P, L


def _setup(vc, N, Ms, resample):
    from resonaate.physics.measurements import IsAngle
    dt = object if vc.symbolic else float
    x = vc.vec("x", N, -100, 100)
    P, L = _spd(vc, "P", N)
    Q, _ = _spd(vc, "Q", N)
    F = vc.mat("F", N, N, -2, 2)
    alpha = vc.real("alpha", 0.01, 1.0)
    beta = vc.real("beta", 0, 4)
    kappa = vc.real("kappa", -1, 3)
    vc.assume(N + kappa > 0.05)
    if vc.symbolic:
        shims.register_cholesky(P, L)
        vc.stub(UK + "@julianDateToDatetime", lambda jd: jd)
        vc.stub(UK + "@JulianDate", lambda jd: jd)
        vc.stub("resonaate.estimation.sequential_filter:SequentialFilter._debugChecks", lambda self, obs: None)
    dyn = _NS(propagate=lambda t0, tf, X, scheduled_events=None: np.dot(F, X))
    if vc.symbolic:
        C = vc.cls(UK + "UnscentedKalmanFilter")
        f = object.__new__(C)
        vc.fn(UK + "UnscentedKalmanFilter.__init__")(f, 1, 0.0, x, P, dyn, Q, None, False, False, resample, alpha, beta, kappa)
    else:
        from resonaate.estimation.kalman.unscented_kalman_filter import UnscentedKalmanFilter
        f = UnscentedKalmanFilter(1, 0.0, x, P, dyn, Q, None, False, False, resample, alpha, beta, kappa)
        f._debugChecks = lambda obs: None
    obs, Hs, Rs, ys = [], [], [], []
    for k, M in enumerate(Ms):
        H = vc.mat(f"H{k}", M, N, -2, 2)
        R, _ = _spd(vc, f"R{k}", M)
        y = vc.vec(f"y{k}", M, -100, 100)

        class Meas:
            angular_values = [IsAngle.NOT_ANGLE] * M

            def __init__(self, H):
                self.H = H

            def calculateMeasurement(self, sensor_eci, state, utc, noisy=False):
                vals = np.dot(self.H, state)
                return {f"c{i}": vals[i] for i in range(len(vals))}
        # (ids in DESCENDING stack order: the stack order is the order the observations are handed over in, not the order of any id)
        obs.append(_NS(julian_date=2459000.5, sensor_eci=None, measurement=Meas(H), r_matrix=R, measurement_states=y, sensor_id=900 - k, target_id=7))
        Hs.append(H); Rs.append(R); ys.append(y)
    Hst = np.concatenate(Hs, axis=0)
    Mtot = sum(Ms)
    Rst = np.zeros((Mtot, Mtot), dtype=dt)
    o = 0
    for R in Rs:
        Rst[o:o + R.shape[0], o:o + R.shape[0]] = R
        o += R.shape[0]
    yst = np.concatenate(ys)
    return f, dict(L=L, x=x, P=P, Q=Q, F=F, H=Hst, R=Rst, y=yst, obs=obs, alpha=alpha, beta=beta, kappa=kappa)


def _sym_mat(vc, A, tol=1e-7):
    return vc.eq(A, A.T, tol)


def _mk(N, Ms, tier):
    T = f"[N{N},M{'+'.join(map(str, Ms))}]"
    bounded = f"state dimension {N}, observation stack {Ms}; every matrix entry, P, Q, R (via Cholesky factors) and tuning alpha in (0,1], beta, kappa symbolic"

    @obligation("C06", f"predict{T}", ensures=[f"O-C06-weights{T}", f"O-C06-predict.mean{T}", f"O-C06-predict.cov{T}", f"O-C06-noobs{T}"],
                fns=[UK + "UnscentedKalmanFilter.__init__", UK + "UnscentedKalmanFilter.predict", UK + "UnscentedKalmanFilter.generateSigmaPoints",
                     UK + "UnscentedKalmanFilter.predictStateEstimate", UK + "UnscentedKalmanFilter.predictCovariance", UK + "UnscentedKalmanFilter.update"],
                mode="R", tier=tier, bounded=bounded, assumes=LIN, timeout_ms=60000,
                note="sigma-point weights sum to one; prediction equals the Kalman prediction F x, F P F^T + Q (symmetric) for every admissible tuning; a step without observations returns the propagated mean and the predicted covariance")
    def predict(vc):
        f, e = _setup(vc, N, Ms, False)
        sw = sum(list(f.mean_weight)[1:], f.mean_weight[0])
        vc.ensure(f"O-C06-weights{T}", vc.eq(sw, 1, 1e-6))
        f.predict(60.0)
        Fx = np.dot(e["F"], e["x"])
        FPF = np.dot(e["F"], np.dot(e["P"], e["F"].T)) + e["Q"]
        vc.ensure(f"O-C06-predict.mean{T}", vc.eq(f.pred_x, Fx, 1e-5))
        vc.ensure(f"O-C06-predict.cov{T}", vc.And(vc.eq(f.pred_p, FPF, 1e-4), _sym_mat(vc, f.pred_p, 1e-6)))
        f.update([])
        vc.ensure(f"O-C06-noobs{T}", vc.And(vc.eq(f.est_x, Fx, 1e-5), vc.eq(f.est_p, f.pred_p)))

    def _upd(resample):
        tag = "resample" if resample else "noresample"

        @obligation("C06", f"update-{tag}{T}", ensures=[f"O-C06-update-{tag}.innov-cov{T}", f"O-C06-update-{tag}.cross-cov{T}", f"O-C06-update-{tag}.gain{T}",
                                                         f"O-C06-update-{tag}.state{T}", f"O-C06-joseph.{tag}{T}"] + ([f"O-C06-update-{tag}.innov-cov-pd{T}"] if sum(Ms) == 1 else []),
                    fns=[UK + "UnscentedKalmanFilter.update", UK + "UnscentedKalmanFilter.forecast", UK + "UnscentedKalmanFilter.calculateMeasurementMatrix",
                         UK + "UnscentedKalmanFilter._calcMeasurementSigmaPoints", UK + "UnscentedKalmanFilter.calcMeasurementMean"],
                    mode="R", tier=tier, bounded=bounded, assumes=LIN, timeout_ms=60000,
                    note=("sigma points redrawn before the update, from ANY predicted mean and ANY positive-definite predicted covariance (given by its Cholesky factor) and "
                          "whatever stale residuals, noise matrix, gain, innovation and angular flags the filter still holds from an earlier update: innovation covariance H P- H^T + R, cross covariance P- H^T, gain K S = cross, "
                          "posterior mean x- + K (y - H x-): the Kalman update"
                          if resample else
                          "documented no-redraw variant (state produced by the real predict step): the propagated sigma points are reused, so S = H F P F^T H^T + R and cross = F P F^T H^T (Q enters only the predicted covariance)") +
                         "; innovation covariance positive (M=1) ; posterior covariance = prior - K S K^T, symmetric")
        def upd(vc):
            f, e = _setup(vc, N, Ms, resample)
            H, R, F, P, Q = e["H"], e["R"], e["F"], e["P"], e["Q"]
            dt = object if vc.symbolic else float
            if resample:
                # modular: start from any state satisfying the contract of predict (pred_p symmetric positive definite)
                px = vc.vec("px", N, -100, 100)
                pP, pL = _spd(vc, "pP", N)
                if vc.symbolic:
                    shims.register_cholesky(pP, pL)
                f.pred_x, f.pred_p = px, pP
                ns = 2 * N + 1
                f.sigma_points = vc.mat("stale_sig", N, ns, -100, 100)
                f.sigma_x_res = vc.mat("stale_res", N, ns, -100, 100)
                prior, mean = pP, px
            else:
                f.predict(60.0)
                prior, mean = np.dot(F, np.dot(P, F.T)), np.dot(F, e["x"])
            # multi-step sequences: whatever the previous update left behind (same stacked dimension, so no shape test can tell) must not matter
            Mt, ns_ = sum(Ms), 2 * N + 1
            from resonaate.physics.measurements import IsAngle
            f.r_matrix = vc.mat("stale_R", Mt, Mt, -5, 5)
            f.sigma_y_res = vc.mat("stale_yres", Mt, ns_, -100, 100)
            f.innov_cvr = vc.mat("stale_S", Mt, Mt, -5, 5)
            f.cross_cvr = vc.mat("stale_C", N, Mt, -5, 5)
            f.kalman_gain = vc.mat("stale_K", N, Mt, -5, 5)
            f.mean_pred_y = vc.vec("stale_my", Mt, -100, 100)
            f.true_y = vc.vec("stale_ty", Mt, -100, 100)
            f.innovation = vc.vec("stale_in", Mt, -100, 100)
            f.is_angular = np.array([IsAngle.ANGLE_0_2PI] * Mt)
            f.update(e["obs"])
            S = np.dot(H, np.dot(prior, H.T)) + R
            C = np.dot(prior, H.T)
            vc.cut(f"O-C06-update-{tag}.innov-cov{T}", vc.eq(f.innov_cvr, S, 1e-4))
            if sum(Ms) == 1:
                # S = |H A|^2 + R with A the Cholesky factor of the prior: an explicit sum of squares (cut), then S > 0
                A = pL if resample else np.dot(F, e["L"])
                v = np.dot(H, A)
                sos = sum((v[0, j] * v[0, j] for j in range(1, N)), v[0, 0] * v[0, 0]) + R[0, 0]
                vc.cut(f"O-C06-update-{tag}.innov-cov-pd{T}", vc.eq(S[0, 0], sos, 1e-6))
                # (innov_cvr == S is the obligation above, S == sos the cut just made: hence innov_cvr = sos > 0)
                vc.cut(f"O-C06-update-{tag}.innov-cov-pd{T}", sos > 0)
            # (positive definiteness of a stacked 2x2 innovation covariance is not attempted: only M = 1)
            vc.ensure(f"O-C06-update-{tag}.cross-cov{T}", vc.eq(f.cross_cvr, C, 1e-4))
            # gain = cross * inv(S) term-for-term; with S positive definite (cut above) this is K S = cross (definition of the inverse)
            if vc.symbolic:
                vc.ensure(f"O-C06-update-{tag}.gain{T}", vc.eq(f.kalman_gain, np.dot(f.cross_cvr, shims.s_inv(f.innov_cvr))))
            else:
                vc.ensure(f"O-C06-update-{tag}.gain{T}", vc.eq(np.dot(f.kalman_gain, f.innov_cvr), f.cross_cvr, 1e-4))
            innov = e["y"] - np.dot(H, mean)
            vc.ensure(f"O-C06-update-{tag}.state{T}", vc.eq(f.est_x, mean + np.dot(f.kalman_gain, innov), 1e-4))
            KSK = np.dot(f.kalman_gain, np.dot(f.innov_cvr, f.kalman_gain.T))
            vc.ensure(f"O-C06-joseph.{tag}{T}", vc.And(vc.eq(f.est_p, f.pred_p - KSK, 1e-6), _sym_mat(vc, f.est_p, 1e-5)))
        return upd
    _upd(True)
    _upd(False)


_mk(1, [1], "quick")
_mk(2, [1], "quick")
_mk(2, [2], "thorough")
_mk(2, [1, 1], "thorough")


@obligation("C06", "kalman_bounded", ensures=["B-C06-seq.predict", "B-C06-seq.update", "B-C06-seq.psd", "B-C06-seq.noobs", "B-C06-seq.weights"],
            fns=[UK + "UnscentedKalmanFilter.predict", UK + "UnscentedKalmanFilter.update", UK + "UnscentedKalmanFilter.forecast"], mode="R", native_only=True, samples=150,
            bounded="BOUNDED stand-in, not a proof: 150 (quick) / 1500 (thorough) random linear-Gaussian systems per run with state dimension 1..8, 0..4 stacked observations of dimension 1..3, "
                    "alpha in [0.3, 1], both resampling modes, three consecutive predict/update steps on ONE filter object (different stacks per step), each step either directly or through a worker copy and the result objects; the proofs above stop at dimension 2 and two stacked scalars",
            note="a numpy Kalman filter run next to the real UnscentedKalmanFilter over a three-step sequence: predicted and posterior mean/covariance agree (redraw mode: the Kalman update; no-redraw mode: "
                 "the documented variant with the propagated sigma points), covariances symmetric PSD and posterior <= prior, a step without observations returns the propagated mean, weights sum to one")
def kalman_bounded(vc):
    from resonaate.estimation.kalman.unscented_kalman_filter import UnscentedKalmanFilter
    from resonaate.physics.measurements import IsAngle
    rng = np.random.default_rng(vc.int("seed", 0, 10 ** 9))
    N = vc.int("state_dim", 1, 8)
    resample = vc.bool("resample")
    alpha, beta, kappa = vc.real("alpha", 0.3, 1.0), vc.real("beta", 0, 3), vc.real("kappa", 0, 3)

    def spd(n, scale=1.0):
        A = rng.normal(size=(n, n))
        return (A @ A.T + n * 0.3 * np.eye(n)) * scale
    F = rng.normal(size=(N, N)) * 0.6
    # units: the state may be small in magnitude (angles in radians, km/s, covariances of 1e-10 and below) and simultaneous observations may be in very different units (mm next to km)
    su = 10.0 ** vc.int("log10_state_unit", -6, 1)
    x, P, Q = rng.normal(size=N) * 10 * su, spd(N) * su ** 2, spd(N, 0.1) * su ** 2
    close = lambda A, B, unit: bool(np.allclose(A, B, rtol=1e-5, atol=1e-5 * unit))
    dyn = _NS(propagate=lambda t0, tf, X, scheduled_events=None: F @ X)
    # another estimate's filter, built first in the same process with the same dimension, alpha and beta but its own kappa / noise / resampling mode: a filter's tuning is its own
    UnscentedKalmanFilter(2, 0.0, x.copy() + 1.0, P.copy() * 2.0, dyn, Q.copy() * 3.0, None, False, False, not resample, alpha, beta, kappa + 1.7)
    f = UnscentedKalmanFilter(1, 0.0, x.copy(), P.copy(), dyn, Q.copy(), None, False, False, resample, alpha, beta, kappa)
    f._debugChecks = lambda obs: None
    ok = {k: True for k in ("predict", "update", "psd", "noobs")}
    vc.ensure("B-C06-seq.weights", abs(f.mean_weight.sum() - 1) < 1e-9)
    kx, kP = x.copy(), P.copy()
    psd = lambda M, ref: bool(np.allclose(M, M.T, rtol=0, atol=1e-8 * abs(ref).max())) and np.linalg.eigvalsh((M + M.T) / 2).min() > -1e-4 * abs(ref).max()
    import copy
    for step in range(3):
        # the way a run does it: a worker predicts / updates a COPY and the result object is applied to the agent's filter (EstPredictRegistration, EstUpdateRegistration);
        # either route, in any mix over the sequence, must give the same filter
        if rng.integers(0, 2):
            w = copy.deepcopy(f)
            w.predict(60.0 * (step + 1))
            f.applyFilterResult(w.getPredictionResult())
        else:
            f.predict(60.0 * (step + 1))
        px, FPF = F @ kx, F @ kP @ F.T
        pP = FPF + Q
        ok["predict"] &= close(f.pred_x, px, 0.1 * su) and close(f.pred_p, pP, 0.1 * su ** 2)
        n_obs = int(rng.integers(0, 5))
        obs, Hs, Rs, ys = [], [], [], []
        for _ in range(n_obs):
            M = int(rng.integers(1, 4))
            ou = 10.0 ** int(rng.integers(-3, 4))   # this observation's unit
            H, R, y = rng.normal(size=(M, N)) * (ou / su), spd(M, 0.5) * ou ** 2, rng.normal(size=M) * 10 * ou

            class Meas:
                angular_values = [IsAngle.NOT_ANGLE] * M

                def __init__(self, H):
                    self.H = H

                def calculateMeasurement(self, sensor_eci, state, utc, noisy=False):
                    vals = self.H @ state + sensor_eci  # (the predicted measurement depends on where the observing sensor was: each observation's OWN sensor state)
                    return {f"c{i}": vals[i] for i in range(len(vals))}
            bias = rng.normal(size=M) * 5 * ou
            # ids: pairs of observations share a sensor id (one sensor observing twice, from two positions) and ids descend along the stack
            obs.append(_NS(julian_date=2459000.5 + len(obs) * 1e-4, sensor_eci=bias, measurement=Meas(H), r_matrix=R, measurement_states=y + bias, sensor_id=900 - len(obs) // 2, target_id=7))
            Hs.append(H); Rs.append(R); ys.append(y)
        if rng.integers(0, 2):
            w = copy.deepcopy(f)
            w.update(obs)
            f.applyFilterResult(w.getUpdateResult())
        else:
            f.update(obs)
        if n_obs == 0:
            ok["noobs"] &= close(f.est_x, px, 0.1 * su) and bool(np.array_equal(f.est_p, f.pred_p))
            kx, kP = px, pP
        else:
            H = np.concatenate(Hs, axis=0)
            Rb = np.zeros((H.shape[0], H.shape[0]))
            o = 0
            for R in Rs:
                Rb[o:o + len(R), o:o + len(R)] = R
                o += len(R)
            y = np.concatenate(ys)
            prior = pP if resample else FPF
            S = H @ prior @ H.T + Rb
            K = prior @ H.T @ np.linalg.inv(S)
            kx = px + K @ (y - H @ px)
            kP = pP - K @ S @ K.T
            sd = np.sqrt(np.diag(S))
            # (mean / covariance: the units differ by up to 1e6 between observations, so the reference itself carries rounding of about eps * cond(S) ~ 1e-4)
            ok["update"] &= bool(np.allclose(f.est_x, kx, rtol=2e-3, atol=2e-3 * su) and np.allclose(f.est_p, kP, rtol=2e-3, atol=2e-3 * su ** 2)
                                 and np.all(np.abs(f.innov_cvr - S) <= 1e-5 * np.outer(sd, sd)))
            if resample:
                ok["psd"] &= psd(f.est_p, pP) and psd(f.pred_p - f.est_p, pP)
        ok["psd"] &= psd(f.pred_p, pP)
        kx, kP = np.array(f.est_x, dtype=float), np.array(f.est_p, dtype=float)  # follow the filter: compare step by step, not accumulated drift
    for k_, v in ok.items():
        vc.ensure(f"B-C06-seq.{k_}", bool(v))


NZ = "resonaate.physics.noise:"


@obligation("C06", "noise_models", ensures=["O-C06-noise.discrete", "O-C06-noise.continuous", "O-C06-noise.simple", "O-C06-noise.psd", "O-C06-noise.factory"],
            fns=[NZ + "discreteWhiteNoise", NZ + "continuousWhiteNoise", NZ + "simpleNoise", NZ + "noiseCovarianceFactory"], mode="R",
            note="the process-noise matrices handed to the filter are the documented ones for EVERY time step: discrete white noise = sigma^2 * G G^T with G = (dt^2/2 I; dt I) (so the position-velocity block is dt^3/2: "
                 "on the boundary of positive semi-definiteness), discretised continuous white noise = q * [[dt^3/3, dt^2/2], [dt^2/2, dt]] per axis, simple noise = dt * diag(0,0,0,std^2,std^2,std^2); all symmetric and "
                 "positive semi-definite (v^T Q v >= 0 for every v, shown as an explicit sum of squares); the factory builds the model named by its label with the given step and magnitude")
def noise_models(vc):
    from resonaate.common.labels import NoiseLabel
    dt = vc.real("dt", 1e-3, 3600)
    sig = vc.real("sigma", 1e-9, 10)
    dtn = object if vc.symbolic else float
    tol = 1e-9
    Qd = vc.fn(NZ + "discreteWhiteNoise")(dt, sig)
    Qc = vc.fn(NZ + "continuousWhiteNoise")(dt, sig)
    Qs = vc.fn(NZ + "simpleNoise")(dt, sig)
    G = np.zeros((6, 3), dtype=dtn)
    for i in range(3):
        G[i, i] = dt * dt / 2
        G[i + 3, i] = dt
    vc.ensure("O-C06-noise.discrete", vc.eq(Qd, np.dot(G, G.T) * (sig * sig), tol))
    wantc = np.zeros((6, 6), dtype=dtn)
    for i in range(3):
        wantc[i, i], wantc[i, i + 3], wantc[i + 3, i], wantc[i + 3, i + 3] = (1 / 3) * dt * dt * dt, dt * dt / 2, dt * dt / 2, dt
    vc.ensure("O-C06-noise.continuous", vc.eq(Qc, wantc * sig, tol))
    wants = np.zeros((6, 6), dtype=dtn)
    for i in range(3, 6):
        wants[i, i] = dt * sig * sig
    vc.ensure("O-C06-noise.simple", vc.eq(Qs, wants, tol))
    v = vc.vec("v", 6, -10, 10)
    forms = []
    for Q in (Qd, Qc, Qs):
        forms.append(np.dot(v, np.dot(Q, v)))
    # explicit decompositions: discrete = sigma^2 sum_i (dt^2/2 v_i + dt v_{i+3})^2 ; continuous = q sum_i [ dt (v_{i+3} + dt/2 v_i)^2 + dt^3/12 v_i^2 ]
    sos_d = sum(((dt * dt / 2 * v[i] + dt * v[i + 3]) * (dt * dt / 2 * v[i] + dt * v[i + 3]) for i in range(1, 3)), (dt * dt / 2 * v[0] + dt * v[3]) * (dt * dt / 2 * v[0] + dt * v[3])) * (sig * sig)
    third = 1 / 3  # (the double the body uses; the decomposition below needs third >= 1/4 only)
    term = lambda i: dt * (v[i + 3] + dt / 2 * v[i]) * (v[i + 3] + dt / 2 * v[i]) + (third - 0.25) * dt * dt * dt * v[i] * v[i]
    sos_c = (term(0) + term(1) + term(2)) * sig
    if vc.symbolic:
        vc.cut("O-C06-noise.psd", vc.eq(forms[0], sos_d))
        vc.cut("O-C06-noise.psd", vc.eq(forms[1], sos_c))
    sym_ok = vc.And(vc.eq(Qd, Qd.T, tol), vc.eq(Qc, Qc.T, tol), vc.eq(Qs, Qs.T, tol))
    vc.ensure("O-C06-noise.psd", vc.And(sym_ok, vc.le(0, forms[0], 1e-9), vc.le(0, forms[1], 1e-9), vc.le(0, forms[2], 1e-9)))
    fac = vc.fn(NZ + "noiseCovarianceFactory")
    step = vc.int("step", 1, 600)
    vc.ensure("O-C06-noise.factory", vc.And(vc.eq(fac(NoiseLabel.DISCRETE_WHITE_NOISE, step, sig), vc.fn(NZ + "discreteWhiteNoise")(step, sig), tol),
                                             vc.eq(fac(NoiseLabel.CONTINUOUS_WHITE_NOISE, step, sig), vc.fn(NZ + "continuousWhiteNoise")(step, sig), tol),
                                             vc.eq(fac(NoiseLabel.SIMPLE_NOISE, step, sig), vc.fn(NZ + "simpleNoise")(step, sig), tol)))
