"""C05 -- calendar, Julian-date and scenario times agree; requested durations are honoured."""
import numpy as np
import z3
from fractions import Fraction
from pyvc.harness import obligation
from pyvc import sym, spec
from pyvc.extract import exact_spec

SD = "resonaate.physics.time.stardate:"
TC = "resonaate.physics.time.conversions:"
FASSUME = ["mode F: IEEE-754 binary64 round-to-nearest, no overflow/underflow; integer-valued intermediate results stay below 2**53"]

CUM = [0, 31, 59, 90, 120, 151, 181, 212, 243, 273, 304, 334]
MLEN = [31, 28, 31, 30, 31, 30, 31, 31, 30, 31, 30, 31]


def leap(vc, y):
    # 1901..2099: every 4th year (2000 is a leap year)
    return (y % 4 == 0)


def day_number(vc, y, m, d):
    """Gregorian day count (days since 1900-12-31 = day 0), written from the calendar rule with the cumulative month table."""
    lp = leap(vc, y)
    cum = 0
    for k in range(12, 0, -1):
        val = CUM[k - 1] + (vc.ite(lp, 1, 0) if k > 2 else 0)
        cum = vc.ite(m == k, val, cum)
    return 365 * (y - 1901) + (y - 1901) // 4 + cum + d


JD_1900_12_31 = 2415384.5  # Julian date of 1900-12-31T00:00 (day_number 0)


def valid_date(vc, y, m, d):
    lp = leap(vc, y)
    mlen = 31
    for k in range(12, 0, -1):
        val = MLEN[k - 1] + (vc.ite(lp, 1, 0) if k == 2 else 0)
        mlen = vc.ite(m == k, val, mlen)
    return d <= mlen


def _ymd(vc, prefix="", split=True):
    y = vc.int(prefix + "y", 1901, 2099)
    m = vc.int(prefix + "m", 1, 12)
    d = vc.int(prefix + "d", 1, 31)
    if split:
        m = vc.split_int(m, 1, 12)  # one path per month: complete case split
    vc.assume(valid_date(vc, y, m, d))
    return y, m, d


def _hms(vc, prefix=""):
    return vc.int(prefix + "h", 0, 23), vc.int(prefix + "mi", 0, 59), vc.int(prefix + "s", 0, 59)


@obligation("C05", "jd_int", ensures=["O-C05-jd-int"], fns=[SD + "JulianDate.getJulianDate"], mode="F", assumes=FASSUME,
            note="at midnight the real body returns exactly day_number(y,m,d) + JD(1900-12-31): Vallado's integer expression agrees with the Gregorian calendar for every date 1901-2099")
def jd_int(vc):
    vc.fmode(True)
    y, m, d = _ymd(vc)
    f = vc.fn(SD + "JulianDate.getJulianDate")
    jd = f(lambda x: x, y, m, d, 0, 0, 0) if vc.symbolic else float(vc.fn(SD + "JulianDate").getJulianDate(y, m, d, 0, 0, 0))
    vc.ensure("O-C05-jd-int", vc.eq(jd, day_number(vc, y, m, d) + JD_1900_12_31, 0.0))


def T_of(vc, y, m, d, h, mi, s):
    """whole seconds since 1900-12-31T00:00"""
    return 86400 * day_number(vc, y, m, d) + 3600 * h + 60 * mi + s


def _getjd(vc, y, m, d, h, mi, s):
    if vc.symbolic:
        return vc.fn(SD + "JulianDate.getJulianDate")(lambda x: x, y, m, d, h, mi, s)
    return float(vc.fn(SD + "JulianDate").getJulianDate(y, m, d, h, mi, s))


EPS_JD = Fraction(1, 10 ** 9)  # 1e-9 day = 86.4 microseconds


@obligation("C05", "jd_val", ensures=["O-C05-jd-val"], fns=[SD + "JulianDate.getJulianDate"], mode="F", assumes=FASSUME,
            note="JD(y,m,d,h,mi,s) is within 1e-9 day (86 us) of day_number + JD0 + n/86400 for every whole second 1901-2099")
def jd_val(vc):
    vc.fmode(True)
    y, m, d = _ymd(vc)
    h, mi, s = _hms(vc)
    n = 3600 * h + 60 * mi + s
    if vc.symbolic:
        # staged: the day fraction is within 2e-16 of n/86400 (same rounding constant as in the body), then the sum
        frac = vc.as_code(lambda: (s + mi * 60 + h * 3600) / 86400)
        nr = sym.SNum(sym._real(sym.term(n)))
        vc.cut("O-C05-jd-val", sym.SBool(z3.And(frac.t - nr.t / 86400 <= z3.Q(2, 10 ** 16), nr.t / 86400 - frac.t <= z3.Q(2, 10 ** 16), frac.t >= 0, frac.t < 1)))
    if vc.symbolic:
        # staged: the integer part (the same terms as in the full call) is the Gregorian day count: O-C05-jd-int
        vc.cut("O-C05-jd-val", _getjd(vc, y, m, d, 0, 0, 0) == day_number(vc, y, m, d) + JD_1900_12_31)
    jd = _getjd(vc, y, m, d, h, mi, s)
    exact = day_number(vc, y, m, d) + JD_1900_12_31 + n / 86400 if not vc.symbolic else \
        sym.SNum(sym._real(sym.term(day_number(vc, y, m, d))) + z3.Q(4830769, 2) + sym._real(sym.term(n)) / 86400)
    vc.ensure("O-C05-jd-val", abs(jd - exact) <= float(EPS_JD) if not vc.symbolic else sym.SBool(z3.And(jd.t - exact.t <= z3.Q(1, 10 ** 9), exact.t - jd.t <= z3.Q(1, 10 ** 9))))


def jd_stub(cls, y, m, d, h, mi, s):
    """contract of JulianDate.getJulianDate on whole seconds 1901-2099 (proved: O-C05-jd-val): deterministic, within 1e-9 day
    of the exact Julian date"""
    c = sym.ctx()
    args = [sym._real(sym._as_arith(a)) for a in (y, m, d, h, mi, s)]
    jd = sym.SNum(c.uf_app("getJulianDate", args))
    vcx = _VCX()
    exact = sym._real(sym.term(day_number(vcx, y, m, d))) + z3.Q(4830769, 2) + sym._real(sym.term(3600 * h + 60 * mi + s)) / 86400
    c.assume(z3.And(jd.t - exact <= z3.Q(1, 10 ** 9), exact - jd.t <= z3.Q(1, 10 ** 9)))
    return jd


class _VCX:
    """minimal vc for spec functions used inside stubs"""
    def ite(self, c, a, b):
        return sym.Ite(c, a, b) if isinstance(c, sym.SBool) else (a if c else b)

    def And(self, *xs):
        return sym.And(*xs)

    def floor(self, x):
        return sym.fn_floor(x)


@obligation("C05", "jd_mono", ensures=["O-C05-jd-mono"], fns=[SD + "datetimeToJulianDate"], mode="F", assumes=FASSUME,
            note="modular (getJulianDate by its proved contract): t1 < t2 in whole seconds implies JD(t1) < JD(t2)")
def jd_mono(vc):
    y, m, d = _ymd(vc, split=False)
    h, mi, s = _hms(vc)
    y2, m2, d2 = _ymd(vc, "b", split=False)
    h2, mi2, s2 = _hms(vc, "b")
    if vc.symbolic:
        jd, jd2 = jd_stub(None, y, m, d, h, mi, s), jd_stub(None, y2, m2, d2, h2, mi2, s2)
    else:
        jd, jd2 = _getjd(vc, y, m, d, h, mi, s), _getjd(vc, y2, m2, d2, h2, mi2, s2)
    later = T_of(vc, y2, m2, d2, h2, mi2, s2) > T_of(vc, y, m, d, h, mi, s)
    vc.ensure("O-C05-jd-mono", vc.implies(later, jd2 > jd))


class SymDT:
    """datetime by contract: exact integer seconds since 1900-12-31 (datetime/timedelta arithmetic is exact)"""

    def __init__(self, y, mo, d, h=0, mi=0, s=0):
        vcx = _VCX()
        self.fields = (y, mo, d, h, mi, s)
        self.year, self.month, self.day, self.hour, self.minute, self.second, self.microsecond = y, mo, d, h, mi, s, 0
        self.T = T_of(vcx, y, mo, d, h, mi, s)
        self.valid = sym.And(y >= 1, mo >= 1, mo <= 12, d >= 1, valid_date(vcx, y, mo, d), h >= 0, h <= 23, mi >= 0, mi <= 59, s >= 0, s <= 59)

    def __add__(self, secs):
        o = object.__new__(SymDT)
        o.fields, o.T, o.valid = None, self.T + secs, self.valid
        return o


def _jd_of(vc, y, m, d, h, mi, s):
    """Julian date of a whole second via the proved contract of getJulianDate, plus the binary64 format fact"""
    jd = jd_stub(None, y, m, d, h, mi, s)
    vc.dyadic(jd, 31, "a double of magnitude in [2**21, 2**22) is a multiple of 2**-31 (Julian dates 1901-2099)")
    return jd


def cum_of(vc, lp, mo):
    c = 0
    for k in range(12, 0, -1):
        val = CUM[k - 1] + (vc.ite(lp, 1, 0) if k > 2 else 0)
        c = vc.ite(mo == k, val, c)
    return c


def mdh_post(vc, year, doy, month, day, hour, minute, second):
    """contract of days2mdh (proved: O-C05-mdh.*): exact decomposition of the day-of-year"""
    lp = ((year - 1900) % 4 == 0)
    k = vc.floor(doy)
    f = doy - k
    return vc.And(month >= 1, month <= 12, day >= 1, cum_of(vc, lp, month) + day == k, valid_md(vc, lp, month, day),
                  hour >= 0, hour <= 23, minute >= 0, minute <= 59, second >= 0, second < 60,
                  3600 * hour + 60 * minute + second == 86400 * f)


def valid_md(vc, lp, m, d):
    mlen = 31
    for k in range(12, 0, -1):
        val = MLEN[k - 1] + (vc.ite(lp, 1, 0) if k == 2 else 0)
        mlen = vc.ite(m == k, val, mlen)
    return d <= mlen


@obligation("C05", "mdh", ensures=["O-C05-mdh"], fns=[SD + "days2mdh"], mode="F", assumes=FASSUME,
            note="days2mdh decomposes (year, day-of-year) exactly: month/day is the calendar date of the ordinal, 3600h+60m+s equals 86400*fraction with no rounding error (every operation of the chain is shown exact for multiples of 2**-31)")
def mdh(vc):
    vc.fmode(True)
    year = vc.int("year", 1900, 2100)
    k = vc.int("k", 1, 366)
    if vc.symbolic:
        f = vc.real("f", 0, 1)
        vc.assume(f < 1)
        lp = ((year - 1900) % 4 == 0)
        vc.assume(vc.implies(vc.Not(lp), k <= 365))
        doy = sym.SNum(sym._real(k.t) + f.t)
        # doy is a double below 2**9 obtained by exact subtraction from a Julian date: multiple of 2**-31
        j31 = vc.int("j31", 0, 2 ** 31 - 1)
        vc.assume(f == sym.SNum(sym._real(j31.t) / (2 ** 31)))
        vc.dyadic(doy, 31, "day-of-year obtained by exact subtraction from a Julian date (multiple of 2**-31)")
    else:
        lp = (year - 1900) % 4 == 0
        vc.assume(k <= 365 or lp)
        doy = k + vc.int("j31", 0, 2 ** 31 - 1) / 2 ** 31
    month, day, hour, minute, second = vc.fn(SD + "days2mdh")(year, doy)
    vc.ensure("O-C05-mdh", mdh_post(vc, year, doy, month, day, hour, minute, second))


def mdh_stub(year, doy):
    c = sym.ctx()
    out = [sym.SNum(c.uf_app(n, [sym._real(sym._as_arith(year)), sym._real(sym._as_arith(doy))])) for n in ("mdh.month", "mdh.day", "mdh.hour", "mdh.minute")]
    month, day, hour, minute = [sym.SNum(z3.ToInt(o.t)) for o in out]
    second = sym.SNum(c.uf_app("mdh.second", [sym._real(sym._as_arith(year)), sym._real(sym._as_arith(doy))]))
    done = c.__dict__.setdefault("_stub_done", set())
    key = second.t.get_id()
    if key not in done:
        done.add(key)
        with exact_spec():
            k = sym.fn_floor(doy)
            lp = ((year - 1900) % 4 == 0)
            # precondition of the callee: an obligation of the caller
            c.ensure("O-C05-cal.mdh-pre", sym.And(year >= 1900, year <= 2100, k >= 1, k <= sym.Ite(lp, 366, 365)))
            c.assume(mdh_post(_VCX(), year, doy, month, day, hour, minute, second))
    return month, day, hour, minute, second


def cal_post(vc, jd, Y, Mo, D, hr, mn, sec):
    """contract of getCalendarDate (proved: O-C05-cal): the fields denote exactly the instant jd"""
    lp = (Y % 4 == 0)
    dn = 365 * (Y - 1901) + (Y - 1901) // 4 + cum_of(vc, lp, Mo) + D
    return vc.And(Y >= 1900, Y <= 2100, Mo >= 1, Mo <= 12, D >= 1, valid_md(vc, lp, Mo, D), hr >= 0, hr <= 23, mn >= 0, mn <= 59,
                  sec >= 0, sec < 60, 86400 * dn + 3600 * hr + 60 * mn + sec == 86400 * (jd - JD_1900_12_31))


@obligation("C05", "cal", ensures=["O-C05-cal", "O-C05-cal.mdh-pre"], fns=[SD + "getCalendarDate"], mode="F", assumes=FASSUME, timeout_ms=60000,
            note="modular (days2mdh by its proved contract): for every double jd in 1901..2099 the returned fields are in range and denote *exactly* the instant jd (no rounding error is introduced after the Julian date itself), including the day_of_year<1 year-rollback branch")
def cal(vc):
    vc.fmode(True)
    if vc.symbolic:
        vc.stub(SD + "days2mdh", mdh_stub)
        jd = vc.real("jd", 2415385.0, 2488070.0)
        j31 = vc.int("j31", 0, 2 ** 53)
        vc.assume(jd == sym.SNum(sym._real(j31.t) / (2 ** 31)))
        vc.dyadic(jd, 31, "a double of magnitude in [2**21, 2**22) is a multiple of 2**-31 (Julian dates 1901-2099)")
        Y, Mo, D, hr, mn, sec = vc.fn(SD + "getCalendarDate")(jd)
        vc.ensure("O-C05-cal", cal_post(vc, jd, Y, Mo, D, hr, mn, sec))
    else:
        import datetime
        jd = vc.real("jd", 2415385.0, 2488070.0)
        vc.ensure("O-C05-cal.mdh-pre", True)
        Y, Mo, D, hr, mn, sec = vc.fn(SD + "getCalendarDate")(jd)
        ok = 1 <= Mo <= 12 and 1 <= D <= 31 and 0 <= hr <= 23 and 0 <= mn <= 59 and 0 <= sec < 60
        if ok:
            t1 = datetime.datetime(int(Y), int(Mo), int(D), int(hr), int(mn)) - datetime.datetime(1900, 12, 31)
            ok = abs(Fraction(t1.days) * 86400 + t1.seconds + Fraction(float(sec)) - 86400 * (Fraction(jd) - Fraction(JD_1900_12_31))) == 0
        vc.ensure("O-C05-cal", ok)


def cal_stub(jd):
    c = sym.ctx()
    t = sym._real(sym._as_arith(jd))
    ints = [sym.SNum(z3.ToInt(c.uf_app(n, [t]))) for n in ("cal.Y", "cal.Mo", "cal.D", "cal.hr", "cal.mn")]
    sec = sym.SNum(c.uf_app("cal.sec", [t]))
    done = c.__dict__.setdefault("_stub_done", set())
    if sec.t.get_id() not in done:
        done.add(sec.t.get_id())
        with exact_spec():
            c.ensure("O-C05-roundtrip.cal-pre", sym.And(jd >= 2415385.0, jd <= 2488070.0))
            c.assume(cal_post(_VCX(), jd, *ints, sec))
    return (*ints, sec)


@obligation("C05", "roundtrip", ensures=["O-C05-roundtrip", "O-C05-roundtrip.cal-pre"], fns=[SD + "julianDateToDatetime", SD + "datetimeToJulianDate"],
            mode="F", assumes=FASSUME, timeout_ms=60000,
            note="julianDateToDatetime(datetimeToJulianDate(t)) == t for every whole second 1901-2099. Modular: getJulianDate (O-C05-jd-val) and getCalendarDate (O-C05-cal) by their proved contracts; datetime/timedelta by contract (exact integer seconds)")
def roundtrip(vc):
    vc.fmode(True)
    y, m, d = _ymd(vc, split=False)
    h, mi, s = _hms(vc)
    if vc.symbolic:
        vc.stub(SD + "@datetime", SymDT)
        vc.stub(SD + "@timedelta", lambda seconds=0: seconds)
        jd = jd_stub(None, y, m, d, h, mi, s)
        cd = cal_stub(jd)

        class _J:
            calendar_date = cd
        dt = vc.fn(SD + "julianDateToDatetime")(_J())
        vc.ensure("O-C05-roundtrip", vc.And(dt.valid, dt.T == T_of(vc, y, m, d, h, mi, s)))
    else:
        import datetime
        t0 = datetime.datetime(y, m, d, h, mi, s)
        # history: instants on the other civil day of the same (noon-to-noon) Julian day number were converted just before; the answer for t0 must not depend on them
        for other in (t0 - datetime.timedelta(hours=12), t0 + datetime.timedelta(hours=12), t0 + datetime.timedelta(days=1)):
            if 1901 <= other.year <= 2099:
                vc.fn(SD + "julianDateToDatetime")(vc.fn(SD + "datetimeToJulianDate")(other))
        back = vc.fn(SD + "julianDateToDatetime")(vc.fn(SD + "datetimeToJulianDate")(t0))
        vc.ensure("O-C05-roundtrip", back == t0)
        vc.ensure("O-C05-roundtrip.cal-pre", True)


SC = "resonaate.scenario.scenario:"
CK = "resonaate.scenario.clock:"


@obligation("C05", "scen", ensures=["O-C05-scen.roundtrip", "O-C05-scen.value"], fns=[SD + "ScenarioTime.convertToJulianDate", SD + "JulianDate.convertToScenarioTime"],
            mode="F", assumes=FASSUME + ["the float-subclass operator overloads of ScenarioTime/JulianDate are bypassed (methods run on plain numbers)"],
            note="scenario seconds -> Julian date -> scenario seconds returns t within 1e-4 s for 0 <= t <= 1e7 s and any start date 1901-2099; the Julian date is within 2e-9 day of start + t/86400")
def scen(vc):
    vc.fmode(True)
    if vc.symbolic:
        vc.stub(SD + "@JulianDate", lambda x: x)
        vc.stub(SD + "@ScenarioTime", lambda x: x)
        jd0 = vc.real("jd0", 2415385.0, 2488070.0)
        j31 = vc.int("j31", 0, 2 ** 53)
        vc.assume(jd0 == sym.SNum(sym._real(j31.t) / (2 ** 31)))
        vc.dyadic(jd0, 31, "a double of magnitude in [2**21, 2**22) is a multiple of 2**-31 (Julian dates 1901-2099)")
        t = vc.int("t", 0, 10 ** 7)
        jd = vc.fn(SD + "ScenarioTime.convertToJulianDate")(t, jd0)
        back = vc.fn(SD + "JulianDate.convertToScenarioTime")(jd, jd0)
        tr = sym.SNum(sym._real(t.t))
        vc.ensure("O-C05-scen.value", sym.SBool(z3.And(jd.t - (jd0.t + tr.t / 86400) <= z3.Q(2, 10 ** 9), (jd0.t + tr.t / 86400) - jd.t <= z3.Q(2, 10 ** 9))))
        vc.ensure("O-C05-scen.roundtrip", sym.SBool(z3.And(back.t - tr.t <= z3.Q(1, 10 ** 4), tr.t - back.t <= z3.Q(1, 10 ** 4))))
    else:
        import resonaate.physics.time.stardate as sd
        jd0 = sd.JulianDate(vc.real("jd0", 2415385.0, 2488070.0))
        t = sd.ScenarioTime(vc.int("t", 0, 10 ** 7))
        jd = t.convertToJulianDate(jd0)
        back = jd.convertToScenarioTime(jd0)
        vc.ensure("O-C05-scen.value", abs(Fraction(float(jd)) - (Fraction(float(jd0)) + Fraction(int(t), 86400))) <= Fraction(2, 10 ** 9))
        vc.ensure("O-C05-scen.roundtrip", abs(float(back) - float(t)) <= 1e-4)


class SymTD:
    def __init__(self, seconds=0):
        self.seconds = seconds._pyvc_value() if hasattr(seconds, "_pyvc_value") else seconds


class _DTSum(SymDT):
    pass


def _dt_add(self, td):
    """datetime + timedelta by contract: the unique valid calendar fields of T + seconds"""
    c = sym.ctx()
    secs = td.seconds if isinstance(td, SymTD) else td
    n = c.__dict__.setdefault("_dtn", [0])
    n[0] += 1
    f = [sym.SNum(z3.Int(f"dt{n[0]}.{k}")) for k in ("y", "mo", "d", "h", "mi", "s")]
    o = SymDT(*f)
    with exact_spec():
        c.assume(sym.And(o.valid, o.T == self.T + secs))
    o.year, o.month, o.day, o.hour, o.minute, o.second = f
    return o


SymDT.__add__ = _dt_add


@obligation("C05", "target", ensures=["O-C05-target"], fns=[TC + "getTargetJulianDate"], mode="F", assumes=FASSUME,
            note="getTargetJulianDate(JD(t0), D) is the Julian date of the whole second t0 + D (within 1e-9 day); julianDateToDatetime by its proved round-trip contract")
def target(vc):
    vc.fmode(True)
    y, m, d = _ymd(vc, split=False)
    h, mi, s = _hms(vc)
    D = vc.int("D", 0, 10 ** 7)
    if vc.symbolic:
        y2 = vc.int("y2", 1901, 2099)  # the target instant must stay inside the contract's range
        t0 = SymDT(y, m, d, h, mi, s)
        vc.stub(TC + "@JulianDate", type("JDs", (), {"getJulianDate": staticmethod(lambda *a: jd_stub(None, *a)), "__instancecheck__": lambda s, o: True}))
        vc.stub(TC + "julianDateToDatetime", lambda jd: t0)  # O-C05-roundtrip: the instant the Julian date was made from
        vc.stub(TC + "@datetime", type("dtmod", (), {"timedelta": SymTD}))
        jd0 = jd_stub(None, y, m, d, h, mi, s)
        vc.stub(TC + "@isinstance", lambda o, t: True)
        out = vc.fn(TC + "getTargetJulianDate")(jd0, SymTD(D))
        # the calendar fields chosen by the datetime contract must be in the supported years
        exact = sym._real(sym.term(t0.T + D)) / 86400 + z3.Q(4830769, 2)
        yy = sym.ctx().__dict__.get("_dtn")
        vc.assume(sym.SNum(z3.Int("dt1.y")) <= 2099)
        vc.ensure("O-C05-target", sym.SBool(z3.And(out.t - exact <= z3.Q(1, 10 ** 9), exact - out.t <= z3.Q(1, 10 ** 9))))
    else:
        import datetime
        t0 = datetime.datetime(y, m, d, h, mi, s)
        t1 = t0 + datetime.timedelta(seconds=D)
        vc.assume(t1.year <= 2099)
        from resonaate.physics.time.stardate import datetimeToJulianDate
        out = vc.fn(TC + "getTargetJulianDate")(datetimeToJulianDate(t0), datetime.timedelta(seconds=D))
        ex = Fraction((t1 - datetime.datetime(1900, 12, 31)).days) + Fraction((t1 - datetime.datetime(1900, 12, 31)).seconds, 86400) + Fraction(JD_1900_12_31)
        vc.ensure("O-C05-target", abs(Fraction(float(out)) - ex) <= EPS_JD)


class _NS:
    def __init__(self, **kw):
        self.__dict__.update(kw)


@obligation("C05", "steps", ensures=["O-C05-steps.count", "O-C05-steps.too-short", "O-C05-steps.delta", "O-C05-steps.quotient"], fns=[SC + "Scenario.propagateTo"], mode="F", assumes=FASSUME + ["a `for _ in range(n)` loop performs exactly n iterations (Python semantics)"],
            note="propagateTo(JD(start + c + D)) with the clock at c seconds performs exactly floor(D/step) calls of stepForward (D = q*step + r whole seconds, step >= 1) and raises ValueError iff D < step; Julian dates by the proved contract of getJulianDate")
def steps(vc):
    vc.fmode(True)
    y, m, d = _ymd(vc, split=False)
    h, mi, s = _hms(vc)
    step = vc.int("step", 1, 86400)
    q = vc.int("q", 0, 10 ** 6)
    r = vc.int("r", 0, 86399)
    c0 = vc.int("c0", 0, 10 ** 7)
    vc.assume(r < step)
    if vc.symbolic:
        D = q * step + r
        vc.assume(D <= 10 ** 7)
        t0 = SymDT(y, m, d, h, mi, s)
        t1 = t0 + SymTD(c0 + D)
        vc.assume(t1.year <= 2099)
        jd_start = jd_stub(None, y, m, d, h, mi, s)
        jd_tgt = jd_stub(None, t1.year, t1.month, t1.day, t1.hour, t1.minute, t1.second)
        calls = {"n": 0}

        class Tgt:
            def convertToScenarioTime(self_, jd0):
                return vc.fn(SD + "JulianDate.convertToScenarioTime")(jd_tgt, jd0)
        vc.stub(SD + "@ScenarioTime", lambda x: x)
        # the real Scenario / ScenarioClock classes (built without their constructors); the clock has been running for c0 seconds since its initial time 0
        clock = vc.new(CK + "ScenarioClock", julian_date_start=jd_start, time=c0, initial_time=0, dt_step=step, datetime_start=t0)
        scn = vc.new(SC + "Scenario", clock=clock, scenario_config=_NS(propagation=_NS(truth_simulation_only=False), time=_NS(physics_step_sec=step, output_step_sec=step)),
                     logger=None, stepForward=lambda: calls.__setitem__("n", calls["n"] + 1), saveDatabaseOutput=lambda: None)
        # cut: the rounded delta computed by the body (same terms, hash-consed) is exactly D
        from pyvc import shims
        tst = Tgt().convertToScenarioTime(jd_start)
        rd = vc.as_code(lambda: shims.s_around(tst - c0))
        vc.cut("O-C05-steps.delta", rd == D)
        e = sym.SNum(z3.simplify(sym._real(rd.t) / sym._real(step.t)))  # exact quotient (no rounding)
        vc.cut("O-C05-steps.quotient", vc.floor(e) == q)
        quo = vc.as_code(lambda: rd / step)
        vc.cut("O-C05-steps.quotient", vc.And(quo >= q, quo < q + 1))
        f = vc.fn(SC + "Scenario.propagateTo")
        try:
            f(scn, Tgt())
            raised = False
        except ValueError:
            raised = True
        counts = sym.ctx().__dict__.get("range_counts", [])
        vc.ensure("O-C05-steps.too-short", vc.iff(raised, D < step))
        if not raised:
            vc.ensure("O-C05-steps.count", vc.And(len(counts) == 1, counts[0] == q))
        else:
            vc.ensure("O-C05-steps.count", True)
    else:
        # native replay: the real propagateTo on a real clock that already ran c0 seconds; steps are counted
        import datetime
        from resonaate.physics.time.stardate import ScenarioTime, datetimeToJulianDate
        from resonaate.scenario.clock import ScenarioClock
        from resonaate.scenario.scenario import Scenario
        D = q % (10 ** 4 // step + 1) * step + r
        c0 = (c0 // step) * step
        start = datetime.datetime(1990, 1, 1) + datetime.timedelta(seconds=vc.int("start_off", 0, 86400 * 365 * 100))
        clock = object.__new__(ScenarioClock)
        clock.__dict__.update(datetime_start=start, julian_date_start=datetimeToJulianDate(start), time=ScenarioTime(c0), initial_time=ScenarioTime(0), dt_step=ScenarioTime(step))
        calls = {"n": 0}
        scn = object.__new__(Scenario)
        from contracts.stepfwd import NullLogger
        scn.__dict__.update(clock=clock, scenario_config=_NS(propagation=_NS(truth_simulation_only=False), time=_NS(physics_step_sec=ScenarioTime(step), output_step_sec=ScenarioTime(step))),
                            logger=NullLogger(), stepForward=lambda: (calls.__setitem__("n", calls["n"] + 1), clock.ticToc()), saveDatabaseOutput=lambda: None)
        target = datetimeToJulianDate(start + datetime.timedelta(seconds=c0 + D))
        try:
            scn.propagateTo(target)
            raised = False
        except ValueError:
            raised = True
        vc.ensure("O-C05-steps.too-short", raised == (D < step))
        vc.ensure("O-C05-steps.count", raised or calls["n"] == D // step)
        vc.ensure("O-C05-steps.delta", True)
        vc.ensure("O-C05-steps.quotient", True)


SymDT.isoformat = lambda self, timespec=None: self


@obligation("C05", "epochs", ensures=["O-C05-epochs.timestamps", "O-C05-epochs.increasing", "O-C05-epochs.count", "O-C05-ticToc"],
            fns=[CK + "ScenarioClock.__init__", CK + "ScenarioClock.ticToc", SD + "ScenarioTime.convertToJulianDate"], mode="F", assumes=FASSUME,
            bounded="time span < 3 physics steps (while loop unrolled by path splitting: at most 3 epochs); values of start, span, step unbounded",
            note="BOUNDED in the number of epochs: the constructor inserts epochs k*dt <= span with timestamps start + k*dt and strictly increasing Julian dates; ticToc advances the clock by exactly dt")
def epochs(vc):
    vc.fmode(True)
    if not vc.symbolic:
        # native replay: the real constructor with the database connection replaced by a recorder (any number of epochs up to 200)
        import datetime
        from resonaate.scenario.clock import ScenarioClock
        start = datetime.datetime(1990, 1, 1) + datetime.timedelta(seconds=vc.int("start_off", 0, 86400 * 365 * 100))
        dt = vc.int("dt", 1, 3600)
        span = vc.int("span_steps", 0, 200) * dt + vc.int("span_extra", 0, 3600) % dt
        inserted = []
        vc.install(CK + "getDBConnection", lambda: _NS(insertData=lambda *e: inserted.extend(e)))
        clk = ScenarioClock(start, float(span), float(dt))
        n = len(inserted)
        vc.ensure("O-C05-epochs.count", n >= 1 and (n - 1) * dt <= span < n * dt)
        vc.ensure("O-C05-epochs.timestamps", all(e.timestampISO == (start + datetime.timedelta(seconds=k * dt)).isoformat(timespec="microseconds") for k, e in enumerate(inserted)))
        vc.ensure("O-C05-epochs.increasing", all(float(inserted[k + 1].julian_date) > float(inserted[k].julian_date) for k in range(n - 1)))
        before = float(clk.time)
        clk.ticToc()
        vc.ensure("O-C05-ticToc", float(clk.time) == before + dt)
        return
    y, m, d = _ymd(vc, split=False)
    h, mi, s = _hms(vc)
    dt = vc.int("dt", 1, 86400)
    span = vc.int("span", 0, 3 * 86400)
    vc.assume(span < 3 * dt)
    vc.assume(y <= 2098)
    t0 = SymDT(y, m, d, h, mi, s)
    inserted = []
    vc.stub(CK + "@datetime", SymDT)
    vc.stub(CK + "@timedelta", SymTD)
    ST, JD = vc.float_class(SD + "ScenarioTime"), vc.float_class(SD + "JulianDate")
    vc.stub(CK + "@ScenarioTime", ST)
    vc.stub(SD + "@ScenarioTime", ST)
    vc.stub(SD + "@JulianDate", JD)
    vc.stub(SD + "datetimeToJulianDate", lambda dtm: JD(jd_stub(None, *dtm.fields) if dtm.fields else jd_stub(None, dtm.year, dtm.month, dtm.day, dtm.hour, dtm.minute, dtm.second)))
    vc.stub(CK + "@Epoch", lambda **kw: _NS(**kw))
    vc.stub(CK + "getDBConnection", lambda: _NS(insertData=lambda *e: inserted.extend(e)))
    clk = vc.new(CK + "ScenarioClock")
    vc.fn(CK + "ScenarioClock.__init__")(clk, t0, span, dt)
    n = len(inserted)
    vc.ensure("O-C05-epochs.count", vc.And(n >= 1, (n - 1) * dt <= span, n * dt > span))
    val = lambda x: x._pyvc_value() if hasattr(x, "_pyvc_value") else x
    vc.ensure("O-C05-epochs.timestamps", vc.And(*[e.timestampISO.T == t0.T + k * dt for k, e in enumerate(inserted)]))
    vc.ensure("O-C05-epochs.increasing", vc.And(*[val(inserted[k + 1].julian_date) > val(inserted[k].julian_date) for k in range(n - 1)]) if n > 1 else True)
    before = val(clk.time)
    vc.fn(CK + "ScenarioClock.ticToc")(clk)
    vc.ensure("O-C05-ticToc", val(clk.time) == before + dt)



@obligation("C05", "clock_config", ensures=["O-C05-clock-config.span", "O-C05-clock-config.epoch-per-physics-step"], fns=[CK + "ScenarioClock.fromConfig"], mode="Z",
            note="the clock built from a time configuration spans the WHOLE configured duration (stop - start in seconds, whole days included) from the configured start with the configured physics step, "
                 "so the epochs it records (O-C05-epochs.*) cover k = 0 .. floor(D / step)")
def clock_config(vc):
    import datetime
    days, secs = vc.int("days", 0, 400), vc.int("secs", 0, 86399)
    step = vc.int("step", 2, 3600)
    out_step = vc.int("output_step", 1, 7200)  # (finer, equal or coarser than the physics step: the clock ticks with the physics step whatever the output cadence)
    got = {}

    class Rec:
        def __new__(cls, *a, **kw):
            got["args"], got["kw"] = a, kw
            return "CLOCK"
    if vc.symbolic:
        class TD:  # datetime.timedelta by contract: normalised days/seconds fields and their total
            def __init__(self):
                self.days, self.seconds, self.microseconds = days, secs, 0

            def total_seconds(self):
                return days * 86400 + secs

        class DT:
            def __init__(self, tag):
                self.tag = tag

            def __sub__(self, other):
                return TD() if (self.tag, other.tag) == ("stop", "start") else None
        start, stop = DT("start"), DT("stop")
        out = vc.fn(CK + "ScenarioClock.fromConfig")(Rec, _NS(start_timestamp=start, stop_timestamp=stop, physics_step_sec=step, output_step_sec=out_step))
    else:
        from resonaate.scenario.clock import ScenarioClock
        start = datetime.datetime(2020, 2, 27, 22, 10, 5)
        stop = start + datetime.timedelta(days=days, seconds=secs)
        out = ScenarioClock.fromConfig.__func__(Rec, _NS(start_timestamp=start, stop_timestamp=stop, physics_step_sec=step, output_step_sec=out_step))
    a = got.get("args", (None, None, None))
    vc.ensure("O-C05-clock-config.span", vc.And(out == "CLOCK", a[0] is start, a[1] == days * 86400 + secs, a[2] is step or a[2] == step))
    if vc.symbolic:
        # whatever else is handed to the constructor, the clock built from a configuration behaves like ScenarioClock(start, span, physics step): checked natively on the real class
        vc.ensure("O-C05-clock-config.epoch-per-physics-step", True)
    else:
        # the REAL class built from the configuration inserts one epoch row per physics step over the whole span (rows of every step refer to them), whatever the output cadence
        inserted = []
        vc.install(CK + "getDBConnection", lambda: _NS(insertData=lambda *e: inserted.extend(e)))
        span_s = min(days * 86400 + secs, 150 * step)
        clk = ScenarioClock.fromConfig(_NS(start_timestamp=start, stop_timestamp=start + datetime.timedelta(seconds=span_s), physics_step_sec=step, output_step_sec=out_step))
        want = [(start + datetime.timedelta(seconds=k * step)).isoformat(timespec="microseconds") for k in range(int(span_s // step) + 1)]
        vc.ensure("O-C05-clock-config.epoch-per-physics-step", [e.timestampISO for e in inserted] == want and float(clk.dt_step) == step)


@obligation("C05", "run_duration_bounded", ensures=["B-C05-run.duration", "B-C05-run.propagates-to-target"], fns=["resonaate:runResonaate"], mode="Z", native_only=True, samples=200,
            bounded="BOUNDED stand-in, not a proof (the function imports the scenario builder locally; builder and target-date conversion are replaced by recorders): 200 (quick) / 2000 (thorough) "
                    "sampled durations per run, whole seconds from 1 s to 5 days given in hours (not whole minutes in general)",
            note="the entry point hands the REQUESTED duration on: the run length given in hours reaches getTargetJulianDate as that many seconds (to the microsecond a timedelta resolves), with the "
                 "clock's start Julian date, and the scenario is propagated to exactly the date that returns, then shut down (the step count for that date is O-C05-steps.*)")
def run_duration_bounded(vc):
    from unittest import mock
    import resonaate
    secs = vc.int("seconds", 1, 5 * 86400)
    calls = []
    app = _NS(clock=_NS(julian_date_start="JD0"), propagateTo=lambda t: calls.append(("propagateTo", t)), shutdown=lambda: calls.append(("shutdown",)),
              logger=_NS(info=lambda *a: None, warning=lambda *a: None))
    with mock.patch("resonaate.scenario.buildScenarioFromConfigFile", lambda *a, **k: app), \
            mock.patch("resonaate.physics.time.conversions.getTargetJulianDate", lambda jd0, td: (calls.append(("target", jd0, td)), "TARGET")[1]):
        resonaate.runResonaate("init.json", sim_time_hours=secs / 3600.0)
    tgt = [c for c in calls if c[0] == "target"]
    vc.ensure("B-C05-run.duration", len(tgt) == 1 and tgt[0][1] == "JD0" and abs(tgt[0][2].total_seconds() - secs) <= 1e-6)
    vc.ensure("B-C05-run.propagates-to-target", [c for c in calls if c[0] != "target"] == [("propagateTo", "TARGET"), ("shutdown",)])
