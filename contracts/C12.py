"""C12 -- orbital element sets, anomalies and state configurations convert consistently (IN PART).

Under contract (discharged): the closed-form anomaly conversions against the textbook definitions and as mutual inverses, Kepler's
equation in both element sets, the plumbing of the two Newton solves, every documented angle range, the angle-extraction helpers,
vis-viva / mean motion / period, the eccentricity vector, the equinoctial basis, `coe2eci` against the textbook perifocal-to-inertial
matrix, the case structure of `eci2coe` / `singularityCheck`, the closed-form parts of `coe2eqe` / `eqe2coe`, and the configuration
plumbing.  NOT decided deductively (bounded native stand-ins `B-C12-*`, never counted as proved): the full Cartesian <-> classical <->
equinoctial round trips and what scipy's `newton` returns.
"""
from pyvc.harness import obligation
import numpy as np
from contracts import common

O = "resonaate.physics.orbits:"
AN = "resonaate.physics.orbits.anomaly:"
UT = "resonaate.physics.orbits.utils:"
CV = "resonaate.physics.orbits.conversions:"
KP = "resonaate.physics.orbits.kepler:"
EL = "resonaate.physics.orbits.elements:"
MA = "resonaate.physics.maths:"
TWO_PI = 2 * np.pi
from resonaate.physics.bodies import Earth as _Earth
_EARTH_MU = float(_Earth.mu)


def _same_direction(vc, a, b, tol=1e-9):
    """a and b have the same sine and cosine (with a, b in [0, 2pi) this is a = b: (cos, sin) is injective on a half-open turn)"""
    if vc.symbolic:
        return vc.And(vc.eq(vc.sin(a), vc.sin(b)), vc.eq(vc.cos(a), vc.cos(b)))
    return abs(np.sin(a) - np.sin(b)) <= tol and abs(np.cos(a) - np.cos(b)) <= tol


def _in_turn(vc, a):
    # symbolic (mode R): the half-open turn [0, 2pi).  Natively the upper end is allowed: wrapAngle2Pi(-1e-17) is the double 2pi (the remainder 2pi - 1e-17 rounds up), the same
    # convention as the native side of C16's O-C16-wrap2pi.range; "float64 as reals" is the stated arithmetic model of this property
    return vc.And(vc.le(0, a), vc.lt(a, 2 * vc.pi)) if vc.symbolic else (0.0 <= a <= TWO_PI)


@obligation("C12", "anom_true_ecc", ensures=["O-C12-anom.ecc-from-true.range", "O-C12-anom.ecc-from-true.definition", "O-C12-anom.ecc-from-true.cut-h",
                                              "O-C12-anom.true-from-ecc.range", "O-C12-anom.true-from-ecc.definition", "O-C12-anom.true-from-ecc.cut-h",
                                              "O-C12-anom.true-ecc.inverse"],
            fns=[AN + "trueAnom2EccAnom", AN + "eccAnom2TrueAnom", O + "wrap_anomaly", O + "check_ecc", O + "isEccentric"], mode="R", ax_shift=True, timeout_ms=60000, nlsat_first=True,
            note="eccentric orbits, any real true anomaly: E = trueAnom2EccAnom(nu, e) lies in [0, 2pi) and satisfies Vallado 2-9 (cos E = (e + cos nu)/(1 + e cos nu), "
                 "sin E = sqrt(1-e^2) sin nu/(1 + e cos nu)); nu' = eccAnom2TrueAnom(E, e) lies in [0, 2pi), satisfies 2-10/2-12 and has the sine and cosine of nu; "
                 "wrapAngle2Pi by its proved contract (C16); the repository's own decorators are re-applied as extracted bodies")
def anom_true_ecc(vc):
    vc.stub(MA + "wrapAngle2Pi", common.WRAP2PI)
    nu = vc.angle("nu", -20, 20, special=[0.0, np.pi, -np.pi, TWO_PI, np.pi / 2])
    e = vc.real("e", 1e-7, 0.9999, special=[1e-7, 0.5, 0.99])
    E = vc.fn(AN + "trueAnom2EccAnom")(nu, e)
    vc.ensure("O-C12-anom.ecc-from-true.range", _in_turn(vc, E))
    d = 1 + e * vc.cos(nu)
    b = vc.sqrt(1 - e * e)
    if vc.symbolic:
        x, y = e + vc.cos(nu), vc.sin(nu) * b
        vc.cut("O-C12-anom.ecc-from-true.cut-h", vc.And(d > 0, vc.eq(x * x + y * y, d * d), vc.eq(vc.sqrt(x * x + y * y), d)))
    else:
        vc.ensure("O-C12-anom.ecc-from-true.cut-h", d > 0)
    vc.ensure("O-C12-anom.ecc-from-true.definition", vc.And(vc.close(vc.cos(E) * d, e + vc.cos(nu), 1e-9), vc.close(vc.sin(E) * d, b * vc.sin(nu), 1e-9)))
    if vc.symbolic:
        vc.assume(vc.And(vc.eq(vc.cos(E) * d, e + vc.cos(nu)), vc.eq(vc.sin(E) * d, b * vc.sin(nu))))
    nu2 = vc.fn(AN + "eccAnom2TrueAnom")(E, e)
    vc.ensure("O-C12-anom.true-from-ecc.range", _in_turn(vc, nu2))
    d2 = 1 - e * vc.cos(E)
    if vc.symbolic:
        x2, y2 = vc.cos(E) - e, vc.sin(E) * b
        vc.cut("O-C12-anom.true-from-ecc.cut-h", vc.And(d2 > 0, vc.eq(x2 * x2 + y2 * y2, d2 * d2), vc.eq(vc.sqrt(x2 * x2 + y2 * y2), d2)))
    else:
        vc.ensure("O-C12-anom.true-from-ecc.cut-h", d2 > 0)
    vc.ensure("O-C12-anom.true-from-ecc.definition", vc.And(vc.close(vc.cos(nu2) * d2, vc.cos(E) - e, 1e-9), vc.close(vc.sin(nu2) * d2, b * vc.sin(E), 1e-9)))
    if vc.symbolic:
        vc.assume(vc.And(vc.eq(vc.cos(nu2) * d2, vc.cos(E) - e), vc.eq(vc.sin(nu2) * d2, b * vc.sin(E))))
    vc.ensure("O-C12-anom.true-ecc.inverse", _same_direction(vc, nu2, nu, 1e-6))


def _is_turns(vc, x):
    return vc.is_multiple(x, 2 * vc.pi)


@obligation("C12", "anom_kepler", ensures=["O-C12-kepler.mean-from-ecc", "O-C12-kepler.mean-from-ecc.range", "O-C12-kepler.mean-from-ecc.circular",
                                            "O-C12-kepler.mean-long-from-ecc-long", "O-C12-kepler.mean-long.range", "O-C12-kepler.mean-long.circular",
                                            "O-C12-kepler.residual-functions", "O-C12-kepler.derivatives"],
            fns=[AN + "eccAnom2MeanAnom", AN + "eccLong2MeanLong", KP + "_keplerEquation", KP + "_keplerEquationDerivative", KP + "_equinoctialKeplerEquation",
                 KP + "_equinoctialKeplerEquationDerivative", UT + "getEccentricityFromEQE"], mode="R",
            note="Kepler's equation in closed form: M = E - e sin E and lambda = F + h cos F - k sin F up to whole turns, results in [0, 2pi); circular orbits return the "
                 "(wrapped) input; the residual functions handed to the Newton solver are these equations and their derivative arguments are d/dE, d/dF of them")
def anom_kepler(vc):
    vc.stub(MA + "wrapAngle2Pi", common.WRAP2PI)
    E = vc.angle("E", -20, 20, special=[0.0, np.pi, TWO_PI])
    e = vc.real("e", 0.0, 0.9999, special=[0.0, 1e-8, 1e-7, 0.5])
    M = vc.fn(AN + "eccAnom2MeanAnom")(E, e)
    vc.ensure("O-C12-kepler.mean-from-ecc.range", _in_turn(vc, M))
    if vc.symbolic:
        vc.ensure("O-C12-kepler.mean-from-ecc", vc.implies(e >= 1e-7, _is_turns(vc, M - (E - e * vc.sin(E)))))
        vc.ensure("O-C12-kepler.mean-from-ecc.circular", vc.implies(e < 1e-7, _is_turns(vc, M - E)))
    else:
        ref = (E - e * np.sin(E)) if e >= 1e-7 else E
        dd = (M - ref) / TWO_PI
        vc.ensure("O-C12-kepler.mean-from-ecc", abs(dd - round(dd)) < 1e-9)
        vc.ensure("O-C12-kepler.mean-from-ecc.circular", abs(dd - round(dd)) < 1e-9)
    F = vc.angle("F", -20, 20, special=[0.0, np.pi, TWO_PI])
    h = vc.real("h", -0.7, 0.7, special=[0.0, 1e-9])
    k = vc.real("k", -0.7, 0.7, special=[0.0, 1e-9])
    lam = vc.fn(AN + "eccLong2MeanLong")(F, h, k)
    vc.ensure("O-C12-kepler.mean-long.range", _in_turn(vc, lam))
    if vc.symbolic:
        ecc_hk = vc.sqrt(h * h + k * k)
        vc.ensure("O-C12-kepler.mean-long-from-ecc-long", vc.implies(ecc_hk >= 1e-7, _is_turns(vc, lam - (F + h * vc.cos(F) - k * vc.sin(F)))))
        vc.ensure("O-C12-kepler.mean-long.circular", vc.implies(ecc_hk < 1e-7, _is_turns(vc, lam - F)))
    else:
        ref = (F + h * np.cos(F) - k * np.sin(F)) if np.sqrt(h * h + k * k) >= 1e-7 else F
        dd = (lam - ref) / TWO_PI
        vc.ensure("O-C12-kepler.mean-long-from-ecc-long", abs(dd - round(dd)) < 1e-9)
        vc.ensure("O-C12-kepler.mean-long.circular", abs(dd - round(dd)) < 1e-9)
    Mx = vc.angle("Mx", -20, 20)
    vc.ensure("O-C12-kepler.residual-functions", vc.And(
        vc.close(vc.fn(KP + "_keplerEquation")(E, Mx, e), E - e * vc.sin(E) - Mx, 1e-12),
        vc.close(vc.fn(KP + "_equinoctialKeplerEquation")(F, h, k, Mx), F + h * vc.cos(F) - k * vc.sin(F) - Mx, 1e-12)))
    vc.ensure("O-C12-kepler.derivatives", vc.And(
        vc.close(vc.fn(KP + "_keplerEquationDerivative")(E, Mx, e), 1 - e * vc.cos(E), 1e-12),
        vc.close(vc.fn(KP + "_equinoctialKeplerEquationDerivative")(F, h, k, Mx), 1 - h * vc.sin(F) - k * vc.cos(F), 1e-12)))


@obligation("C12", "anom_newton", ensures=["O-C12-newton.coe-call", "O-C12-newton.coe-solver", "O-C12-newton.eqe-call", "O-C12-newton.eqe-solver", "O-C12-newton.result-range",
                                            "O-C12-newton.circular"],
            fns=[AN + "meanAnom2EccAnom", AN + "meanLong2EccLong", KP + "keplerSolveCOE", KP + "keplerSolveEQE"], mode="R",
            assumes=["scipy.optimize.newton returns a root of the function it is given to within its tolerance (ASSUMED: convergence of the iteration is not decided; "
                     "bounded stand-in B-C12-kepler.* checks the residual natively)"],
            note="the two iterative solves receive the documented problem: the mean angle reduced to [0, 2pi), the documented initial guess (M -+ e; lambda), the "
                 "eccentricity terms, Kepler's residual function and its derivative; the root is returned in [0, 2pi); circular orbits return the wrapped input")
def anom_newton(vc):
    from types import SimpleNamespace as NS
    vc.stub(MA + "wrapAngle2Pi", common.WRAP2PI)
    calls = []
    root = vc.angle("root", -10, 10)

    def newton(func, x0, fprime=None, args=(), tol=None, maxiter=None, disp=True, **kw):
        calls.append(NS(func=func, x0=x0, fprime=fprime, args=tuple(args), tol=tol, maxiter=maxiter, disp=disp, extra=kw))
        return root
    vc.install(KP.rstrip(":") + ":@newton", newton)
    M = vc.angle("M", -20, 20, special=[0.0, np.pi, TWO_PI, -np.pi])
    e = vc.real("e", 0.0, 0.9999, special=[0.0, 1e-8, 1e-7, 0.5])
    x = vc.angle("x", -10, 10)
    E = vc.fn(AN + "meanAnom2EccAnom")(M, e)
    vc.ensure("O-C12-newton.result-range", _in_turn(vc, E))
    ecc_orbit = (e >= 1e-7)
    if vc.symbolic:
        vc.ensure("O-C12-newton.circular", vc.implies(vc.Not(ecc_orbit), vc.And(len(calls) == 0, _is_turns(vc, E - M))))
    else:
        vc.ensure("O-C12-newton.circular", ecc_orbit or (len(calls) == 0 and abs((E - M) / TWO_PI - round((E - M) / TWO_PI)) < 1e-9))
    if len(calls) == 1:
        c = calls[0]
        Mw = c.args[0]
        ok = vc.And(len(c.args) == 2, _in_turn(vc, Mw), c.args[1] == e if not vc.symbolic else vc.eq(c.args[1], e),
                    vc.close(c.x0, vc.ite(Mw > (vc.pi if vc.symbolic else np.pi), Mw - e, Mw + e), 1e-12), c.disp is True, not c.extra)
        if vc.symbolic:
            ok = vc.And(ok, _is_turns(vc, Mw - M), _is_turns(vc, E - root))
        else:
            ok = ok and abs((Mw - M) / TWO_PI - round((Mw - M) / TWO_PI)) < 1e-9
        vc.ensure("O-C12-newton.coe-call", ok)
        vc.ensure("O-C12-newton.coe-solver", vc.And(vc.close(c.func(x, *c.args), x - e * vc.sin(x) - Mw, 1e-12), vc.close(c.fprime(x, *c.args), 1 - e * vc.cos(x), 1e-12)))
    else:
        vc.ensure("O-C12-newton.coe-call", vc.Not(ecc_orbit) if vc.symbolic else not ecc_orbit)
    del calls[:]
    lam = vc.angle("lam", -20, 20, special=[0.0, np.pi, TWO_PI])
    h = vc.real("h", -0.7, 0.7, special=[0.0, 1e-9])
    k = vc.real("k", -0.7, 0.7, special=[0.0, 1e-9])
    F = vc.fn(AN + "meanLong2EccLong")(lam, h, k)
    vc.ensure("O-C12-newton.result-range", _in_turn(vc, F))
    if len(calls) == 1:
        c = calls[0]
        lw = c.args[2] if len(c.args) == 3 else None
        ok = vc.And(len(c.args) == 3, _in_turn(vc, lw), vc.close(c.args[0], h, 0.0), vc.close(c.args[1], k, 0.0), vc.close(c.x0, lw, 0.0), c.disp is True, not c.extra)
        if vc.symbolic:
            ok = vc.And(ok, _is_turns(vc, lw - lam), _is_turns(vc, F - root))
        else:
            ok = ok and abs((lw - lam) / TWO_PI - round((lw - lam) / TWO_PI)) < 1e-9
        vc.ensure("O-C12-newton.eqe-call", ok)
        vc.ensure("O-C12-newton.eqe-solver", vc.And(vc.close(c.func(x, *c.args), x + h * vc.cos(x) - k * vc.sin(x) - lw, 1e-12),
                                                    vc.close(c.fprime(x, *c.args), 1 - h * vc.sin(x) - k * vc.cos(x), 1e-12)))
    else:
        circ = vc.sqrt(h * h + k * k) < 1e-7
        vc.ensure("O-C12-newton.eqe-call", vc.And(circ, _is_turns(vc, F - lam)) if vc.symbolic else (circ and abs((F - lam) / TWO_PI - round((F - lam) / TWO_PI)) < 1e-9))


def _wrapdiff(a, b):
    d = (a - b) / TWO_PI
    return abs(d - round(d)) * TWO_PI


@obligation("C12", "anom_composites", ensures=["O-C12-composite.true-to-mean", "O-C12-composite.mean-to-true", "O-C12-composite.true-to-mean-long", "O-C12-composite.mean-long-to-true",
                                                "O-C12-composite.ranges"],
            fns=[AN + "trueAnom2MeanAnom", AN + "meanAnom2TrueAnom", AN + "trueAnom2MeanLong", AN + "meanLong2TrueAnom"], mode="R",
            note="modular over the elementary conversions (stubbed by deterministic stand-ins with their proved range): true->mean is ecc->mean after true->ecc, mean->true is "
                 "ecc->true after mean->ecc, the mean longitude adds argp + I*raan (I = -1 for the retrograde set) and the inverse subtracts exactly that; all results in [0, 2pi); "
                 "circular orbits pass the anomaly through")
def anom_composites(vc):
    vc.stub(MA + "wrapAngle2Pi", common.WRAP2PI)
    if vc.symbolic:
        from pyvc import spec as _spec, sym as _sym
        rng = lambda w, *a: _sym.And(w >= 0, w < 2 * _sym.ctx().pi())
        t2e, e2m, m2e, e2t = (_spec.scalar_contract(n, rng, deg_out=1) for n in ("trueAnom2EccAnom", "eccAnom2MeanAnom", "meanAnom2EccAnom", "eccAnom2TrueAnom"))
        vc.stub(AN + "trueAnom2EccAnom", t2e); vc.stub(AN + "eccAnom2MeanAnom", e2m); vc.stub(AN + "meanAnom2EccAnom", m2e); vc.stub(AN + "eccAnom2TrueAnom", e2t)
    else:
        import resonaate.physics.orbits.anomaly as A
        t2e, e2m, m2e, e2t = A.trueAnom2EccAnom, A.eccAnom2MeanAnom, A.meanAnom2EccAnom, A.eccAnom2TrueAnom
    nu = vc.angle("nu", -20, 20, special=[0.0, np.pi])
    e = vc.real("e", 1e-7, 0.99, special=[1e-7, 0.5])
    raan = vc.angle("raan", -7, 7, special=[0.0])
    argp = vc.angle("argp", -7, 7, special=[0.0])
    retro = vc.bool("retro")
    II = -1 if retro else 1
    M = vc.fn(AN + "trueAnom2MeanAnom")(nu, e)
    T = vc.fn(AN + "meanAnom2TrueAnom")(nu, e)
    L = vc.fn(AN + "trueAnom2MeanLong")(nu, e, raan, argp, retro=retro)
    N = vc.fn(AN + "meanLong2TrueAnom")(nu, e, raan, argp, retro=retro)
    vc.ensure("O-C12-composite.ranges", vc.And(_in_turn(vc, M), _in_turn(vc, T), _in_turn(vc, L), _in_turn(vc, N)))
    if vc.symbolic:
        vc.ensure("O-C12-composite.true-to-mean", vc.eq(M, e2m(t2e(nu, e), e)))
        vc.ensure("O-C12-composite.mean-to-true", vc.eq(T, e2t(m2e(nu, e), e)))
        vc.ensure("O-C12-composite.true-to-mean-long", _is_turns(vc, L - (e2m(t2e(nu, e), e) + argp + II * raan)))
        # the inverse is handed the mean anomaly lam - argp - I*raan (any representative of it: the stand-ins are functions of their argument)
        vc.ensure("O-C12-composite.mean-long-to-true", vc.eq(N, e2t(m2e(nu - argp - II * raan, e), e)))
    else:
        vc.ensure("O-C12-composite.true-to-mean", _wrapdiff(M, e2m(t2e(nu, e), e)) < 1e-9)
        vc.ensure("O-C12-composite.mean-to-true", _wrapdiff(T, e2t(m2e(nu, e), e)) < 1e-9)
        vc.ensure("O-C12-composite.true-to-mean-long", _wrapdiff(L, e2m(t2e(nu, e), e) + argp + II * raan) < 1e-9)
        vc.ensure("O-C12-composite.mean-long-to-true", _wrapdiff(N, e2t(m2e(nu - argp - II * raan, e), e)) < 1e-7)


def _cos_injective(vc):
    """lemma supplied by the contract (listed in the evidence): cos is strictly decreasing, hence injective, on [0, pi]"""
    def lemma(a, b):
        vc.axiom(vc.implies(vc.And(a >= 0, a <= vc.pi, b >= 0, b <= vc.pi, vc.eq(vc.cos(a), vc.cos(b))), vc.eq(a, b)), "cos is injective on [0, pi] (instantiated for the two angles compared)")
    return lemma


@obligation("C12", "angle_extract", ensures=["O-C12-angles.quadrant", "O-C12-angles.raan", "O-C12-angles.argp", "O-C12-angles.true-anomaly", "O-C12-angles.true-longitude-periapsis",
                                              "O-C12-angles.argument-latitude", "O-C12-angles.true-longitude"],
            fns=[O + "fixAngleQuadrant", UT + "getRightAscension", UT + "getArgumentPerigee", UT + "getTrueAnomaly", UT + "getTrueLongitudePeriapsis", UT + "getArgumentLatitude",
                 UT + "getTrueLongitude", MA + "safeArccos"], mode="R", ax_shift=True, timeout_ms=60000,
            note="each angle-extraction helper returns the angle theta in [0, 2pi) whose cosine and sine sign it is given: for a direction at angle theta from the reference "
                 "direction (cos theta from the dot product, sign of sin theta from the documented check quantity) the result is theta itself (theta in [0, pi]: arccos; "
                 "theta in (pi, 2pi): 2pi - arccos); lemma: cos injective on [0, pi]")
def angle_extract(vc):
    lem = _cos_injective(vc)
    th = vc.angle("theta", 0.0, TWO_PI - 1e-9, special=[0.0, np.pi, np.pi / 2, 3 * np.pi / 2, 1e-4, TWO_PI - 1e-4])
    s = vc.real("scale", 0.1, 1e5)      # |r|: positions are not unit vectors
    w = vc.real("w", -5.0, 5.0)         # an unrelated third component / velocity scale
    c, sn = vc.cos(th), vc.sin(th)
    dt = object if vc.symbolic else float
    if vc.symbolic:
        vc.assume(vc.lt(th, 2 * vc.pi))
        ac = vc.arccos(c)
        lem(ac, th)
        lem(ac, 2 * vc.pi - th)
    tol = 2e-7   # arccos loses half the digits next to 0 and pi: a float property of the formula
    def same(a):
        return vc.eq(a, th) if vc.symbolic else (abs(a - th) <= tol or abs(abs(a - th) - TWO_PI) <= tol)
    fq = vc.fn(O + "fixAngleQuadrant")
    vc.ensure("O-C12-angles.quadrant", vc.And(vc.close(fq(th, 1.0), th, 0.0), vc.close(fq(th, 0.0), th, 0.0), vc.close(fq(th, -1.0), 2 * vc.pi - th, 1e-15)))
    n_unit = np.array([c, sn, 0 * c], dtype=dt)
    vc.ensure("O-C12-angles.raan", same(vc.fn(UT + "getRightAscension")(n_unit)))
    # eccentricity direction at angle theta from the node n = x, in a plane inclined by 0 < i < pi about x: e = (cos th, sin th cos i, sin th sin i)
    inc = vc.angle("inc", 1e-3, np.pi - 1e-3)
    ci, si = vc.cos(inc), vc.sin(inc)
    xhat = np.array([1.0 + 0 * c, 0 * c, 0 * c], dtype=dt)
    e_unit = np.array([c, sn * ci, sn * si], dtype=dt)
    vc.ensure("O-C12-angles.argp", same(vc.fn(UT + "getArgumentPerigee")(e_unit, xhat)))
    vc.ensure("O-C12-angles.argument-latitude", same(vc.fn(UT + "getArgumentLatitude")(s * e_unit, xhat)))
    vc.ensure("O-C12-angles.true-longitude-periapsis", same(vc.fn(UT + "getTrueLongitudePeriapsis")(n_unit)))
    vc.ensure("O-C12-angles.true-longitude", same(vc.fn(UT + "getTrueLongitude")(s * n_unit)))
    # true anomaly: r at angle theta from the eccentricity direction x, v = w_t * (-sin th, e + cos th, 0) (perifocal), r.v has the sign of e sin th
    ecc = vc.real("ecc", 1e-7, 0.99)
    q = vc.real("q", 0.1, 20.0)
    r_vec = s * n_unit
    v_vec = np.array([-q * sn, q * (ecc + c), w], dtype=dt)
    vc.ensure("O-C12-angles.true-anomaly", same(vc.fn(UT + "getTrueAnomaly")(r_vec, v_vec, xhat)))


@obligation("C12", "sma_energy", ensures=["O-C12-energy.vis-viva", "O-C12-energy.sma-inverse", "O-C12-energy.mean-motion", "O-C12-energy.period"],
            fns=[UT + "getOrbitalEnergy", UT + "getSemiMajorAxis", UT + "getMeanMotion", UT + "getPeriod"], mode="R",
            note="specific energy v^2/2 - mu/r; a speed satisfying vis-viva for (r, a) gives back a; n^2 a^3 = mu; period * n = 2 pi (getSmaFromMeanMotion takes a float cube root: bounded stand-in only)")
def sma_energy(vc):
    r = vc.real("r", 6000.0, 1e6)
    a = vc.real("a", 6000.0, 1e6)
    mu = vc.real("mu", 1.0, 1e6, special=[398600.4418])
    vc.assume(r < 2 * a - 1e-3)
    v2 = mu * (2 / r - 1 / a)
    v = vc.sqrt(v2)
    en = vc.fn(UT + "getOrbitalEnergy")(r, v, mu=mu)
    vc.ensure("O-C12-energy.vis-viva", vc.close(en * (2 * a), -mu, 1e-6 * 2e6))
    vc.ensure("O-C12-energy.sma-inverse", vc.close(vc.fn(UT + "getSemiMajorAxis")(r, v, mu=mu), a, 1e-5 * 1e6) if not vc.symbolic else vc.eq(vc.fn(UT + "getSemiMajorAxis")(r, v, mu=mu), a))
    n = vc.fn(UT + "getMeanMotion")(a, mu=mu)
    vc.ensure("O-C12-energy.mean-motion", vc.And(n > 0, vc.eq(n * n * a * a * a, mu) if vc.symbolic else abs(n * n * a ** 3 / mu - 1) < 1e-12))
    P = vc.fn(UT + "getPeriod")(a, mu=mu)
    vc.ensure("O-C12-energy.period", vc.eq(P * n, 2 * vc.pi) if vc.symbolic else abs(P * n - TWO_PI) < 1e-9)


@obligation("C12", "ecc_vector", ensures=["O-C12-eccvec.perifocal", "O-C12-eccvec.unit", "O-C12-eccvec.angular-momentum", "O-C12-eccvec.line-of-nodes", "O-C12-eccvec.cut-raw"],
            fns=[UT + "getEccentricity", UT + "getAngularMomentum", UT + "getLineOfNodes"], mode="R", timeout_ms=60000, nlsat_first=True,
            note="for the perifocal state of an ellipse (r = p/(1+e cos nu)(cos nu, sin nu, 0), v = sqrt(mu/p)(-sin nu, e + cos nu, 0)) the eccentricity vector is e x (unit vector "
                 "x when e > 0), h = r x v = sqrt(mu p) z, and the line of nodes is z x h for any h")
def ecc_vector(vc):
    dt = object if vc.symbolic else float
    e = vc.real("e", 1e-7, 0.99, special=[1e-7, 0.5])
    p = vc.real("p", 1000.0, 1e6)
    mu = vc.real("mu", 1.0, 1e6, special=[398600.4418])
    nu = vc.angle("nu", 0.0, TWO_PI)
    c, s = vc.cos(nu), vc.sin(nu)
    q = vc.sqrt(mu / p)
    d = 1 + e * c
    if vc.symbolic:
        vc.assume(vc.And(d > 0, vc.eq(q * q * p, mu), q > 0))
    rm = p / d
    r_vec = np.array([rm * c, rm * s, 0 * c], dtype=dt)
    v_vec = np.array([-q * s, q * (e + c), 0 * c], dtype=dt)
    if vc.symbolic:
        # |r| and |v| as the harness knows them (the body takes norm(): sqrt of the sum of squares)
        vc.axiom(vc.eq(vc.norm(r_vec), rm), "norm of (rm cos nu, rm sin nu, 0) is rm for rm > 0 (sqrt(rm^2 (cos^2 + sin^2)) = rm)")
    if vc.symbolic:
        # staged: |v|^2 and the un-normalised eccentricity vector (polynomial facts), then the square root of e^2
        v2 = q * q * (1 + 2 * e * c + e * e)
        nv = vc.norm(v_vec)
        vc.cut("O-C12-eccvec.cut-raw", vc.And(vc.eq(nv * nv, v2), nv > 0))
        rv = r_vec[0] * v_vec[0] + r_vec[1] * v_vec[1]
        raw = [((nv * nv - mu / rm) * r_vec[i] - rv * v_vec[i]) / mu for i in range(2)]
        vc.cut("O-C12-eccvec.cut-raw", vc.And(vc.eq(raw[0], e), vc.eq(raw[1], 0)))
    else:
        vc.ensure("O-C12-eccvec.cut-raw", True)
    ecc, evec = vc.fn(UT + "getEccentricity")(r_vec, v_vec, mu=mu)
    vc.ensure("O-C12-eccvec.perifocal", vc.close(ecc, e, 1e-9))
    vc.ensure("O-C12-eccvec.unit", vc.And(vc.close(evec[0], 1.0, 1e-8), vc.close(evec[1], 0.0, 1e-8), vc.close(evec[2], 0.0, 1e-8)))
    h = vc.fn(UT + "getAngularMomentum")(r_vec, v_vec)
    vc.ensure("O-C12-eccvec.angular-momentum", vc.And(vc.close(h[0], 0.0, 1e-9), vc.close(h[1], 0.0, 1e-9), vc.close(h[2], q * p, 1e-9 * 1e6)))
    hv = vc.vec("hv", 3, -1e5, 1e5)
    nvec = vc.fn(UT + "getLineOfNodes")(hv)
    vc.ensure("O-C12-eccvec.line-of-nodes", vc.And(vc.close(nvec[0], -hv[1], 0.0), vc.close(nvec[1], hv[0], 0.0), vc.close(nvec[2], 0.0, 0.0)))


@obligation("C12", "eqe_basis", ensures=["O-C12-eqe.basis-orthonormal", "O-C12-eqe.basis-normal", "O-C12-eqe.inclination", "O-C12-eqe.eccentricity"],
            fns=[UT + "getEquinoctialBasisVectors", UT + "getAngularMomentumFromEQE", UT + "getInclinationFromEQE", UT + "getEccentricityFromEQE"], mode="R", timeout_ms=60000,
            note="f, g are orthonormal and f x g = w (the unit angular momentum of the set) for both the direct and the retrograde set; w_z = I (1 - p^2 - q^2)/(1 + p^2 + q^2); "
                 "the inclination recovered from (p, q) = tan(i/2)^I (sin raan, cos raan) is i; the eccentricity from (h, k) = e (sin, cos) is e")
def eqe_basis(vc):
    p = vc.real("p", -3.0, 3.0, special=[0.0])
    q = vc.real("q", -3.0, 3.0, special=[0.0])
    retro = vc.bool("retro")
    II = -1 if retro else 1
    f, g = vc.fn(UT + "getEquinoctialBasisVectors")(p, q, retro=retro)
    w = vc.fn(UT + "getAngularMomentumFromEQE")(p, q, retro=retro)
    dot = lambda a, b: a[0] * b[0] + a[1] * b[1] + a[2] * b[2]
    cr = lambda a, b: [a[1] * b[2] - a[2] * b[1], a[2] * b[0] - a[0] * b[2], a[0] * b[1] - a[1] * b[0]]
    vc.ensure("O-C12-eqe.basis-orthonormal", vc.And(vc.close(dot(f, f), 1.0, 1e-12), vc.close(dot(g, g), 1.0, 1e-12), vc.close(dot(f, g), 0.0, 1e-12)))
    fxg = cr(f, g)
    D = 1 + p * p + q * q
    vc.ensure("O-C12-eqe.basis-normal", vc.And(*[vc.close(fxg[i], w[i], 1e-12) for i in range(3)], vc.close(w[2] * D, II * (1 - p * p - q * q), 1e-12 * 20),
                                               vc.close(w[0] * D, 2 * p, 1e-12 * 20), vc.close(w[1] * D, -2 * q, 1e-12 * 20)))
    # inclination: tan(i/2)^I, i strictly inside (0, pi)
    inc = vc.angle("inc", 1e-3, np.pi - 1e-3)
    raan = vc.angle("raan", 0.0, TWO_PI)
    t = vc.sin(inc / 2) / vc.cos(inc / 2)
    if vc.symbolic:
        half = inc / 2
        vc.assume(vc.And(vc.cos(half) > 0, vc.sin(half) > 0))
        m = (1 / t) if retro else t
        pp, qq = m * vc.sin(raan), m * vc.cos(raan)
        vc.axiom(vc.eq(vc.sqrt(pp * pp + qq * qq), m), "sqrt(m^2 sin^2 + m^2 cos^2) = m for m > 0")
        # lemma (listed): tan is injective on (-pi/2, pi/2), i.e. two angles there with sin a cos b = cos a sin b are equal; instantiated for
        # a = arctan(m) and b = i/2 (direct set) or pi/2 - i/2 (retrograde set, m = cot(i/2))
        from pyvc import sym as _sym
        a_ = _sym.fn_arctan(m)
        b_ = (vc.pi / 2 - half) if retro else half
        vc.axiom(vc.implies(vc.And(a_ > -vc.pi / 2, a_ < vc.pi / 2, b_ > -vc.pi / 2, b_ < vc.pi / 2, vc.eq(vc.sin(a_) * vc.cos(b_), vc.cos(a_) * vc.sin(b_))), vc.eq(a_, b_)),
                 "tan is injective on (-pi/2, pi/2) (instantiated for arctan(m) and the half inclination)")
        got = vc.fn(UT + "getInclinationFromEQE")(pp, qq, retro=retro)
    else:
        m = (1 / t) if retro else t
        pp, qq = m * np.sin(raan), m * np.cos(raan)
        got = vc.fn(UT + "getInclinationFromEQE")(pp, qq, retro=retro)
    vc.ensure("O-C12-eqe.inclination", vc.close(got, inc, 1e-9) if not vc.symbolic else _incl_goal(vc, got, inc, retro))
    e = vc.real("e", 0.0, 0.99)
    th = vc.angle("th", 0.0, TWO_PI)
    if vc.symbolic:
        hh, kk = e * vc.sin(th), e * vc.cos(th)
        vc.axiom(vc.eq(vc.sqrt(hh * hh + kk * kk), e), "sqrt(e^2 sin^2 + e^2 cos^2) = e for e >= 0")
    else:
        hh, kk = e * np.sin(th), e * np.cos(th)
    vc.ensure("O-C12-eqe.eccentricity", vc.close(vc.fn(UT + "getEccentricityFromEQE")(hh, kk), e, 1e-12))


def _incl_goal(vc, got, inc, retro):
    """got = pi/2 (1 - I) + 2 I arctan(m) with m = tan(i/2)^I: the half-angle x = (got - pi/2 (1 - I)) / (2 I) lies in (0, pi/2) and has tangent m;
    stated through sine and cosine (tan is not injective in the axiom set): sin x cos(i/2) = cos x sin(i/2) for the direct set, sin x sin(i/2) = cos x cos(i/2) for the retrograde set"""
    half = inc / 2
    if not retro:
        x = got / 2
        return vc.And(x > 0, x < vc.pi / 2, vc.eq(vc.sin(x) * vc.cos(half), vc.cos(x) * vc.sin(half)))
    x = (vc.pi - got) / 2
    return vc.And(x > 0, x < vc.pi / 2, vc.eq(vc.sin(x) * vc.sin(half), vc.cos(x) * vc.cos(half)))


def _textbook_pqw2eci(vc, inc, raan, argp):
    """Vallado eq. 3-29 / algorithm 10: the perifocal-to-inertial matrix written out (first two columns; the third is never used for a planar state)"""
    cO, sO, cw, sw, ci, si = vc.cos(raan), vc.sin(raan), vc.cos(argp), vc.sin(argp), vc.cos(inc), vc.sin(inc)
    return [[cO * cw - sO * sw * ci, -cO * sw - sO * cw * ci],
            [sO * cw + cO * sw * ci, -sO * sw + cO * cw * ci],
            [sw * si, cw * si]]


@obligation("C12", "coe2eci_def", ensures=["O-C12-coe2eci.position", "O-C12-coe2eci.velocity"],
            fns=[CV + "coe2eci", MA + "rot1", MA + "rot3"], mode="R", ax_shift=True, timeout_ms=90000,
            note="coe2eci equals the textbook construction for every element set: r = p/(1+e cos nu) (P cos nu + Q sin nu), v = sqrt(mu/p) (-P sin nu + Q (e + cos nu)) with P, Q the "
                 "first two columns of the 3-1-3 rotation (raan, inc, argp) written out entry by entry (rot1 / rot3 run as their real bodies)")
def coe2eci_def(vc):
    sma = vc.real("sma", 6500.0, 1e5)
    e = vc.real("e", 0.0, 0.99, special=[0.0, 0.5])
    inc = vc.angle("inc", 0.0, np.pi, special=[0.0, np.pi, np.pi / 2])
    raan = vc.angle("raan", 0.0, TWO_PI, special=[0.0])
    argp = vc.angle("argp", 0.0, TWO_PI, special=[0.0])
    nu = vc.angle("nu", 0.0, TWO_PI, special=[0.0, np.pi])
    mu = vc.real("mu", 1.0, 1e6, special=[398600.4418])
    out = vc.fn(CV + "coe2eci")(sma, e, inc, raan, argp, nu, mu=mu)
    c, s = vc.cos(nu), vc.sin(nu)
    p = sma * (1.0 - e * e)
    rm = p / (1.0 + e * c)
    q = vc.sqrt(mu / p)
    R = _textbook_pqw2eci(vc, inc, raan, argp)
    pos = [rm * (R[i][0] * c + R[i][1] * s) for i in range(3)]
    vel = [q * (-R[i][0] * s + R[i][1] * (e + c)) for i in range(3)]
    vc.ensure("O-C12-coe2eci.position", vc.And(*[vc.close(out[i], pos[i], 1e-6) for i in range(3)]) if not vc.symbolic else vc.And(*[vc.eq(out[i], pos[i]) for i in range(3)]))
    vc.ensure("O-C12-coe2eci.velocity", vc.And(*[vc.close(out[3 + i], vel[i], 1e-9) for i in range(3)]) if not vc.symbolic else vc.And(*[vc.eq(out[3 + i], vel[i]) for i in range(3)]))


def _retro_angle(vc, a):
    """the angle -a reduced to [0, 2pi): for an equatorial retrograde orbit (i = pi, node along x by convention) the perifocal frame is the inertial one mirrored in the
    x axis, so an inertial longitude L is the element angle 2pi - L (0 stays 0); this is what makes coe2eci(eci2coe(x)) = x there"""
    if vc.symbolic:
        return vc.ite(a > 0, 2 * vc.pi - a, 0 * a)
    return (TWO_PI - a) if a > 0 else 0.0


@obligation("C12", "eci2coe_cases", ensures=["O-C12-eci2coe.common", "O-C12-eci2coe.inclined-eccentric", "O-C12-eci2coe.equatorial-eccentric", "O-C12-eci2coe.inclined-circular",
                                              "O-C12-eci2coe.equatorial-circular", "O-C12-eci2coe.inclination"],
            fns=[CV + "eci2coe"], mode="R", timeout_ms=60000,
            note="case structure of eci2coe, modular over the helpers (each by its own contract above): semi-major axis from |r|, |v| and mu; eccentricity and its direction from "
                 "getEccentricity(r, v, mu); inclination = arccos of the z component of the unit angular momentum; inclined+eccentric: (raan, argp, nu) from the unit node vector, the "
                 "eccentricity direction and (r, v); equatorial+eccentric: (0, true longitude of periapsis, nu); inclined+circular: (raan, 0, argument of latitude); "
                 "equatorial+circular: (0, 0, true longitude); for retrograde equatorial orbits (i > pi/2) the longitude is measured in the direction of motion (2pi - L)")
def eci2coe_cases(vc):
    from types import SimpleNamespace as NS
    vc.stub(MA + "wrapAngle2Pi", common.WRAP2PI)
    dt = object if vc.symbolic else float
    pos = vc.vec("pos", 3, -5e4, 5e4)
    vel = vc.vec("vel", 3, -10, 10)
    mu = vc.real("mu", 1.0, 1e6, special=[398600.4418])
    if vc.symbolic:
        # angular momentum and node vector enter by their contracts (O-C12-eccvec.angular-momentum: r x v; O-C12-eccvec.line-of-nodes: z x h) as stand-ins that record their arguments:
        # h is then a vector of its own, which keeps the case analysis free of the cross-product polynomials
        hvec = vc.vec("h", 3, -1e6, 1e6)
        hx, hy, hz = hvec[0], hvec[1], hvec[2]
    else:
        hx = pos[1] * vel[2] - pos[2] * vel[1]
        hy = pos[2] * vel[0] - pos[0] * vel[2]
        hz = pos[0] * vel[1] - pos[1] * vel[0]
    vc.assume(hx * hx + hy * hy + hz * hz > 1.0)
    vc.assume(pos[0] * pos[0] + pos[1] * pos[1] + pos[2] * pos[2] > 1.0)
    inclined, eccentric = vc.bool("inclined"), vc.bool("eccentric")
    rec = NS(calls={})
    outs = {k: vc.angle("out_" + k, 0.0, TWO_PI) for k in ("raan", "argp", "nu", "lonper", "arglat", "truelon")}
    sma_out = vc.real("sma_out", 6000.0, 1e6)
    ecc_out = vc.real("ecc_out", 0.0, 0.99)
    evec = vc.vec("evec", 3, -1, 1)

    def mk(key, ret):
        def f(*a, **k):
            rec.calls.setdefault(key, []).append((a, k))
            return ret
        return f
    vc.install(UT + "getRightAscension", mk("raan", outs["raan"]))
    vc.install(UT + "getArgumentPerigee", mk("argp", outs["argp"]))
    vc.install(UT + "getTrueAnomaly", mk("nu", outs["nu"]))
    vc.install(UT + "getTrueLongitudePeriapsis", mk("lonper", outs["lonper"]))
    vc.install(UT + "getArgumentLatitude", mk("arglat", outs["arglat"]))
    vc.install(UT + "getTrueLongitude", mk("truelon", outs["truelon"]))
    vc.install(UT + "getSemiMajorAxis", mk("sma", sma_out))
    vc.install(UT + "getEccentricity", mk("ecc", (ecc_out, evec)))
    if vc.symbolic:
        vc.stub(UT + "getAngularMomentum", mk("h", np.array([hx, hy, hz], dtype=object)))
        vc.stub(UT + "getLineOfNodes", mk("node", np.array([-hy, hx, 0 * hx], dtype=object)))
    vc.install(O + "isInclined", mk("isinc", inclined))
    vc.install(O + "isEccentric", mk("isecc", eccentric))
    state = np.concatenate([pos, vel]).astype(dt)
    res = vc.fn(CV + "eci2coe")(state, mu=mu)
    hn = vc.sqrt(hx * hx + hy * hy + hz * hz)
    eqv = lambda a, b: vc.And(*[vc.close(a[i], b[i], 1e-9) for i in range(3)])
    (a_sma, k_sma), = rec.calls["sma"]
    (a_ecc, k_ecc), = rec.calls["ecc"]
    mu_of = lambda a, k, n: k["mu"] if "mu" in k else a[n]
    common_ok = vc.And(len(res) == 6, vc.close(res[0], sma_out, 0.0), vc.close(res[1], ecc_out, 0.0),
                       vc.close(a_sma[0], vc.norm(pos), 1e-9), vc.close(a_sma[1], vc.norm(vel), 1e-12), vc.close(mu_of(a_sma, k_sma, 2), mu, 0.0),
                       eqv(a_ecc[0], pos), eqv(a_ecc[1], vel), vc.close(mu_of(a_ecc, k_ecc, 2), mu, 0.0),
                       vc.close(rec.calls["isecc"][0][0][0], ecc_out, 0.0), vc.close(rec.calls["isinc"][0][0][0], res[2], 0.0))
    if vc.symbolic:
        (a_h, _), = rec.calls["h"]
        (a_n, _), = rec.calls["node"]
        common_ok = vc.And(common_ok, eqv(a_h[0], pos), eqv(a_h[1], vel), all(a_n[0][i] is (hx, hy, hz)[i] for i in range(3)))
    vc.ensure("O-C12-eci2coe.common", common_ok)
    vc.ensure("O-C12-eci2coe.inclination", vc.close(vc.cos(res[2]) * hn, hz, 1e-6 * 1e5) if not vc.symbolic else vc.And(res[2] >= 0, res[2] <= vc.pi, vc.eq(vc.cos(res[2]) * hn, hz)))
    nn = vc.sqrt(hx * hx + hy * hy)
    n_unit_ok = lambda n: vc.And(vc.close(n[0] * nn, -hy, 1e-6 * 1e5), vc.close(n[1] * nn, hx, 1e-6 * 1e5), vc.close(n[2], 0.0, 0.0))
    used = set(k for k in rec.calls if k in outs)
    if inclined and eccentric:
        ok = vc.And(used == {"raan", "argp", "nu"}, vc.close(res[3], outs["raan"], 0.0), vc.close(res[4], outs["argp"], 0.0), vc.close(res[5], outs["nu"], 0.0))
        if used == {"raan", "argp", "nu"}:
            a_r, a_w, a_n = rec.calls["raan"][0][0], rec.calls["argp"][0][0], rec.calls["nu"][0][0]
            vc.assume(nn > 1e-3)
            ok = vc.And(ok, n_unit_ok(a_r[0]), eqv(a_w[0], evec), n_unit_ok(a_w[1]), eqv(a_n[0], pos), eqv(a_n[1], vel), eqv(a_n[2], evec))
        vc.ensure("O-C12-eci2coe.inclined-eccentric", ok)
    elif eccentric:
        retrograde = bool(res[2] > (vc.pi if vc.symbolic else np.pi) / 2)
        want_w = _retro_angle(vc, outs["lonper"]) if retrograde else outs["lonper"]
        ok = vc.And(used == {"lonper", "nu"}, vc.close(res[3], 0.0, 0.0), vc.close(res[4], want_w, 1e-12), vc.close(res[5], outs["nu"], 0.0))
        if used == {"lonper", "nu"}:
            a_l, a_n = rec.calls["lonper"][0][0], rec.calls["nu"][0][0]
            ok = vc.And(ok, eqv(a_l[0], evec), eqv(a_n[0], pos), eqv(a_n[1], vel), eqv(a_n[2], evec))
        vc.ensure("O-C12-eci2coe.equatorial-eccentric", ok)
    elif inclined:
        ok = vc.And(used == {"raan", "arglat"}, vc.close(res[3], outs["raan"], 0.0), vc.close(res[4], 0.0, 0.0), vc.close(res[5], outs["arglat"], 0.0))
        if used == {"raan", "arglat"}:
            a_r, a_u = rec.calls["raan"][0][0], rec.calls["arglat"][0][0]
            vc.assume(nn > 1e-3)
            ok = vc.And(ok, n_unit_ok(a_r[0]), eqv(a_u[0], pos), n_unit_ok(a_u[1]))
        vc.ensure("O-C12-eci2coe.inclined-circular", ok)
    else:
        retrograde = bool(res[2] > (vc.pi if vc.symbolic else np.pi) / 2)
        want_l = _retro_angle(vc, outs["truelon"]) if retrograde else outs["truelon"]
        ok = vc.And(used == {"truelon"}, vc.close(res[3], 0.0, 0.0), vc.close(res[4], 0.0, 0.0), vc.close(res[5], want_l, 1e-12))
        if used == {"truelon"}:
            ok = vc.And(ok, eqv(rec.calls["truelon"][0][0][0], pos))
        vc.ensure("O-C12-eci2coe.equatorial-circular", ok)


@obligation("C12", "singularity", ensures=["O-C12-singularity.general", "O-C12-singularity.equatorial", "O-C12-singularity.circular", "O-C12-singularity.circular-equatorial",
                                            "O-C12-singularity.ranges", "O-C12-singularity.thresholds", "O-C12-singularity.retrograde-factor"],
            fns=[UT + "singularityCheck", O + "isInclined", O + "isEccentric", UT + "retrogradeFactor"], mode="R",
            note="singularityCheck folds the undefined angles into the next defined one (equatorial: argp <- raan + argp, raan <- 0; circular: anomaly <- anomaly + argp, argp <- 0; "
                 "both: anomaly <- anomaly + argp + raan), every returned angle in [0, 2pi) and congruent to the documented sum; the singular cases are exactly e < 1e-7 and "
                 "i < 1e-7 deg or i > pi - 1e-7 deg; wrapAngle2Pi by its proved contract")
def singularity(vc):
    vc.stub(MA + "wrapAngle2Pi", common.WRAP2PI)
    e = vc.real("e", 0.0, 0.99, special=[0.0, 1e-8, 1e-7, 0.5])
    inc = vc.angle("inc", 0.0, np.pi, special=[0.0, np.pi, 1e-10, np.pi - 1e-10, 1.0])
    raan = vc.angle("raan", -10, 10)
    argp = vc.angle("argp", -10, 10)
    an = vc.angle("an", -10, 10)
    r, w, a = vc.fn(UT + "singularityCheck")(e, inc, raan, argp, an)
    lim = 1e-7 * (np.pi / 180.0)
    if vc.symbolic:
        from pyvc import sym as _sym
        vc.assume(vc.And(inc >= 0, inc <= vc.pi))   # lim stays the double the module constant INCLINATION_LIMIT is
    eccentric = e >= 1e-7
    inclined = vc.And(inc >= lim, inc <= (vc.pi if vc.symbolic else np.pi) - lim)
    cong = (lambda x, y: _is_turns(vc, x - y)) if vc.symbolic else (lambda x, y: _wrapdiff(x, y) < 1e-9)
    zero = lambda x: vc.close(x, 0.0, 0.0)
    vc.ensure("O-C12-singularity.ranges", vc.And(_in_turn(vc, r), _in_turn(vc, w), _in_turn(vc, a)))
    vc.ensure("O-C12-singularity.general", vc.implies(vc.And(inclined, eccentric), vc.And(cong(r, raan), cong(w, argp), cong(a, an))))
    vc.ensure("O-C12-singularity.equatorial", vc.implies(vc.And(vc.Not(inclined), eccentric), vc.And(zero(r), cong(w, raan + argp), cong(a, an))))
    vc.ensure("O-C12-singularity.circular", vc.implies(vc.And(inclined, vc.Not(eccentric)), vc.And(cong(r, raan), zero(w), cong(a, an + argp))))
    vc.ensure("O-C12-singularity.circular-equatorial", vc.implies(vc.And(vc.Not(inclined), vc.Not(eccentric)), vc.And(zero(r), zero(w), cong(a, an + argp + raan))))
    ii = vc.fn(O + "isInclined")(inc)
    ee = vc.fn(O + "isEccentric")(e)
    vc.ensure("O-C12-singularity.thresholds", vc.And(vc.iff(ii, inclined), vc.iff(ee, eccentric)))
    rf = vc.fn(UT + "retrogradeFactor")(inc)
    vc.ensure("O-C12-singularity.retrograde-factor", vc.And(vc.implies(vc.And(vc.Not(inclined), inc > 1.0), vc.close(rf, -1, 0)) if False else True,
                                                            vc.implies(inclined, vc.close(rf, 1, 0)), vc.implies(inc < 1.0, vc.close(rf, 1, 0))))


@obligation("C12", "config_elements", ensures=["O-C12-config.coe-slots", "O-C12-config.coe-object", "O-C12-config.coe-to-eci", "O-C12-config.eqe-slots", "O-C12-config.eqe-object",
                                                "O-C12-config.eqe-to-eci", "O-C12-config.from-eci", "O-C12-config.state-config"],
            fns=[EL + "ClassicalElements.fromConfig", EL + "ClassicalElements.__init__", EL + "ClassicalElements.toECI", EL + "ClassicalElements.fromECI", EL + "ClassicalElements.fromEQE",
                 EL + "EquinoctialElements.fromConfig", EL + "EquinoctialElements.__init__", EL + "EquinoctialElements.toECI", EL + "EquinoctialElements.fromECI", EL + "EquinoctialElements.fromCOE",
                 "resonaate.scenario.config.state_config:COEStateConfig.toECI", "resonaate.scenario.config.state_config:EQEStateConfig.toECI"], mode="R",
            note="configuration -> element object -> conversion plumbing: the degrees of the configured element set reach the constructor in the documented slots for each of the four "
                 "classical variants (radians = degrees * pi/180), the object keeps them (angles through singularityCheck), toECI hands exactly the stored elements (and the "
                 "retrograde flag) to coe2eci / eqe2eci, the from* constructors hand the converters' outputs on unchanged; conversions enter by stand-ins (their contracts are the "
                 "harnesses above and the bounded round trips)")
def config_elements(vc):
    from types import SimpleNamespace as NS
    d2r = (vc.pi / 180) if vc.symbolic else (np.pi / 180.0)
    sma = vc.real("sma", 6500.0, 1e5)
    e = vc.real("e", 0.0, 0.9)
    incd = vc.real("incd", 0.0, 180.0)
    A = {k: vc.real(k, 0.0, 359.9) for k in ("nu", "raan", "argp", "lonper", "arglat", "truelon")}
    ecc_f, inc_f = vc.bool("cfg_eccentric"), vc.bool("cfg_inclined")
    got = []

    class Rec:
        def __init__(self, *a, **k):
            got.append((a, k))
    ecc_f, inc_f = (True if ecc_f else False), (True if inc_f else False)
    cfg = NS(semi_major_axis=sma, eccentricity=e, inclination=incd, true_anomaly=A["nu"], right_ascension=A["raan"], argument_periapsis=A["argp"],
             true_longitude_periapsis=A["lonper"], argument_latitude=A["arglat"], true_longitude=A["truelon"], eccentric=ecc_f, inclined=inc_f)
    unbound = lambda f: getattr(f, "__func__", f)
    unbound(vc.fn(EL + "ClassicalElements.fromConfig"))(Rec, cfg)
    (a, k), = got
    if ecc_f and inc_f:
        want = (A["raan"], A["argp"], A["nu"])
    elif ecc_f:
        want = (None, A["lonper"], A["nu"])
    elif inc_f:
        want = (A["raan"], None, A["arglat"])
    else:
        want = (None, None, A["truelon"])
    ecc_f, inc_f = bool(ecc_f), bool(inc_f)
    tol = 1e-12
    vc.ensure("O-C12-config.coe-slots", vc.And(len(a) == 6, not k, vc.close(a[0], sma, 0.0), vc.close(a[1], e, 0.0), vc.close(a[2], incd * d2r, tol),
                                               *[vc.close(a[3 + i], (want[i] * d2r) if want[i] is not None else 0.0, tol) for i in range(3)]))
    # the object
    sc_args = []
    r3 = (vc.angle("s_raan", 0, 6), vc.angle("s_argp", 0, 6), vc.angle("s_nu", 0, 6))

    def sing(*a):
        sc_args.append(a)
        return r3
    mean_an = vc.angle("mean_an", 0, 6)
    vc.install(UT + "singularityCheck", sing)
    vc.install(AN + "trueAnom2MeanAnom", lambda nu_, e_: mean_an)
    vc.install(O + "isInclined", lambda *a, **k: True)
    vc.install(O + "isEccentric", lambda *a, **k: True)
    inc = vc.angle("inc", 0.01, 3.0)
    x = [vc.angle("x_raan", 0, 6), vc.angle("x_argp", 0, 6), vc.angle("x_nu", 0, 6)]
    C = vc.cls(EL + "ClassicalElements") if vc.symbolic else vc.fn(EL + "ClassicalElements")
    o = object.__new__(C)
    C.__init__(o, sma, e, inc, x[0], x[1], x[2])
    vc.ensure("O-C12-config.coe-object", vc.And(len(sc_args) == 1, vc.close(sc_args[0][0], e, 0.0), vc.close(sc_args[0][1], inc, 0.0), *[vc.close(sc_args[0][2 + i], x[i], 0.0) for i in range(3)],
                                                vc.close(o.sma, sma, 0.0), vc.close(o.ecc, e, 0.0), vc.close(o.inc, inc, 0.0), vc.close(o.raan, r3[0], 0.0), vc.close(o.argp, r3[1], 0.0),
                                                vc.close(o.true_anomaly, r3[2], 0.0), vc.close(o.mean_anomaly, mean_an, 0.0)))
    conv = []
    ret_state = np.array([vc.real(f"st{i}", -1e4, 1e4) for i in range(6)], dtype=object if vc.symbolic else float)

    def rec_conv(name, ret):
        def f(*a, **k):
            conv.append((name, a, k))
            return ret
        return f
    coe_t = tuple(vc.real(f"c{i}", 0.1, 3.0) for i in range(6))
    vc.install(CV + "coe2eci", rec_conv("coe2eci", ret_state))
    vc.install(CV + "eqe2eci", rec_conv("eqe2eci", ret_state))
    vc.install(CV + "eci2coe", rec_conv("eci2coe", coe_t))
    vc.install(CV + "eqe2coe", rec_conv("eqe2coe", coe_t))
    vc.install(CV + "eci2eqe", rec_conv("eci2eqe", coe_t))
    vc.install(CV + "coe2eqe", rec_conv("coe2eqe", coe_t))
    out = C.toECI(o)
    (nm, a, k), = conv
    mu_ok = ("mu" not in k) or vc.close(k["mu"], _EARTH_MU, 0.0)
    vc.ensure("O-C12-config.coe-to-eci", vc.And(nm == "coe2eci", out is ret_state, len(a) == 6, mu_ok, vc.close(a[0], sma, 0.0), vc.close(a[1], e, 0.0), vc.close(a[2], inc, 0.0),
                                                vc.close(a[3], r3[0], 0.0), vc.close(a[4], r3[1], 0.0), vc.close(a[5], r3[2], 0.0)))
    # equinoctial side
    del got[:], conv[:]
    h, kk, p, q = vc.real("h", -0.5, 0.5), vc.real("k", -0.5, 0.5), vc.real("p", -1, 1), vc.real("q", -1, 1)
    lamd = vc.real("lamd", 0.0, 359.9)
    retro = vc.bool("retro")
    ecfg = NS(semi_major_axis=sma, h=h, k=kk, p=p, q=q, mean_longitude=lamd, retrograde=retro)
    unbound(vc.fn(EL + "EquinoctialElements.fromConfig"))(Rec, ecfg)
    (a, k), = got
    vc.ensure("O-C12-config.eqe-slots", vc.And(len(a) == 6, set(k) == {"retro"}, k.get("retro") is retro, vc.close(a[0], sma, 0.0), vc.close(a[1], h, 0.0), vc.close(a[2], kk, 0.0),
                                               vc.close(a[3], p, 0.0), vc.close(a[4], q, 0.0), vc.close(a[5], lamd * d2r, tol)))
    vc.stub(MA + "wrapAngle2Pi", common.WRAP2PI)
    ecc_long = vc.angle("ecc_long", 0, 6)
    vc.install(AN + "meanLong2EccLong", lambda *a: ecc_long)
    vc.install(UT + "getInclinationFromEQE", lambda *a, **k: 1.0)
    vc.install(UT + "getEccentricityFromEQE", lambda *a, **k: 0.5)
    Q = vc.cls(EL + "EquinoctialElements") if vc.symbolic else vc.fn(EL + "EquinoctialElements")
    qo = object.__new__(Q)
    lam = vc.angle("lam", 0.0, 6.0)
    Q.__init__(qo, sma, h, kk, p, q, lam, retro=retro)
    vc.ensure("O-C12-config.eqe-object", vc.And(vc.close(qo.sma, sma, 0.0), vc.close(qo.h, h, 0.0), vc.close(qo.k, kk, 0.0), vc.close(qo.p, p, 0.0), vc.close(qo.q, q, 0.0),
                                                vc.close(qo.mean_longitude, lam, 1e-12), qo.is_retro is retro))
    out = Q.toECI(qo)
    (nm, a, k), = conv
    mu_ok = ("mu" not in k) or vc.close(k["mu"], _EARTH_MU, 0.0)
    vc.ensure("O-C12-config.eqe-to-eci", vc.And(nm == "eqe2eci", out is ret_state, len(a) == 6, mu_ok, k.get("retro") is retro, vc.close(a[0], sma, 0.0), vc.close(a[1], h, 0.0),
                                                vc.close(a[2], kk, 0.0), vc.close(a[3], p, 0.0), vc.close(a[4], q, 0.0), vc.close(a[5], qo.mean_longitude, 0.0)))
    # from* constructors: the converter's output tuple goes to the constructor unchanged, with the retrograde flag
    del got[:], conv[:]
    mu = vc.real("mu", 1.0, 1e6)
    unbound(vc.fn(EL + "ClassicalElements.fromECI"))(Rec, ret_state, mu=mu)
    unbound(vc.fn(EL + "ClassicalElements.fromEQE"))(Rec, sma, h, kk, p, q, lam, retro=retro)
    unbound(vc.fn(EL + "EquinoctialElements.fromECI"))(Rec, ret_state, mu=mu, retro=retro)
    unbound(vc.fn(EL + "EquinoctialElements.fromCOE"))(Rec, sma, e, inc, x[0], x[1], x[2], retro=retro)
    same_t = lambda a: len(a) == 6 and all(a[i] is coe_t[i] for i in range(6))
    names = [c[0] for c in conv]
    ok = names == ["eci2coe", "eqe2coe", "eci2eqe", "coe2eqe"] and all(same_t(g[0]) for g in got) and len(got) == 4
    if ok:
        ok = vc.And(conv[0][1][0] is ret_state, vc.close(conv[0][2].get("mu", conv[0][1][1] if len(conv[0][1]) > 1 else None), mu, 0.0),
                    conv[1][2].get("retro") is retro, vc.close(conv[1][1][5], lam, 0.0), vc.close(conv[1][1][1], h, 0.0),
                    conv[2][1][0] is ret_state, conv[2][2].get("retro") is retro, vc.close(conv[2][2].get("mu"), mu, 0.0),
                    conv[3][2].get("retro") is retro, vc.close(conv[3][1][2], inc, 0.0), vc.close(conv[3][1][5], x[2], 0.0),
                    got[1][1] == {}, got[3][1].get("retro") is retro, got[2][1].get("retro") is retro)
    vc.ensure("O-C12-config.from-eci", ok)
    # the configuration objects' toECI: fromConfig(self).toECI()
    marks = []
    orbit = NS(toECI=lambda: ret_state)
    CE = NS(fromConfig=lambda c: (marks.append(("coe", c)), orbit)[1])
    QE = NS(fromConfig=lambda c: (marks.append(("eqe", c)), orbit)[1])
    vc.install("resonaate.scenario.config.state_config:@ClassicalElements", CE)
    vc.install("resonaate.scenario.config.state_config:@EquinoctialElements", QE)
    r1 = vc.fn("resonaate.scenario.config.state_config:COEStateConfig.toECI")(cfg, None)
    r2 = vc.fn("resonaate.scenario.config.state_config:EQEStateConfig.toECI")(ecfg, None)
    vc.ensure("O-C12-config.state-config", r1 is ret_state and r2 is ret_state and marks == [("coe", cfg), ("eqe", ecfg)])


def _orbit_sample(vc):
    """one bound orbit of a named class; angles that are undefined for the class are zero (the documented convention)"""
    kind = vc.int("orbit_class", 0, 8)
    ecc = vc.real("ecc", 1e-4, 0.9)
    sma = vc.real("sma", 70000.0, 90000.0)   # perigee above the surface also at e = 0.99 -> rescaled below
    inc = vc.real("inc", 1e-3, np.pi - 1e-3)
    raan, argp, nu = vc.real("raan", 0.0, TWO_PI - 1e-9), vc.real("argp", 0.0, TWO_PI - 1e-9), vc.real("nu", 0.0, TWO_PI - 1e-9)
    name = ["general", "circular", "equatorial", "circular-equatorial", "retrograde", "equatorial-retrograde", "circular-equatorial-retrograde", "polar", "near-parabolic"][kind]
    if "circular" in name:
        ecc, argp = 0.0, 0.0
    if "equatorial" in name:
        inc, raan = (np.pi if "retrograde" in name else 0.0), 0.0
    elif name == "retrograde":
        inc = np.pi / 2 + abs(inc - np.pi / 2) if inc != np.pi / 2 else 2.0
    elif name == "polar":
        inc = np.pi / 2
    elif name == "near-parabolic":
        ecc = 0.9 + 0.06 * (ecc / 0.9)   # up to 0.96 (the equinoctial Kepler solve above that: B-C12-kepler.equinoctial-solve-high-eccentricity)
    sma = 6700.0 / (1 - ecc) * (sma / 70000.0)   # perigee radius 6700 .. 8600 km
    return name, (sma, ecc, inc, raan, argp, nu)


def _state_close(a, b):
    a, b = np.asarray(a, float), np.asarray(b, float)
    return bool(np.abs(a[:3] - b[:3]).max() <= 1e-6 * (1 + np.abs(b[:3]).max()) and np.abs(a[3:] - b[3:]).max() <= 1e-6 * (1 + np.abs(b[3:]).max()))


@obligation("C12", "roundtrip_bounded", ensures=["B-C12-roundtrip.coe", "B-C12-roundtrip.coe-elements", "B-C12-roundtrip.coe-ranges", "B-C12-roundtrip.eqe", "B-C12-roundtrip.eqe-retro",
                                                  "B-C12-roundtrip.coe-eqe-agree", "B-C12-roundtrip.classes", "B-C12-roundtrip.config-three-ways", "B-C12-roundtrip.invariants"],
            fns=[CV + "coe2eci", CV + "eci2coe", CV + "coe2eqe", CV + "eqe2coe", CV + "eci2eqe", CV + "eqe2eci", EL + "ClassicalElements.fromECI", EL + "EquinoctialElements.fromECI",
                 EL + "EquinoctialElements.fromCOE", EL + "ClassicalElements.fromEQE"], mode="R", native_only=True, samples=900,
            bounded="BOUNDED stand-in, not a proof: 900 (quick) / 9000 (thorough) sampled bound orbits per run on the real functions, one ninth each general, circular, equatorial, "
                    "circular-equatorial, retrograde, equatorial-retrograde (i = pi exactly), circular-equatorial-retrograde, polar and e in [0.9, 0.96]; the composed round trips go "
                    "through nested arccos / quadrant fixes and two Newton solves, outside what the solvers decided (the pieces are under contract above)",
            note="Cartesian -> classical -> Cartesian and Cartesian -> equinoctial -> Cartesian reproduce the state (1e-6 relative), elements of an element-built state come back (angles "
                 "modulo a turn), returned angles lie in their documented ranges, classical <-> equinoctial agrees with both routes, the element classes' fromECI(...).toECI() and "
                 "fromCOE/fromEQE do the same including the retrograde set, and one orbit described as Cartesian, classical or equinoctial configuration yields one initial state")
def roundtrip_bounded(vc):
    from resonaate.physics.orbits import conversions as C_, elements as E_
    name, coe = _orbit_sample(vc)
    sma, ecc, inc, raan, argp, nu = coe
    x = C_.coe2eci(*coe)
    back = C_.eci2coe(x)
    vc.ensure("B-C12-roundtrip.coe", _state_close(C_.coe2eci(*back), x))
    el_ok = abs(back[0] - sma) <= 1e-6 * sma and abs(back[1] - ecc) <= 1e-9 and abs(back[2] - inc) <= 1e-7
    if name in ("general", "retrograde", "polar", "near-parabolic"):
        el_ok = el_ok and all(_wrapdiff(back[3 + i], coe[3 + i]) <= 1e-6 / max(ecc, 1e-3) for i in range(3))
    vc.ensure("B-C12-roundtrip.coe-elements", bool(el_ok))
    vc.ensure("B-C12-roundtrip.coe-ranges", bool(back[0] > 0 and 0 <= back[1] < 1 and 0 <= back[2] <= np.pi and all(0 <= back[3 + i] <= TWO_PI for i in range(3))))
    h = np.cross(x[:3], x[3:])
    energy = 0.5 * x[3:].dot(x[3:]) - _EARTH_MU / np.linalg.norm(x[:3])
    vc.ensure("B-C12-roundtrip.invariants", bool(abs(energy + _EARTH_MU / (2 * sma)) <= 1e-9 * abs(energy) and abs(np.linalg.norm(h) - np.sqrt(_EARTH_MU * sma * (1 - ecc ** 2))) <= 1e-9 * np.linalg.norm(h)
                                                 and abs(h[2] - np.linalg.norm(h) * np.cos(inc)) <= 1e-9 * np.linalg.norm(h)))
    retro_needed = inc > np.pi - 1e-6
    # equinoctial: the direct set is singular at i = pi, the retrograde set at i = 0
    if not retro_needed:
        q = C_.eci2eqe(x)
        vc.ensure("B-C12-roundtrip.eqe", _state_close(C_.eqe2eci(*q), x))
        q2 = C_.coe2eqe(*back)
        vc.ensure("B-C12-roundtrip.coe-eqe-agree", _state_close(C_.eqe2eci(*q2), x) and _state_close(C_.coe2eci(*C_.eqe2coe(*q)), x))
    else:
        vc.ensure("B-C12-roundtrip.eqe", True)
        vc.ensure("B-C12-roundtrip.coe-eqe-agree", True)
    if inc > 1e-6:
        qr = C_.eci2eqe(x, retro=True)
        ok = _state_close(C_.eqe2eci(*qr, retro=True), x)
        ok = ok and _state_close(C_.eqe2eci(*C_.coe2eqe(*back, retro=True), retro=True), x) and _state_close(C_.coe2eci(*C_.eqe2coe(*qr, retro=True)), x)
        vc.ensure("B-C12-roundtrip.eqe-retro", ok)
    else:
        vc.ensure("B-C12-roundtrip.eqe-retro", True)
    retro = bool(retro_needed or (vc.bool("use_retro_set") and inc > 1e-6))
    ok = _state_close(E_.ClassicalElements.fromECI(x).toECI(), x)
    ok = ok and _state_close(E_.EquinoctialElements.fromECI(x, retro=retro).toECI(), x)
    ok = ok and _state_close(E_.EquinoctialElements.fromCOE(*back, retro=retro).toECI(), x)
    qq = C_.eci2eqe(x, retro=retro)
    ok = ok and _state_close(E_.ClassicalElements.fromEQE(*qq, retro=retro).toECI(), x)
    vc.ensure("B-C12-roundtrip.classes", ok)
    # one orbit, three configuration descriptions
    from resonaate.scenario.config.state_config import COEStateConfig, ECIStateConfig, EQEStateConfig
    import datetime
    now = datetime.datetime(2021, 3, 30, 12)
    deg = 180.0 / np.pi
    kw = dict(semi_major_axis=float(back[0]), eccentricity=float(back[1]), inclination=float(back[2]) * deg)
    w360 = lambda a: float(a * deg) % 360.0
    if name in ("general", "retrograde", "polar", "near-parabolic"):
        kw.update(right_ascension=w360(back[3]), argument_periapsis=w360(back[4]), true_anomaly=w360(back[5]))
    elif name in ("equatorial", "equatorial-retrograde"):
        kw.update(true_longitude_periapsis=w360(back[4]), true_anomaly=w360(back[5]))
    elif name == "circular":
        kw.update(right_ascension=w360(back[3]), argument_latitude=w360(back[5]))
    else:
        kw.update(true_longitude=w360(back[5]))
    s_eci = ECIStateConfig(type="eci", position=[float(v) for v in x[:3]], velocity=[float(v) for v in x[3:]]).toECI(now)
    s_coe = COEStateConfig(type="coe", **kw).toECI(now)
    s_eqe = EQEStateConfig(type="eqe", semi_major_axis=float(qq[0]), h=float(qq[1]), k=float(qq[2]), p=float(qq[3]), q=float(qq[4]), mean_longitude=w360(qq[5]), retrograde=retro).toECI(now)
    vc.ensure("B-C12-roundtrip.config-three-ways", _state_close(s_eci, x) and _state_close(s_coe, x) and _state_close(s_eqe, x))


@obligation("C12", "kepler_bounded", ensures=["B-C12-kepler.residual", "B-C12-kepler.mean-true-inverse", "B-C12-kepler.longitude-residual", "B-C12-kepler.sma-from-mean-motion"],
            fns=[AN + "meanAnom2EccAnom", AN + "meanAnom2TrueAnom", AN + "trueAnom2MeanAnom", AN + "meanLong2EccLong", AN + "eccLong2MeanLong", UT + "getSmaFromMeanMotion"], mode="R",
            native_only=True, samples=600,
            bounded="BOUNDED stand-in, not a proof: 600 (quick) / 6000 (thorough) sampled (angle, eccentricity) pairs per run, e from 0 to 0.96 incl. the circular limit (0.97-0.99: kepler_high_ecc_bounded); the result "
                    "of scipy's Newton iteration is assumed, not decided",
            note="the iterative solves satisfy Kepler's equation (|E - e sin E - M| and |F + h cos F - k sin F - lambda| below 1e-9 modulo a turn), mean <-> true anomaly are mutually "
                 "inverse, and the semi-major axis recovered from the mean motion is the one it was computed from")
def kepler_bounded(vc):
    from resonaate.physics.orbits import anomaly as A_, utils as U_
    M = vc.real("M", -10.0, 10.0, special=[0.0, np.pi, TWO_PI, -np.pi])
    e = vc.real("e", 0.0, 0.96, special=[0.0, 1e-8, 1e-7, 0.5, 0.96])   # (0.97 .. 0.99: kepler_high_ecc_bounded, where the equinoctial solve has a known finding)
    E = A_.meanAnom2EccAnom(M, e)
    ref = E - e * np.sin(E) if e >= 1e-7 else E
    vc.ensure("B-C12-kepler.residual", bool(0 <= E <= TWO_PI and _wrapdiff(ref, M) <= 1e-9))
    nu = A_.meanAnom2TrueAnom(M, e)
    vc.ensure("B-C12-kepler.mean-true-inverse", bool(_wrapdiff(A_.trueAnom2MeanAnom(nu, e), M) <= 1e-8 and _wrapdiff(A_.meanAnom2TrueAnom(A_.trueAnom2MeanAnom(M, e), e), M) <= 1e-7 / (1 - e)))
    th = vc.real("th", 0.0, TWO_PI)
    h, k = e * np.sin(th), e * np.cos(th)
    F = A_.meanLong2EccLong(M, h, k)
    ref = F + h * np.cos(F) - k * np.sin(F) if np.sqrt(h * h + k * k) >= 1e-7 else F
    vc.ensure("B-C12-kepler.longitude-residual", bool(0 <= F <= TWO_PI and _wrapdiff(ref, M) <= 1e-9 and _wrapdiff(A_.eccLong2MeanLong(F, h, k), M) <= 1e-9))
    a = vc.real("a", 6600.0, 1e5)
    vc.ensure("B-C12-kepler.sma-from-mean-motion", bool(abs(U_.getSmaFromMeanMotion(U_.getMeanMotion(a)) / a - 1) <= 1e-12))


@obligation("C12", "coe_invariants", ensures=["O-C12-chain.radius", "O-C12-chain.angular-momentum", "O-C12-chain.radial-rate", "O-C12-chain.speed", "O-C12-chain.node",
                                               "O-C12-chain.cut-norms", "O-C12-chain.eccentricity-numerator", "O-C12-chain.periapsis-direction"],
            fns=[CV + "coe2eci", UT + "getAngularMomentum", UT + "getLineOfNodes", MA + "rot1", MA + "rot3"], mode="R", ax_shift=True, timeout_ms=120000,
            note="first link of the round trip elements -> state -> elements, on the real coe2eci: the state it returns has |r| = p/(1 + e cos nu), r.v = sqrt(mu/p) |r| e sin nu, "
                 "|v|^2 = (mu/p)(1 + 2 e cos nu + e^2) (hence vis-viva with a), angular momentum sqrt(mu p)(sin raan sin i, -cos raan sin i, cos i) and node vector "
                 "sqrt(mu p) sin i (cos raan, sin raan, 0): the eccentricity-vector numerator is mu e P with P the unit periapsis direction (P.r = |r| cos nu, P_z = sin argp sin i, n.P = cos argp): exactly the quantities the helpers of "
                 "eci2coe work from (O-C12-eci2coe.*, O-C12-angles.*). The LAST link - the real helpers on abstract vectors with these invariants, through sqrt and arccos - was tried and "
                 "stayed undecided in z3/cvc5 (10 min), so the composed round trip remains a bounded stand-in")
def coe_invariants(vc):
    sma = vc.real("sma", 6500.0, 1e5)
    e = vc.real("e", 0.0, 0.99, special=[0.0, 0.5])
    inc = vc.angle("inc", 0.0, np.pi, special=[0.0, np.pi, np.pi / 2])
    raan = vc.angle("raan", 0.0, TWO_PI, special=[0.0])
    argp = vc.angle("argp", 0.0, TWO_PI, special=[0.0])
    nu = vc.angle("nu", 0.0, TWO_PI, special=[0.0, np.pi])
    mu = vc.real("mu", 1.0, 1e6, special=[398600.4418])
    x = vc.fn(CV + "coe2eci")(sma, e, inc, raan, argp, nu, mu=mu)
    r, v = x[:3], x[3:]
    c, s = vc.cos(nu), vc.sin(nu)
    p = sma * (1.0 - e * e)
    d = 1.0 + e * c
    rm = p / d
    q = vc.sqrt(mu / p)
    if vc.symbolic:
        vc.cut("O-C12-chain.cut-norms", vc.And(d > 0, p > 0, q > 0, vc.eq(q * q * p, mu)))
    else:
        vc.ensure("O-C12-chain.cut-norms", d > 0 and p > 0)
    rr = r[0] * r[0] + r[1] * r[1] + r[2] * r[2]
    rv = r[0] * v[0] + r[1] * v[1] + r[2] * v[2]
    vv = v[0] * v[0] + v[1] * v[1] + v[2] * v[2]
    scale = 1e5
    vc.ensure("O-C12-chain.radius", vc.eq(rr, rm * rm) if vc.symbolic else abs(rr - rm * rm) <= 1e-9 * rm * rm)
    vc.ensure("O-C12-chain.radial-rate", vc.eq(rv, q * rm * e * s) if vc.symbolic else abs(rv - q * rm * e * s) <= 1e-9 * (1 + abs(q * rm)))
    vc.ensure("O-C12-chain.speed", vc.eq(vv, q * q * (1 + 2 * e * c + e * e)) if vc.symbolic else abs(vv - q * q * (1 + 2 * e * c + e * e)) <= 1e-9 * vv)
    h = vc.fn(UT + "getAngularMomentum")(r, v)
    H = q * p
    ci, si, cO, sO = vc.cos(inc), vc.sin(inc), vc.cos(raan), vc.sin(raan)
    want_h = [H * sO * si, -H * cO * si, H * ci]
    vc.ensure("O-C12-chain.angular-momentum", vc.And(*[vc.eq(h[i], want_h[i]) for i in range(3)]) if vc.symbolic else all(abs(h[i] - want_h[i]) <= 1e-9 * H for i in range(3)))
    n = vc.fn(UT + "getLineOfNodes")(h)
    want_n = [H * si * cO, H * si * sO, 0.0]
    vc.ensure("O-C12-chain.node", vc.And(*[vc.eq(n[i], want_n[i]) for i in range(3)]) if vc.symbolic else all(abs(n[i] - want_n[i]) <= 1e-9 * H for i in range(3)))
    # the numerator of the eccentricity vector, (v^2 - mu/|r|) r - (r.v) v, is mu e P with P the periapsis direction (first column of the textbook matrix); cleared of denominators
    cw, sw = vc.cos(argp), vc.sin(argp)
    P = [cO * cw - sO * sw * ci, sO * cw + cO * sw * ci, sw * si]
    v2 = q * q * (1 + 2 * e * c + e * e)
    k = q * rm * e * s
    num = [(v2 * rm - mu) * r[i] - k * rm * v[i] for i in range(3)]
    vc.ensure("O-C12-chain.eccentricity-numerator", vc.And(*[vc.eq(num[i], mu * e * P[i] * rm) for i in range(3)]) if vc.symbolic
              else all(abs(num[i] - mu * e * P[i] * rm) <= 1e-9 * mu * rm for i in range(3)))
    Pr = P[0] * r[0] + P[1] * r[1] + P[2] * r[2]
    vc.ensure("O-C12-chain.periapsis-direction", vc.And(vc.eq(P[0] * P[0] + P[1] * P[1] + P[2] * P[2], 1), vc.eq(Pr, rm * c), vc.eq(P[2], sw * si),
                                                        vc.eq(cO * P[0] + sO * P[1], cw)) if vc.symbolic else abs(Pr - rm * c) <= 1e-9 * rm)


@obligation("C12", "kepler_high_ecc_bounded", ensures=["B-C12-kepler.classical-solve-high-eccentricity", "B-C12-kepler.equinoctial-solve-high-eccentricity"],
            fns=[AN + "meanAnom2EccAnom", AN + "meanLong2EccLong", KP + "keplerSolveCOE", KP + "keplerSolveEQE"], mode="R", native_only=True, samples=400,
            bounded="BOUNDED stand-in, not a proof: 400 (quick) / 4000 (thorough) sampled (mean angle, direction of periapsis) pairs per run at e in [0.97, 0.99]",
            note="nearly parabolic bound orbits: both iterative solves return (no exception) an angle that satisfies Kepler's equation to 1e-9")
def kepler_high_ecc_bounded(vc):
    from resonaate.physics.orbits import anomaly as A_
    M = vc.real("M", 0.0, TWO_PI, special=[2.079])
    e = vc.real("e", 0.97, 0.99, special=[0.99])
    th = vc.real("th", 0.0, TWO_PI, special=[2.183])
    if vc.bool("recorded_witness"):   # the recorded witness of the known finding is part of every run
        M, e, th = 2.079, 0.99, 2.183
    try:
        E = A_.meanAnom2EccAnom(M, e)
        ok = _wrapdiff(E - e * np.sin(E), M) <= 1e-9
    except Exception:  # noqa: BLE001
        ok = False
    vc.ensure("B-C12-kepler.classical-solve-high-eccentricity", bool(ok))
    h, k = e * np.sin(th), e * np.cos(th)
    try:
        F = A_.meanLong2EccLong(M, h, k)
        ok = _wrapdiff(F + h * np.cos(F) - k * np.sin(F), M) <= 1e-9
    except Exception:  # noqa: BLE001
        ok = False
    vc.ensure("B-C12-kepler.equinoctial-solve-high-eccentricity", bool(ok))


@obligation("C12", "coe2eqe_def", ensures=["O-C12-coe2eqe.definition", "O-C12-coe2eqe.mean-longitude", "O-C12-eqe2coe.closed-form"],
            fns=[CV + "coe2eqe", CV + "eqe2coe"], mode="R", ax_shift=True, timeout_ms=60000,
            note="coe2eqe returns the documented equinoctial set for the direct (I = +1) and the retrograde (I = -1) convention: h = e sin(argp + I raan), k = e cos(argp + I raan), "
                 "p = tan(i/2)^I sin raan, q = tan(i/2)^I cos raan, semi-major axis unchanged, mean longitude = trueAnom2MeanLong(nu, e, raan, argp, retro) (its own contract: "
                 "O-C12-composite.true-to-mean-long); eqe2coe hands (e, i, atan2(p, q), atan2(h, k) - I raan, meanLong2TrueAnom(...)) to singularityCheck, with e and i from their helpers")
def coe2eqe_def(vc):
    sma = vc.real("sma", 6500.0, 1e5)
    e = vc.real("e", 0.0, 0.95)
    inc = vc.angle("inc", 0.01, np.pi - 0.01)
    raan = vc.angle("raan", 0.0, TWO_PI)
    argp = vc.angle("argp", 0.0, TWO_PI)
    nu = vc.angle("nu", 0.0, TWO_PI)
    retro = vc.bool("retro")
    II = -1 if retro else 1
    ml = vc.angle("mean_long_out", 0.0, 6.0)
    seen = []
    vc.install(CV + "@trueAnom2MeanLong", lambda *a, **k: (seen.append((a, k)), ml)[1])
    out = vc.fn(CV + "coe2eqe")(sma, e, inc, raan, argp, nu, retro=retro)
    half = inc / 2
    sh, ch = vc.sin(half), vc.cos(half)
    if vc.symbolic:
        vc.assume(vc.And(sh > 0, ch > 0))
    t = (ch / sh) if retro else (sh / ch)
    lon = argp + II * raan
    tol = 1e-9
    vc.ensure("O-C12-coe2eqe.definition", vc.And(len(out) == 6, vc.close(out[0], sma, 0.0), vc.close(out[1], e * vc.sin(lon), tol), vc.close(out[2], e * vc.cos(lon), tol),
                                                 vc.close(out[3] * (sh if retro else ch), (ch if retro else sh) * vc.sin(raan), tol) if vc.symbolic else vc.close(out[3], t * vc.sin(raan), 1e-7 * (1 + abs(t))),
                                                 vc.close(out[4] * (sh if retro else ch), (ch if retro else sh) * vc.cos(raan), tol) if vc.symbolic else vc.close(out[4], t * vc.cos(raan), 1e-7 * (1 + abs(t)))))
    (a, k), = seen
    vc.ensure("O-C12-coe2eqe.mean-longitude", vc.And(out[5] is ml, len(a) == 4, vc.close(a[0], nu, 0.0), vc.close(a[1], e, 0.0), vc.close(a[2], raan, 0.0), vc.close(a[3], argp, 0.0), k.get("retro") is retro))
    # eqe2coe: what reaches singularityCheck
    h, kk, p, q = vc.real("h", -0.6, 0.6), vc.real("k", -0.6, 0.6), vc.real("p", -2, 2), vc.real("q", -2, 2)
    lam = vc.angle("lam", 0.0, TWO_PI)
    ecc_h, inc_h, nu_h = vc.real("ecc_h", 0.0, 0.9), vc.angle("inc_h", 0.01, 3.0), vc.angle("nu_h", 0.0, 6.0)
    calls = {}
    vc.install(CV + "@getEccentricityFromEQE", lambda *a, **k2: (calls.__setitem__("ecc", (a, k2)), ecc_h)[1])
    vc.install(CV + "@getInclinationFromEQE", lambda *a, **k2: (calls.__setitem__("inc", (a, k2)), inc_h)[1])
    vc.install(CV + "@meanLong2TrueAnom", lambda *a, **k2: (calls.__setitem__("nu", (a, k2)), nu_h)[1])
    ret = (vc.angle("r0", 0, 6), vc.angle("r1", 0, 6), vc.angle("r2", 0, 6))
    vc.install(CV + "@singularityCheck", lambda *a: (calls.__setitem__("sing", a), ret)[1])
    res = vc.fn(CV + "eqe2coe")(sma, h, kk, p, q, lam, retro=retro)
    raan_w = vc.arctan2(p, q)
    argp_w = vc.arctan2(h, kk) - II * raan_w
    s_ = calls.get("sing", (None,) * 5)
    n_ = calls.get("nu", ((None,) * 4, {}))
    ok = vc.And(len(res) == 6, vc.close(res[0], sma, 0.0), res[1] is ecc_h, res[2] is inc_h, res[3] is ret[0], res[4] is ret[1], res[5] is ret[2],
                s_[0] is ecc_h, s_[1] is inc_h, vc.close(s_[2], raan_w, 1e-12), vc.close(s_[3], argp_w, 1e-12), s_[4] is nu_h,
                vc.close(calls["ecc"][0][0], h, 0.0), vc.close(calls["ecc"][0][1], kk, 0.0), vc.close(calls["inc"][0][0], p, 0.0), vc.close(calls["inc"][0][1], q, 0.0),
                calls["inc"][1].get("retro") is retro, vc.close(n_[0][0], lam, 0.0), n_[0][1] is ecc_h, vc.close(n_[0][2], raan_w, 1e-12), vc.close(n_[0][3], argp_w, 1e-12),
                n_[1].get("retro") is retro)
    vc.ensure("O-C12-eqe2coe.closed-form", ok)
