"""C15 -- finite burns thrust for exactly their configured interval."""
import numpy as np
import z3
from functools import partial
from pyvc.harness import obligation
from pyvc import sym

FT = "resonaate.dynamics.integration_events.finite_thrust:"
CE = "resonaate.dynamics.celestial:"
AB = "resonaate.agents.agent_base:"
IVP = ["scipy solve_ivp event contract: a terminal event with direction 0 stops the integration inside a step iff its function is zero at, or changes sign across, that step; the reported root is within the root finder's tolerance (|t - t_root| <= 1e-9 s) of the crossing"]


class _NS:
    def __init__(self, **kw):
        self.__dict__.update(kw)


_FUNC = _NS(func="thrust-function")


def _event(vc, ts, te, func=_FUNC, thrusting=False):
    return vc.new(FT + "ScheduledFiniteBurn", start_time=ts, end_time=te, thrust_func=func, agent_id=1, _thrusting=thrusting)


@obligation("C15", "signs", ensures=["O-C15-signs.start", "O-C15-signs.end", "O-C15-signs.nowhere-else", "O-C15-signs.zero-at-both-ends"], fns=[FT + "ScheduledFiniteThrust.__call__"], mode="R",
            assumes=IVP, note="while the thrust is off the event function changes sign across the start of the interval (however far the integrator steps beyond it) and nowhere else; once the thrust is on it changes sign across the end of the interval and nowhere else - so the integrator stops at both ends wherever they fall relative to the step grid")
def signs(vc):
    ts = vc.real("ts", 0, 1e6)
    dur = vc.real("dur", 1e-3, 1e5)
    te = ts + dur
    t1 = vc.real("t1", -10, 2e6)
    t2 = vc.real("t2", -10, 2e6)
    vc.assume(t1 < t2)
    off, on = _event(vc, ts, te), _event(vc, ts, te, thrusting=True)
    eps = 1e-12
    g1, g2 = off(t1, None), off(t2, None)
    vc.ensure("O-C15-signs.start", vc.implies(vc.And(t1 < ts - eps, t2 > ts + eps, abs(t2 - te) > eps), g1 * g2 < 0))
    h1, h2 = on(t1, None), on(t2, None)
    vc.ensure("O-C15-signs.end", vc.implies(vc.And(t1 > ts + eps, t1 < te - eps, t2 > te + eps), h1 * h2 < 0))
    same_side_off = vc.And(vc.Or(t2 < ts - eps, t1 > ts + eps), abs(t1 - te) > eps, abs(t2 - te) > eps)
    same_side_on = vc.And(vc.Or(t2 < te - eps, t1 > te + eps), abs(t1 - ts) > eps, abs(t2 - ts) > eps)
    vc.ensure("O-C15-signs.nowhere-else", vc.And(vc.implies(same_side_off, g1 * g2 > 0), vc.implies(same_side_on, h1 * h2 > 0)))
    # at the exact start and the exact end the function is zero WHATEVER the event remembers about being on or off (an integration that begins exactly
    # on the start - the previous call stopped there - must fire at once, also when the same event object already switched on at the end of that call)
    vc.ensure("O-C15-signs.zero-at-both-ends", vc.And(vc.eq(off(ts, None), 0), vc.eq(on(ts, None), 0), vc.eq(off(te, None), 0), vc.eq(on(te, None), 0)))


@obligation("C15", "toggle", ensures=["O-C15-toggle.start", "O-C15-toggle.end", "O-C15-toggle.zero-length"], fns=[FT + "ScheduledFiniteThrust.getStateChangeCallback"], mode="R", assumes=IVP,
            note="at a root reported near the start crossing the callback is the thrust function (and the event starts watching for the end), near the end crossing it is None (and the event stops watching) - for any root within the root finder's tolerance (1e-9 s), not only a bit-exact one")
def toggle(vc):
    ts = vc.real("ts", 0, 1e6)
    dur = vc.real("dur", 1e-3, 1e5)
    te = ts + dur
    err = vc.real("err", -1e-9, 1e-9)
    vc.stub(FT + "@EventStack", _NS(pushEvent=lambda rec: None))
    vc.stub(FT + "@EventRecord", lambda *a: None)
    ev = _event(vc, ts, te)
    r1 = ev.getStateChangeCallback(ts + err)
    vc.ensure("O-C15-toggle.start", r1 is ev.thrust_func and ev._thrusting is True)
    r2 = ev.getStateChangeCallback(te + err)
    vc.ensure("O-C15-toggle.end", r2 is None and ev._thrusting is False)
    # a zero-length interval (an event configured without an end time: end = start) delivers nothing: the only switch it ever makes is "off"
    z = _event(vc, ts, ts)
    r3 = z.getStateChangeCallback(ts + err)
    vc.ensure("O-C15-toggle.zero-length", r3 is None and z._thrusting is False)


@obligation("C15", "rearm", ensures=["O-C15-rearm.inside", "O-C15-rearm.outside", "O-C15-rearm.events", "O-C15-rearm.watches"], fns=[CE + "Celestial._prepEvents", FT + "ScheduledFiniteThrust.getStateChangeCallback", FT + "ScheduledFiniteThrust.__call__"],
            mode="R", note="at the start of every propagation call the thrust is on iff the call starts strictly inside the interval (up to the last microsecond), off otherwise; the burn is always handed to the integrator as an event; and the event handed over (a fresh copy in a worker: its own on/off memory starts off) watches the END of the interval when the call starts inside it and the START when it starts before it - so a burn that is re-armed at a step boundary still stops inside a later step")
def rearm(vc):
    import resonaate.dynamics.integration_events.finite_thrust as ft
    ts = vc.real("ts", 0, 1e6)
    dur = vc.real("dur", 1e-3, 1e5)
    te = ts + dur
    t0 = vc.real("t0", 0, 2e6)
    vc.assume(t0 < te + 5)  # (this call starts before the later burn queued behind the first one does)
    if vc.symbolic:
        vc.stub(FT + "@EventStack", _NS(pushEvent=lambda rec: None))
        vc.stub(FT + "@EventRecord", lambda *a: None)
        ev = _event(vc, ts, te)
        C = vc.cls(FT + "ScheduledFiniteBurn")
        vc.stub(CE + "@isinstance", lambda o, t: (t is ft.ScheduledFiniteThrust and isinstance(o, C)) or isinstance(o, t))
        dyn = vc.new("resonaate.dynamics.special_perturbations:SpecialPerturbations", finite_thrust="STALE")
        later = _event(vc, te + 10, te + 20)  # another burn of the same agent that has not started yet, queued behind this one
        events = dyn._prepEvents(t0, None, [ev, later])
        events = [e for e in events if e is not later] if (len(events) == 2 and events[1] is later) else events + ["unexpected-event-list"]
    else:
        from resonaate.dynamics.two_body import TwoBody
        vc.install(FT + "@EventStack", _NS(pushEvent=lambda rec: None))
        ev = ft.ScheduledFiniteBurn(ts, te, partial(ft.eciBurn, acc_vector=np.zeros(3)), 1)
        later = ft.ScheduledFiniteBurn(te + 10, te + 20, partial(ft.eciBurn, acc_vector=np.ones(3)), 1)
        dyn = TwoBody()
        dyn.finite_thrust = "STALE"
        events = dyn._prepEvents(t0, None, [ev, later])
        events = [e for e in events if e is not later] if (len(events) == 2 and events[1] is later) else events + ["unexpected-event-list"]
        vc.assume(abs(t0 - ts) > 1e-9 and abs(te - t0 - 1e-6) > 1e-9 and abs(te - t0) > 1e-9)
    # the event function the integrator will see during this call, at any later time tq that is not (numerically) one of the two ends
    tq = t0 + vc.real("later", 1e-3, 1e5)
    if vc.symbolic:
        vc.assume(vc.And(abs(tq - ts) > 1e-3, abs(tq - te) > 1e-3))
    else:
        vc.assume(abs(tq - ts) > 1e-3 and abs(tq - te) > 1e-3)
    g = ev(tq, None)
    vc.ensure("O-C15-rearm.watches", vc.And(vc.implies(vc.And(t0 > ts, t0 < te - 1e-5), vc.eq(g, te - tq, 0 if vc.symbolic else 1e-9)),
                                            vc.implies(t0 < ts, vc.eq(g, ts - tq, 0 if vc.symbolic else 1e-9))))
    func = ev.thrust_func
    vc.ensure("O-C15-rearm.inside", vc.implies(vc.And(t0 > ts, t0 < te - 1e-5), dyn.finite_thrust is func))
    vc.ensure("O-C15-rearm.outside", vc.implies(vc.Or(t0 <= ts, t0 >= te), dyn.finite_thrust is None))
    vc.ensure("O-C15-rearm.events", len(events) == 1 and events[0] is ev)


@obligation("C15", "apply", ensures=["O-C15-apply.toggle", "O-C15-apply.no-state-jump"], fns=[CE + "Celestial._applyEvents"], mode="R", assumes=IVP,
            note="when the integrator stops on the burn's event the thrust state is switched by the callback evaluated at the LAST reported root, and a finite burn never changes the state discontinuously")
def apply_(vc):
    import resonaate.dynamics.integration_events.finite_thrust as ft
    asked = []

    class Ev(ft.ScheduledFiniteThrust if not vc.symbolic else object):
        valid_thrust_funcs = ()

        def __init__(self):
            pass

        def getStateChangeCallback(self, t):
            asked.append(t)
            return "CB"
    ev = Ev()
    vc.stub(CE + "@isinstance", lambda o, t: (t is ft.ScheduledFiniteThrust and isinstance(o, Ev)) or isinstance(o, t))
    dyn = vc.new("resonaate.dynamics.special_perturbations:SpecialPerturbations", finite_thrust=None)
    t1, t2 = vc.real("r1", 0, 10), vc.real("r2", 10, 20)
    state = vc.mat("X", 6, 1, -1e4, 1e4)
    out = dyn._applyEvents([np.array([t1, t2], dtype=object)], [ev], state.copy())
    vc.ensure("O-C15-apply.toggle", vc.And(dyn.finite_thrust == "CB", len(asked) == 1, asked[0] is t2))
    vc.ensure("O-C15-apply.no-state-jump", vc.eq(out, state))
    dyn2 = vc.new("resonaate.dynamics.special_perturbations:SpecialPerturbations", finite_thrust="KEEP")
    dyn2._applyEvents([np.array([], dtype=object)], [ev], state.copy())
    vc.ensure("O-C15-apply.toggle", dyn2.finite_thrust == "KEEP")
    # another event of the same agent (an impulse) stops the integrator in the middle of the burn: the thrust stays on, the impulse is applied
    dv = vc.mat("dv", 6, 1, -1, 1)
    other = _NS(getStateChange=lambda t, x: dv[:, 0])
    dyn3 = vc.new("resonaate.dynamics.special_perturbations:SpecialPerturbations", finite_thrust="KEEP")
    out3 = dyn3._applyEvents([np.array([], dtype=object), np.array([t1], dtype=object)], [ev, other], state.copy())
    vc.ensure("O-C15-apply.toggle", dyn3.finite_thrust == "KEEP")
    vc.ensure("O-C15-apply.no-state-jump", vc.eq(out3, state + dv))


@obligation("C15", "prune", ensures=["O-C15-prune.keep", "O-C15-prune.drop", "O-C15-prune.nodup", "O-C15-prune.independent"], fns=[AB + "Agent.prunePropagateEvents"], mode="R",
            note="a finite burn stays in the agent's propagation queue exactly while the agent's time is before its end (so every step overlapping the interval sees it), is dropped afterwards, and is never queued twice; this holds for each queued burn independently of the others (queue: burn, a second burn with its own interval, the first burn again), in queue order")
def prune(vc):
    import resonaate.dynamics.integration_events.finite_thrust as ft
    ts = vc.real("ts", 0, 1e6)
    dur = vc.real("dur", 1e-3, 1e5)
    te = ts + dur
    now = vc.real("now", 0, 2e6)
    if vc.symbolic:
        ev = _event(vc, ts, te)
        C = vc.cls(FT + "ScheduledFiniteBurn")
        vc.stub(AB + "@isinstance", lambda o, t: (isinstance(t, tuple) and ft.ScheduledFiniteBurn in t and isinstance(o, C)) or (t is ft.ScheduledFiniteThrust and isinstance(o, C)) or isinstance(o, t))
        vc.stub(FT + "@isinstance", lambda o, t: (t is ft.ScheduledFiniteThrust and isinstance(o, C)) or isinstance(o, t))
        ts2 = vc.real("ts2", 0, 1e6)
        te2 = ts2 + vc.real("dur2", 1e-3, 1e5)
        ev2 = _event(vc, ts2, te2)  # same agent, same thrust function: a different burn only by its interval
        vc.assume(vc.Or(abs(ts2 - ts) > 1e-3, abs(te2 - te) > 1e-3))
        ag = vc.new(AB + "Agent", _time=now, propagate_event_queue=[ev, ev2, ev])
    else:
        f = partial(ft.eciBurn, acc_vector=np.zeros(3))
        ev = ft.ScheduledFiniteBurn(ts, te, f, 1)
        ts2 = vc.real("ts2", 0, 1e6)
        te2 = ts2 + vc.real("dur2", 1e-3, 1e5)
        ev2 = ft.ScheduledFiniteBurn(ts2, te2, partial(ft.eciBurn, acc_vector=np.ones(3)), 1)
        vc.assume(abs(ts2 - ts) > 1e-3 or abs(te2 - te) > 1e-3)
        ag = vc.new(AB + "Agent", _time=now, propagate_event_queue=[ev, ev2, ft.ScheduledFiniteBurn(ts, te, f, 1)])
        vc.assume(abs(now - te) > 1e-9 and abs(now - te2) > 1e-9)
    ag.prunePropagateEvents()
    q = ag.propagate_event_queue
    n1, n2 = sum(1 for x in q if x is ev or (not vc.symbolic and x == ev)), sum(1 for x in q if x is ev2)
    vc.ensure("O-C15-prune.keep", vc.implies(now < te - 1e-9, n1 >= 1))
    vc.ensure("O-C15-prune.drop", vc.implies(now >= te, n1 == 0))
    vc.ensure("O-C15-prune.nodup", n1 <= 1 and n2 <= 1 and len(q) == n1 + n2)
    vc.ensure("O-C15-prune.independent", vc.And(vc.implies(now < te2 - 1e-9, n2 == 1), vc.implies(now >= te2, n2 == 0)))


@obligation("C15", "accel", ensures=["O-C15-accel.eci", "O-C15-accel.ntw", "O-C15-accel.maneuvers"], fns=[FT + "eciBurn", FT + "ntwBurn", FT + "spiralThrust", FT + "planeChangeThrust"],
            mode="R", note="while on, the acceleration handed to the force model is the configured constant vector (ECI frame) resp. its image under the orthonormal NTW basis of the current state (magnitude preserved: O-C04-ntw.orthonormal); spiral = +T, plane change = +-W by hemisphere")
def accel(vc):
    a = vc.vec("a", 3, -1e-3, 1e-3)
    if vc.symbolic:
        ref = vc.gstate("ref")
        rr, vv, rv = vc.dot(ref[:3], ref[:3]), vc.dot(ref[3:], ref[3:]), vc.dot(ref[:3], ref[3:])
        vc.assume(rr > 1)
        vc.assume(vv > 1e-8)
        vc.assume(rr * vv - rv * rv > 1e-6)
    else:
        ref = vc.gstate("ref")
    e = vc.fn(FT + "eciBurn")(ref, a)
    vc.ensure("O-C15-accel.eci", vc.And(vc.eq(e[:3], a), vc.eq(e[3:], np.zeros(3))))
    n = vc.fn(FT + "ntwBurn")(ref, a)
    ntw2eci = vc.fn("resonaate.physics.transforms.methods:ntw2eci")
    full = np.concatenate([a, np.zeros(3)])
    expect = ntw2eci(ref, full)
    vc.ensure("O-C15-accel.ntw", vc.And(vc.eq(n[:3], expect[:3], 1e-9), vc.eq(vc.dot(n[:3], n[:3]), vc.dot(a, a), 1e-9)))
    mag = vc.real("mag", 1e-9, 1e-3)
    sp = vc.fn(FT + "spiralThrust")(ref, mag)
    exp_sp = ntw2eci(ref, np.array([0, mag, 0, 0, 0, 0], dtype=object if vc.symbolic else float))
    ok = vc.eq(sp[:3], exp_sp[:3], 1e-9)
    if not vc.symbolic:  # plane change reads the z component: component state only in native mode
        pc = vc.fn(FT + "planeChangeThrust")(ref, mag)
        sgn = 1.0 if ref[2] >= 0 else -1.0
        ok = ok and vc.eq(pc[:3], ntw2eci(ref, np.array([0, 0, sgn * mag, 0, 0, 0]))[:3], 1e-9)
    vc.ensure("O-C15-accel.maneuvers", ok)


@obligation("C15", "multi_burn_bounded", ensures=["B-C15-multi.separate-burns", "B-C15-multi.back-to-back-later-first", "B-C15-multi.back-to-back-earlier-first"],
            fns=[CE + "Celestial.propagate", CE + "Celestial._applyEvents", CE + "Celestial._prepEvents", FT + "ScheduledFiniteThrust.__call__", FT + "ScheduledFiniteThrust.getStateChangeCallback"],
            mode="R", native_only=True, samples=12,
            bounded="BOUNDED stand-in, not a proof: 12 (quick) / 120 (thorough) random cases per run of the real perturbed propagator (J2 only) over 200 s with two finite burns on one agent, interval ends off the step grid "
                    "(several terminal events inside scipy's solve_ivp are outside the per-event contracts above)",
            note="two finite burns on one agent each deliver acceleration x duration: compared with a piecewise propagation with the thrust switched by hand. separate-burns: a gap of at least a millisecond between them; "
                 "back-to-back: the second starts at the bit-identical time the first ends, queued (later burn, earlier burn) resp. (earlier burn, later burn)")
def multi_burn_bounded(vc):
    import resonaate.dynamics.integration_events.finite_thrust as ft
    from resonaate.dynamics.special_perturbations import SpecialPerturbations
    from resonaate.physics.time.stardate import JulianDate
    from resonaate.common.labels import GeopotentialModel
    vc.install(FT + "@EventStack", _NS(pushEvent=lambda rec: None))
    rng = np.random.default_rng(vc.int("seed", 0, 10 ** 9))
    mk = lambda: SpecialPerturbations(JulianDate(2459000.5), _NS(model=GeopotentialModel.EGM96, degree=2, order=0),
                                      _NS(third_bodies=[], solar_radiation_pressure=False, general_relativity=False), 0.02)
    x0 = np.array([7000.0, 0.0, 0.0, 0.0, 7.546, 0.0])
    a1, a2 = rng.normal(size=3) * 1e-5, rng.normal(size=3) * 1e-5
    s1 = float(rng.uniform(5, 60))
    e1 = s1 + float(rng.uniform(10, 60))

    def run(gap, earlier_first):
        s2 = e1 + gap
        e2 = s2 + float(rng.uniform(10, 60))
        A = ft.ScheduledFiniteBurn(s1, e1, partial(ft.eciBurn, acc_vector=a1.copy()), 1)
        B = ft.ScheduledFiniteBurn(s2, e2, partial(ft.eciBurn, acc_vector=a2.copy()), 1)
        got = mk().propagate(0.0, 200.0, x0.copy(), scheduled_events=[A, B] if earlier_first else [B, A])
        # reference: the same force model with the thrust added by hand on each piece
        s, now = x0.copy(), 0.0
        for until, acc in ((s1, None), (e1, a1), (s2, None), (e2, a2), (200.0, None)):
            if until > now + 1e-9:
                d = mk()
                if acc is not None:
                    d.finite_thrust = lambda st, acc=acc: np.concatenate([acc, np.zeros(3)])
                    s = np.asarray(_piece(d, now, until, s))
                else:
                    s = d.propagate(now, until, s)
                now = until
        return float(np.linalg.norm(got[3:] - s[3:]))
    vc.ensure("B-C15-multi.separate-burns", run(float(rng.uniform(1e-3, 20)), True) < 1e-8 and run(float(rng.uniform(1e-3, 20)), False) < 1e-8)
    vc.ensure("B-C15-multi.back-to-back-later-first", run(0.0, False) < 1e-8)
    vc.ensure("B-C15-multi.back-to-back-earlier-first", run(0.0, True) < 1e-8)


def _piece(dyn, t0, t1, state):
    """integrate one piece with dyn.finite_thrust fixed (propagate() would reset it): scipy on the real derivative function"""
    from scipy.integrate import solve_ivp
    sol = solve_ivp(partial(dyn._differentialEquation, check_collision=True), (t0, t1), np.asarray(state, dtype=float), method="RK45", rtol=dyn.RELATIVE_TOL,
                    atol=dyn.ABSOLUTE_TOL * np.ones(6))
    return sol.y[:, -1]


FB = "resonaate.data.events.finite_burn:"
FM = "resonaate.data.events.finite_maneuver:"
SDT = "resonaate.physics.time.stardate:"


@obligation("C15", "queue_events", ensures=["O-C15-queue.burn-interval", "O-C15-queue.maneuver-interval", "O-C15-queue.thrust"],
            fns=[FB + "ScheduledFiniteBurnEvent.handleEvent", FM + "ScheduledFiniteManeuverEvent.handleEvent", SDT + "JulianDate.convertToScenarioTime"], mode="R",
            note="a finite burn / finite maneuver event queues exactly one integration event on the agent it is handed to, whose interval is [(start JD - scenario start JD) * 86400, (end JD - scenario start JD) * 86400] - "
                 "the configured interval, not rounded to the step grid or to whole seconds - with the configured acceleration vector and frame (burn) resp. maneuver type and magnitude (maneuver)")
def queue_events(vc):
    import resonaate.dynamics.integration_events.finite_thrust as ft
    jd0 = vc.real("jd0", 2450000, 2470000)
    s_off, dur = vc.real("start_off_s", 0, 1e6), vc.real("dur_s", 1e-3, 1e5)
    sjd, ejd = jd0 + s_off / 86400, jd0 + (s_off + dur) / 86400
    acc = vc.vec("acc", 3, -1e-3, 1e-3)
    mag = vc.real("mag", 1e-9, 1e-3)
    made = []
    if vc.symbolic:
        JD = vc.float_class(SDT + "JulianDate")
        for m in (FB, FM):
            vc.stub(m + "@JulianDate", JD)
        vc.stub(SDT + "@ScenarioTime", vc.float_class(SDT + "ScenarioTime"))
        vc.stub(FB + "@ScheduledFiniteBurn", lambda *a: (made.append(("burn",) + a), "BURN")[1])
        vc.stub(FM + "@ScheduledFiniteManeuver", lambda *a: (made.append(("maneuver",) + a), "MANEUVER")[1])
        burn_ev = vc.new(FB + "ScheduledFiniteBurnEvent", start_time_jd=sjd, end_time_jd=ejd, acc_vec_0=acc[0], acc_vec_1=acc[1], acc_vec_2=acc[2], thrust_frame="ntw")
        man_ev = vc.new(FM + "ScheduledFiniteManeuverEvent", start_time_jd=sjd, end_time_jd=ejd, maneuver_type="plane_change", maneuver_mag=mag)
        jd_start = JD(jd0)
    else:
        from resonaate.physics.time.stardate import JulianDate
        import resonaate.data.events.finite_burn as fb_
        import resonaate.data.events.finite_maneuver as fm_
        vc.install(FB + "@ScheduledFiniteBurn", lambda *a: (made.append(("burn",) + a), "BURN")[1])
        vc.install(FM + "@ScheduledFiniteManeuver", lambda *a: (made.append(("maneuver",) + a), "MANEUVER")[1])
        burn_ev = fb_.ScheduledFiniteBurnEvent(start_time_jd=sjd, end_time_jd=ejd, acc_vec_0=acc[0], acc_vec_1=acc[1], acc_vec_2=acc[2], thrust_frame="ntw")
        man_ev = fm_.ScheduledFiniteManeuverEvent(start_time_jd=sjd, end_time_jd=ejd, maneuver_type="plane_change", maneuver_mag=mag)
        jd_start = JulianDate(jd0)
    q = []
    agent = _NS(julian_date_start=jd_start, simulation_id=77, appendPropagateEvent=lambda ev: q.append(ev))
    burn_ev.handleEvent(agent)
    man_ev.handleEvent(agent)
    val = lambda x: x._pyvc_value() if hasattr(x, "_pyvc_value") else float(x)
    want_s, want_e = (sjd - jd0) * 24 * 3600, (ejd - jd0) * 24 * 3600
    tol = 0 if vc.symbolic else 1e-4  # (natively a Julian date near 2.45e6 resolves about 4e-5 s)
    ok_shape = q == ["BURN", "MANEUVER"] and len(made) == 2 and made[0][0] == "burn" and made[1][0] == "maneuver" and made[0][4] == 77 and made[1][4] == 77
    vc.ensure("O-C15-queue.burn-interval", vc.And(ok_shape, vc.close(val(made[0][1]), want_s, tol), vc.close(val(made[0][2]), want_e, tol)) if ok_shape else False)
    vc.ensure("O-C15-queue.maneuver-interval", vc.And(ok_shape, vc.close(val(made[1][1]), want_s, tol), vc.close(val(made[1][2]), want_e, tol)) if ok_shape else False)
    f1, f2 = made[0][3], made[1][3]
    vc.ensure("O-C15-queue.thrust", vc.And(f1.func is ft.ntwBurn, vc.eq(f1.keywords["acc_vector"], acc), f2.func is ft.planeChangeThrust, vc.eq(f2.keywords["magnitude"], mag)) if ok_shape else False)


# while on, the acceleration reaches the force model with the INERTIAL state as its argument (thrust frames are built from it): the sum contract of C13, re-checked here
from pyvc.harness import share as _share  # noqa: E402
from contracts import C13 as _C13  # noqa: E402,F401
_share("C13", "sum[K1]", "C15")


# a burn that started in an earlier step (or before the scenario start) is handed to its agent in EVERY step the query returns it for: the dispatch contract of C01,
# re-checked in this property's own run
from contracts import C01 as _C01  # noqa: E402,F401
_share("C01", "dispatch", "C15")

# a burn is integrated only if the worker hands the step's maneuver queue to the dynamics AS the scheduled events (C10 truth_job: propagate is called with scheduled_events = the
# submission's queue and station_keeping = its station keepers), re-checked in this property's own run
from contracts import C10 as _C10  # noqa: E402,F401
_share("C10", "truth_job", "C15")
