"""C17 -- maneuver detectors compute their documented statistic over any history."""
from collections import deque
import numpy as np
import z3
from pyvc.harness import obligation
from pyvc import sym

MD = "resonaate.estimation.maneuver_detection:"
ST = "resonaate.physics.statistics:"
SF = "resonaate.estimation.sequential_filter:"


class Chi2Stub:
    """scipy.stats.chi2.isf by contract: an (uninterpreted) deterministic function of (alpha, dof)"""

    @staticmethod
    def isf(alpha, dof):
        return sym.fn_uf("chi2.isf", alpha, dof)

    @staticmethod
    def ppf(p, dof):
        """lower-tail quantile: in exact arithmetic ppf(p) = isf(1 - p) (in floats they differ for tiny tail probabilities: native replay with thresholds down to 1e-17)"""
        return sym.fn_uf("chi2.isf", 1 - p, dof)


def _isf(vc, alpha, dof):
    if vc.symbolic:
        return sym.fn_uf("chi2.isf", alpha, dof)
    from scipy.stats import chi2
    return chi2.isf(alpha, dof)


def _inputs(vc, dim, tag=""):
    nu = vc.vec("nu" + tag, dim, -50, 50)
    if dim == 1:
        S = np.array([[vc.real("s00" + tag, 1e-3, 1e3)]], dtype=object if vc.symbolic else float)
        pd = True
    else:
        a, c = vc.real("s00" + tag, 1e-3, 1e3), vc.real("s11" + tag, 1e-3, 1e3)
        b = vc.real("s01" + tag, -1e3, 1e3)
        if not vc.symbolic:
            b = b * 0.99e-3 * np.sqrt(a * c)  # native sampling: off-diagonal scaled into the positive-definite range
        vc.assume(a * c - b * b > 1e-6)
        S = np.array([[a, b], [b, c]], dtype=object if vc.symbolic else float)
    if not vc.symbolic:
        # native sampling over the physical range of innovation covariances: optical angles have variances ~1e-11 rad^2, ranges ~1e-6 km^2 (same statistic: nu scaled along)
        k = 10.0 ** -vc.int("cov_scale_exp" + tag, 0, 12)
        S, nu = S * k, nu * np.sqrt(k)
    return nu, S


def _q(vc, nu, S):
    if len(nu) == 1:
        return nu[0] * nu[0] / S[0, 0]
    det = S[0, 0] * S[1, 1] - S[0, 1] * S[1, 0]
    return (S[1, 1] * nu[0] * nu[0] - (S[0, 1] + S[1, 0]) * nu[0] * nu[1] + S[0, 0] * nu[1] * nu[1]) / det


def _std(dim):
    D = f"[dim{dim}]"

    @obligation("C17", f"standard{D}", ensures=[f"O-C17-std.metric{D}", f"O-C17-std.decision{D}", f"O-C17-qform{D}", f"O-C17-mono.std{D}"],
                fns=[MD + "StandardNis.__call__", ST + "chiSquareQuadraticForm", ST + "oneSidedChiSquareTest"], mode="R",
                bounded=f"measurement dimension {dim} (innovation and covariance values unbounded)",
                note="metric = nu^T S^-1 nu; maneuver declared iff metric >= chi-square upper-tail bound isf(alpha, dim); scaling nu by c >= 1 never turns a detection into a non-detection")
    def h(vc):
        vc.stub(ST + "@chi2", Chi2Stub)
        nu, S = _inputs(vc, dim)
        alpha = vc.real("alpha", 1e-6, 0.999999)
        if not vc.symbolic and vc.bool("tiny_threshold"):
            # valid but very small significance levels: the bound is still finite (isf(1e-17, 2) = 78.3) and a large innovation must be declared
            alpha = 10.0 ** -vc.real("threshold_exp", 9, 17)
            nu = nu * 4.0
        det = vc.new(MD + "StandardNis", threshold=alpha, metric=None)
        res = det(nu, S)
        q = _q(vc, nu, S)
        vc.ensure(f"O-C17-qform{D}", vc.And(vc.eq(vc.fn(ST + "chiSquareQuadraticForm")(nu, S), q, 1e-7), vc.le(0, q)))
        vc.ensure(f"O-C17-std.metric{D}", vc.eq(det.metric, q, 1e-7))
        bound = _isf(vc, alpha, dim)
        if not vc.symbolic:
            if vc.bool("statistic_exactly_on_bound"):
                # native replay of the boundary clause ("reaches the bound"): covariance diag(1/bound, 1, ...) and innovation e_1 give NIS == bound bit for bit
                S3, nu3 = np.eye(dim), np.zeros(dim)
                S3[0, 0], nu3[0] = 1.0 / bound, 1.0
                det3 = vc.new(MD + "StandardNis", threshold=alpha, metric=None)
                res3 = det3(nu3, S3)
                vc.assume(det3.metric == bound)
                vc.ensure(f"O-C17-std.decision{D}", bool(res3))
            vc.assume(abs(q - bound) > 1e-9)
        vc.ensure(f"O-C17-std.decision{D}", vc.iff(res, q >= bound))
        c = vc.real("c", 1, 100)
        det2 = vc.new(MD + "StandardNis", threshold=alpha, metric=None)
        res2 = det2(nu * c, S)
        vc.ensure(f"O-C17-mono.std{D}", vc.And(vc.implies(res, res2), vc.le(det.metric, det2.metric, 1e-9)))
    return h


for _d in (1, 2):
    _std(_d)


def _slide(w, dim, tier):
    W = f"[w{w},dim{dim}]"

    @obligation("C17", f"sliding{W}", ensures=[f"O-C17-slide.window{W}", f"O-C17-slide.metric{W}", f"O-C17-slide.decision{W}", f"O-C17-mono.slide{W}"],
                fns=[MD + "SlidingNis.__call__"], mode="R", tier=tier,
                bounded=f"window size {w}, current measurement dimension {dim}; the prior window contents (any length 0..w, any NIS values and dimensions) are arbitrary: inductive step over histories of any length",
                note="after a call the window holds the last min(k, w) (NIS, dimension) pairs, metric is their NIS sum, dof the dimension sum, maneuver iff metric >= isf(alpha, dof); collections.deque(maxlen) is the real library object")
    def h(vc):
        vc.stub(ST + "@chi2", Chi2Stub)
        nu, S = _inputs(vc, dim)
        alpha = vc.real("alpha", 1e-6, 0.999999)
        for ell in range(w + 1):  # every possible fill level of the window before the call
            prev_q = [vc.real(f"pq{ell}_{i}", 0, 1e4) for i in range(ell)]
            prev_d = [vc.int(f"pd{ell}_{i}", 1, 8) for i in range(ell)]

            def mk():
                return vc.new(MD + "SlidingNis", threshold=alpha, metric=None, window_size=w, nis_list=deque(prev_q, maxlen=w),
                              dim_list=deque(prev_d, maxlen=w))
            det = mk()
            res = det(nu, S)
            q = _q(vc, nu, S)
            keep_q = (prev_q + [q])[-w:]
            keep_d = (prev_d + [dim])[-w:]
            same = len(det.nis_list) == len(keep_q) and len(det.dim_list) == len(keep_d) and det.nis_list.maxlen == w and det.dim_list.maxlen == w
            vc.ensure(f"O-C17-slide.window{W}", vc.And(same, *[vc.eq(a, b, 1e-7) for a, b in zip(det.nis_list, keep_q)],
                                                       *[a == b for a, b in zip(det.dim_list, keep_d)]))
            tot = sum(keep_q[1:], keep_q[0])
            dof = sum(keep_d[1:], keep_d[0])
            vc.ensure(f"O-C17-slide.metric{W}", vc.eq(det.metric, tot, 1e-7))
            bound = _isf(vc, alpha, dof)
            if not vc.symbolic:
                vc.assume(abs(tot - bound) > 1e-9)
            vc.ensure(f"O-C17-slide.decision{W}", vc.iff(res, tot >= bound))
            c = vc.real("c", 1, 100)
            det2 = mk()
            res2 = det2(nu * c, S)
            vc.ensure(f"O-C17-mono.slide{W}", vc.And(vc.implies(res, res2), vc.le(det.metric, det2.metric, 1e-9)))
    return h


_slide(1, 1, "quick")
_slide(2, 2, "quick")
_slide(3, 1, "quick")
_slide(4, 1, "thorough")  # (window 5 with a 2-dimensional current step: 4 676 obligation instances, 40 min - beyond the thorough budget; longer windows through the bounded stand-in)


def _fade(dim):
    D = f"[dim{dim}]"

    @obligation("C17", f"fading{D}", ensures=[f"O-C17-fade.state{D}", f"O-C17-fade.metric{D}", f"O-C17-fade.decision{D}", f"O-C17-mono.fade{D}"],
                fns=[MD + "FadingMemoryNis.__call__"], mode="R", bounded=f"current measurement dimension {dim}",
                note="inductive step from an ARBITRARY prior state (faded sum, count, dimension total): prior' = delta*prior + q, metric = (1+delta)*prior', dof = (sum of dims/count)*(1+delta)/(1-delta); unbounded in history length")
    def h(vc):
        vc.stub(ST + "@chi2", Chi2Stub)
        nu, S = _inputs(vc, dim)
        alpha = vc.real("alpha", 1e-6, 0.999999)
        delta = vc.real("delta", 1e-3, 0.999)
        prior = vc.real("prior", 0, 1e5)
        total = vc.int("total", 0, 10 ** 6)
        tdim = vc.int("tdim", 0, 10 ** 7)

        def mk():
            return vc.new(MD + "FadingMemoryNis", threshold=alpha, metric=None, delta=delta, prior_nis=prior, total=total, total_dim=tdim)
        det = mk()
        res = det(nu, S)
        q = _q(vc, nu, S)
        p2 = delta * prior + q
        vc.ensure(f"O-C17-fade.state{D}", vc.And(det.total == total + 1, det.total_dim == tdim + dim, vc.eq(det.prior_nis, p2, 1e-7)))
        vc.ensure(f"O-C17-fade.metric{D}", vc.eq(det.metric, (1 + delta) * p2, 1e-7))
        dof = (tdim + dim) / (total + 1) * (1 + delta) / (1 - delta)
        bound = _isf(vc, alpha, dof)
        if not vc.symbolic:
            vc.assume(abs((1 + delta) * p2 - bound) > 1e-9)
        vc.ensure(f"O-C17-fade.decision{D}", vc.iff(res, (1 + delta) * p2 >= bound))
        c = vc.real("c", 1, 100)
        det2 = mk()
        res2 = det2(nu * c, S)
        vc.ensure(f"O-C17-mono.fade{D}", vc.And(vc.implies(res, res2), vc.le(det.metric, det2.metric, 1e-9)))
    return h


for _d in (1, 2):
    _fade(_d)


@obligation("C17", "ctor", ensures=["O-C17-ctor.sliding", "O-C17-ctor.fading"], fns=[MD + "SlidingNis.__init__", MD + "FadingMemoryNis.__init__", MD + "ManeuverDetection.__init__"],
            mode="R", note="constructors reject window <= 0 and delta outside (0,1), and start from the empty history")
def ctor(vc):
    w = vc.int("w", -3, 12)
    delta = vc.real("delta", -1, 2)
    alpha = vc.real("alpha", 1e-6, 0.999999)
    S = vc.cls(MD + "SlidingNis")
    F = vc.cls(MD + "FadingMemoryNis")
    if vc.symbolic:
        w = vc.split_int(w, -3, 12)
    try:
        s = S(alpha, window_size=w) if not vc.symbolic else _init(vc, MD + "SlidingNis", alpha, window_size=w)
        ok = (w > 0) and len(s.nis_list) == 0 and s.nis_list.maxlen == w and s.dim_list.maxlen == w and s.threshold is alpha if vc.symbolic else (w > 0 and s.nis_list.maxlen == w)
    except ValueError:
        ok = w <= 0
    vc.ensure("O-C17-ctor.sliding", ok)
    try:
        f = F(alpha, delta=delta) if not vc.symbolic else _init(vc, MD + "FadingMemoryNis", alpha, delta=delta)
        ok2 = vc.And(delta > 0, delta < 1, f.prior_nis == 0.0, f.total == 0, f.total_dim == 0)
    except ValueError:
        ok2 = vc.Or(delta <= 0, delta >= 1)
    vc.ensure("O-C17-ctor.fading", ok2)


def _init(vc, spec, *a, **k):
    C = vc.cls(spec)
    o = object.__new__(C)
    vc.fn(spec + ".__init__")(o, *a, **k)
    return o


@obligation("C17", "flags", ensures=["O-C17-flags"], fns=[SF + "SequentialFilter.checkManeuverDetection"], mode="R",
            note="the filter raises MANEUVER_DETECTION and copies the detector's metric iff the detector returned true, and hands it the current innovation and innovation covariance")
def flags(vc):
    from resonaate.estimation.sequential_filter import FilterFlag
    got = {}
    r = vc.bool("detected")

    class Det:
        metric = "M"

        def __call__(self, innov, cvr):
            got["args"] = (innov, cvr)
            return r
    f = vc.new(SF + "SequentialFilter", maneuver_detection=Det(), innovation="nu", innov_cvr="S", nis="NIS-OF-THIS-STEP", flags=FilterFlag.NONE, maneuver_metric=None,
               adaptive_estimation=False, initial_orbit_determination=False, maneuver_detected=False)
    f.checkManeuverDetection()
    has = FilterFlag.MANEUVER_DETECTION in f.flags
    vc.ensure("O-C17-flags", vc.And(got["args"] == ("nu", "S"), vc.iff(r, has), (f.maneuver_metric == "M") == has))


@obligation("C17", "history_bounded", ensures=["B-C17-history.standard", "B-C17-history.sliding", "B-C17-history.fading", "B-C17-history.monotone"],
            fns=[MD + "StandardNis.__call__", MD + "SlidingNis.__call__", MD + "FadingMemoryNis.__call__"], mode="R", native_only=True, samples=120,
            bounded="BOUNDED stand-in, not a proof: 120 (quick) / 1200 (thorough) random histories per run of length 1..50 with measurement dimension 1..8 varying from step to step, windows 1..10, "
                    "fading factors in (0,1); the inductive-step proofs above cover histories of any length but current dimension 1-2 only",
            note="the three real detectors run over one random history next to a reference that recomputes each documented statistic from the WHOLE history (not incrementally): decision and metric at every "
                 "step agree; scaling the latest innovation up never turns a detection into a non-detection")
def history_bounded(vc):
    from scipy.stats import chi2
    from resonaate.estimation.maneuver_detection import StandardNis, SlidingNis, FadingMemoryNis
    rng = np.random.default_rng(vc.int("seed", 0, 10 ** 9))
    L = vc.int("length", 1, 50)
    w = vc.int("window", 1, 10)
    delta = vc.real("delta", 0.02, 0.98)
    alpha = [0.001, 0.01, 0.05, 0.3, 0.7][vc.int("alpha_idx", 0, 4)]
    dets = {"standard": StandardNis(alpha), "sliding": SlidingNis(alpha, window_size=w), "fading": FadingMemoryNis(alpha, delta=delta)}
    ok = {k: True for k in dets}
    mono = True
    qs, ds = [], []
    for k in range(L):
        d = int(rng.integers(1, 9))
        A = rng.normal(size=(d, d))
        S = A @ A.T + 0.3 * d * np.eye(d)
        nu = rng.normal(size=d) * float(rng.choice([0.3, 1.0, 3.0]))
        q = float(nu @ np.linalg.solve(S, nu))
        qs.append(q); ds.append(d)
        ref = {"standard": (q, d)}
        ref["sliding"] = (sum(qs[-w:]), sum(ds[-w:]))
        faded = sum(delta ** (k - i) * qs[i] for i in range(k + 1))
        ref["fading"] = ((1 + delta) * faded, sum(ds) / (k + 1) * (1 + delta) / (1 - delta))
        for name, det in dets.items():
            import copy
            twin = copy.deepcopy(det)
            res = bool(det(nu, S))
            stat, dof = ref[name]
            bound = chi2.isf(alpha, dof)
            if abs(stat - bound) > 1e-7 * (1 + bound):
                ok[name] &= (res == (stat >= bound))
            ok[name] &= abs(det.metric - stat) <= 1e-7 * (1 + abs(stat))
            res2 = bool(twin(nu * 1.7, S))
            mono &= (not res) or res2
    for name in dets:
        vc.ensure(f"B-C17-history.{name}", bool(ok[name]))
    vc.ensure("B-C17-history.monotone", bool(mono))


EST = "resonaate.estimation:"


class _NS:
    def __init__(self, **kw):
        self.__dict__.update(kw)


@obligation("C17", "det_config", ensures=["O-C17-config.parameters", "O-C17-config.factory"],
            fns=[MD + "StandardNis.fromConfig", MD + "SlidingNis.fromConfig", MD + "FadingMemoryNis.fromConfig", EST + "maneuverDetectionFactory"], mode="R",
            note="a detector built from its configuration uses the CONFIGURED significance, window size resp. fading factor (not a default), and the factory builds the detector kind the configuration names")
def det_config(vc):
    thr = vc.real("threshold", 1e-6, 0.999999)
    w = vc.int("window", 1, 10)
    delta = vc.real("delta", 1e-3, 0.999)
    cfg = _NS(name="x", threshold=thr, window_size=w, delta=delta)
    got = {}

    def rec(kind):
        class R:
            def __new__(cls, *a, **k):
                got[kind] = (a, k)
                return kind
        return R
    f = (lambda spec: vc.fn(spec + ".fromConfig")) if vc.symbolic else (lambda spec: vc.fn(spec).fromConfig.__func__)
    outs = [f(MD + "StandardNis")(rec("std"), cfg), f(MD + "SlidingNis")(rec("slide"), cfg), f(MD + "FadingMemoryNis")(rec("fade"), cfg)]
    ok = outs == ["std", "slide", "fade"] and got["std"] == ((thr,), {}) and got["slide"][0] == (thr,) and got["slide"][1] == {"window_size": w} \
        and got["fade"][0] == (thr,) and got["fade"][1] == {"delta": delta}
    vc.ensure("O-C17-config.parameters", ok)
    import resonaate.estimation as est
    from resonaate.estimation.maneuver_detection import StandardNis, SlidingNis, FadingMemoryNis
    names = {v: k for k, v in est._MANEUVER_DETECTION_MAP.items()}
    built = []
    for cls_ in (StandardNis, SlidingNis, FadingMemoryNis):
        vc.install(EST + "@_MANEUVER_DETECTION_MAP", {names[cls_]: _NS(fromConfig=lambda c, cls_=cls_: (built.append((cls_.__name__, c)), cls_.__name__)[1])})
        c = _NS(name=names[cls_], threshold=thr, window_size=w, delta=delta)
        out = vc.fn(EST + "maneuverDetectionFactory")(c)
        ok = ok and out == cls_.__name__ and built[-1] == (cls_.__name__, c)
    vc.ensure("O-C17-config.factory", ok and vc.fn(EST + "maneuverDetectionFactory")(None) is None and set(names) == {StandardNis, SlidingNis, FadingMemoryNis})
