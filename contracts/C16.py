"""C16 -- filter updates invariant to angle representation and observation order (helpers first)."""
from pyvc.harness import obligation
import numpy as np
from contracts import common

M = "resonaate.physics.maths:"
NORM = dict(norm_angles=True, assumes=["angle unit normalised to turns: every executed operation is checked homogeneous in the angle unit, so the statement holds for every period, in particular 2*pi as a double (DESIGN 3.4a)"])


def is_turns(vc, x):
    """x is a whole number of turns (exists k. x = 2*pi*k)."""
    return vc.is_multiple(x, 2 * vc.pi)


@obligation("C16", "wrap2pi", ensures=["O-C16-wrap2pi.range", "O-C16-wrap2pi.congruent", "O-C16-wrap2pi.periodic", "O-C16-wrap2pi.near"],
            fns=[M + "wrapAngle2Pi"], mode="R", **NORM)
def wrap2pi(vc):
    a = vc.angle("a", -1e6, 1e6, special=[0.0, 2 * np.pi, -2 * np.pi, np.pi, -np.pi, 4 * np.pi])
    f = vc.fn(M + "wrapAngle2Pi")
    w = f(a)
    vc.ensure("O-C16-wrap2pi.range", vc.And(w >= 0, vc.lt(w, 2 * vc.pi)))
    vc.ensure("O-C16-wrap2pi.congruent", is_turns(vc, w - a))
    two_pi = 2 * vc.pi
    vc.ensure("O-C16-wrap2pi.near", vc.And(vc.implies(vc.And(a > -two_pi, a < 0), vc.eq(w, a + two_pi)),
                                           vc.implies(vc.And(a >= 0, a < two_pi), vc.eq(w, a))))
    k = vc.int("k", -1000, 1000)
    w2 = f(a + 2 * vc.pi * k)
    vc.ensure("O-C16-wrap2pi.periodic", vc.eq(w2, w) if vc.symbolic else (vc.eq(w2, w, 1e-7) or vc.eq(abs(w2 - w), 2 * np.pi, 1e-7)))


@obligation("C16", "wrappi", ensures=["O-C16-wrappi.range", "O-C16-wrappi.congruent", "O-C16-wrappi.periodic", "O-C16-wrappi.near"],
            fns=[M + "wrapAngleNegPiPi"], mode="R", **NORM)
def wrappi(vc):
    a = vc.angle("a", -1e6, 1e6, special=[0.0, np.pi, -np.pi, 3 * np.pi, -3 * np.pi])
    f = vc.fn(M + "wrapAngleNegPiPi")
    w = f(a)
    vc.ensure("O-C16-wrappi.range", vc.And(vc.lt(-vc.pi, w) if vc.symbolic else w >= -np.pi - 1e-9, vc.le(w, vc.pi)))
    vc.ensure("O-C16-wrappi.congruent", is_turns(vc, w - a))
    pi = vc.pi
    vc.ensure("O-C16-wrappi.near", vc.And(vc.implies(vc.And(a > -pi, a <= pi), vc.eq(w, a)),
                                          vc.implies(vc.And(a > pi, a <= 3 * pi), vc.eq(w, a - 2 * pi)),
                                          vc.implies(vc.And(a > -3 * pi, a <= -pi), vc.eq(w, a + 2 * pi))))
    k = vc.int("k", -1000, 1000)
    w2 = f(a + 2 * vc.pi * k)
    vc.ensure("O-C16-wrappi.periodic", vc.eq(w2, w) if vc.symbolic else (vc.eq(w2, w, 1e-7) or vc.eq(abs(w2 - w), 2 * np.pi, 1e-7)))


@obligation("C16", "residual", ensures=["O-C16-residual.range", "O-C16-residual.congruent", "O-C16-residual.turns",
                                        "O-C16-residual.linear"], fns=[M + "residual"], mode="R",
            note="modular: wrapAngle2Pi / wrapAngleNegPiPi replaced by their proved contracts", **NORM)
def residual(vc):
    vc.stub(M + "wrapAngle2Pi", common.WRAP2PI)
    vc.stub(M + "wrapAngleNegPiPi", common.WRAPPI)
    a = vc.angle("a", -1e4, 1e4, special=[0.0, np.pi, -np.pi, 2 * np.pi])
    b = vc.angle("b", -1e4, 1e4, special=[0.0, np.pi, -np.pi, 2 * np.pi])
    f = vc.fn(M + "residual")
    r = f(a, b, True)
    vc.ensure("O-C16-residual.range", vc.And(vc.lt(-vc.pi, r) if vc.symbolic else r >= -np.pi - 1e-9, vc.le(r, vc.pi)))
    vc.ensure("O-C16-residual.congruent", is_turns(vc, r - (a - b)))
    k, j = vc.int("k", -100, 100), vc.int("j", -100, 100)
    r2 = f(a + 2 * vc.pi * k, b + 2 * vc.pi * j, True)
    vc.ensure("O-C16-residual.turns", vc.eq(r2, r) if vc.symbolic else (vc.eq(r2, r, 1e-7) or vc.eq(abs(r2 - r), 2 * np.pi, 1e-7)))
    vc.ensure("O-C16-residual.linear", vc.eq(f(a, b, False), a - b))


def _vec_harness(vc, n):
    return [vc.angle(f"a{i}", -1e4, 1e4, special=[0.0, np.pi, -np.pi, 3 * np.pi]) for i in range(n)]


@obligation("C16", "vecwrapneg", ensures=["O-C16-vec.wrapneg.range", "O-C16-vec.wrapneg.congruent"],
            fns=[M + "vecWrapAngleNeg"], mode="R", **NORM)
def vecwrapneg(vc):
    xs = _vec_harness(vc, 2)
    arr = np.array(xs, dtype=object if vc.symbolic else float)
    out = vc.fn(M + "vecWrapAngleNeg")(arr)
    for i in range(2):
        w = out[i]
        # documented range (-pi, pi] -- the same convention as the scalar helper and the property statement
        vc.ensure("O-C16-vec.wrapneg.range", vc.And(w > -vc.pi if vc.symbolic else w > -np.pi + 1e-12, vc.le(w, vc.pi)))
        vc.ensure("O-C16-vec.wrapneg.congruent", is_turns(vc, w - xs[i]))


@obligation("C16", "vecresiduals", ensures=["O-C16-vec.residuals.range", "O-C16-vec.residuals.congruent",
                                            "O-C16-vec.residuals.turns", "O-C16-vec.residuals.linear"],
            fns=[M + "vecResiduals", M + "vecWrapAngle2Pi", M + "vecWrapAngleNeg"], mode="R", **NORM)
def vecresiduals(vc):
    a = vc.angle("a", -1e4, 1e4, special=[0.0, np.pi, -np.pi, 2 * np.pi])
    b = vc.angle("b", -1e4, 1e4, special=[0.0, np.pi, -np.pi, 2 * np.pi])
    x, y = vc.angle("x", -1e6, 1e6), vc.angle("y", -1e6, 1e6)  # tagged as angles: see DESIGN 3.4a (sound for unbounded reals)
    dt = object if vc.symbolic else float
    f = vc.fn(M + "vecResiduals")
    ang = np.array([True, False])
    out = f(np.array([a, x], dtype=dt), np.array([b, y], dtype=dt), ang)
    r = out[0]
    vc.ensure("O-C16-vec.residuals.range", vc.And(r > -vc.pi if vc.symbolic else r > -np.pi + 1e-12, vc.le(r, vc.pi)))
    vc.ensure("O-C16-vec.residuals.congruent", is_turns(vc, r - (a - b)))
    k, j = vc.int("k", -100, 100), vc.int("j", -100, 100)
    out2 = f(np.array([a + 2 * vc.pi * k, x], dtype=dt), np.array([b + 2 * vc.pi * j, y], dtype=dt), ang)
    vc.ensure("O-C16-vec.residuals.turns", vc.eq(out2[0], r) if vc.symbolic else (vc.eq(out2[0], r, 1e-7) or vc.eq(abs(out2[0] - r), 2 * np.pi, 1e-7)))
    vc.ensure("O-C16-vec.residuals.linear", vc.eq(out[1], x - y))
