"""C16 -- filter updates invariant to angle representation and observation order (helpers first)."""
from pyvc.harness import obligation
import numpy as np
from contracts import common

M = "resonaate.physics.maths:"
NORM = dict(norm_angles=True, assumes=["angle unit normalised to turns: every executed operation is checked homogeneous in the angle unit, so the statement holds for every period, in particular 2*pi as a double (DESIGN 3.4a)"])


def is_turns(vc, x):
    """x is a whole number of turns (exists k. x = 2*pi*k)."""
    return vc.is_multiple(x, 2 * vc.pi)


@obligation("C16", "wrap2pi", ensures=["O-C16-wrap2pi.range", "O-C16-wrap2pi.congruent", "O-C16-wrap2pi.periodic", "O-C16-wrap2pi.near"],
            fns=[M + "wrapAngle2Pi"], mode="R", **NORM)
def wrap2pi(vc):
    a = vc.angle("a", -1e6, 1e6, special=[0.0, 2 * np.pi, -2 * np.pi, np.pi, -np.pi, 4 * np.pi])
    f = vc.fn(M + "wrapAngle2Pi")
    w = f(a)
    vc.ensure("O-C16-wrap2pi.range", vc.And(w >= 0, vc.lt(w, 2 * vc.pi)))
    vc.ensure("O-C16-wrap2pi.congruent", is_turns(vc, w - a))
    two_pi = 2 * vc.pi
    vc.ensure("O-C16-wrap2pi.near", vc.And(vc.implies(vc.And(a > -two_pi, a < 0), vc.eq(w, a + two_pi)),
                                           vc.implies(vc.And(a >= 0, a < two_pi), vc.eq(w, a))))
    k = vc.int("k", -1000, 1000)
    w2 = f(a + 2 * vc.pi * k)
    vc.ensure("O-C16-wrap2pi.periodic", vc.eq(w2, w) if vc.symbolic else (vc.eq(w2, w, 1e-7) or vc.eq(abs(w2 - w), 2 * np.pi, 1e-7)))


@obligation("C16", "wrappi", ensures=["O-C16-wrappi.range", "O-C16-wrappi.congruent", "O-C16-wrappi.periodic", "O-C16-wrappi.near"],
            fns=[M + "wrapAngleNegPiPi"], mode="R", **NORM)
def wrappi(vc):
    a = vc.angle("a", -1e6, 1e6, special=[0.0, np.pi, -np.pi, 3 * np.pi, -3 * np.pi])
    f = vc.fn(M + "wrapAngleNegPiPi")
    w = f(a)
    vc.ensure("O-C16-wrappi.range", vc.And(vc.lt(-vc.pi, w) if vc.symbolic else w >= -np.pi - 1e-9, vc.le(w, vc.pi)))
    vc.ensure("O-C16-wrappi.congruent", is_turns(vc, w - a))
    pi = vc.pi
    vc.ensure("O-C16-wrappi.near", vc.And(vc.implies(vc.And(a > -pi, a <= pi), vc.eq(w, a)),
                                          vc.implies(vc.And(a > pi, a <= 3 * pi), vc.eq(w, a - 2 * pi)),
                                          vc.implies(vc.And(a > -3 * pi, a <= -pi), vc.eq(w, a + 2 * pi))))
    k = vc.int("k", -1000, 1000)
    w2 = f(a + 2 * vc.pi * k)
    vc.ensure("O-C16-wrappi.periodic", vc.eq(w2, w) if vc.symbolic else (vc.eq(w2, w, 1e-7) or vc.eq(abs(w2 - w), 2 * np.pi, 1e-7)))


@obligation("C16", "residual", ensures=["O-C16-residual.range", "O-C16-residual.congruent", "O-C16-residual.turns",
                                        "O-C16-residual.linear"], fns=[M + "residual"], mode="R",
            note="modular: wrapAngle2Pi / wrapAngleNegPiPi replaced by their proved contracts", **NORM)
def residual(vc):
    vc.stub(M + "wrapAngle2Pi", common.WRAP2PI)
    vc.stub(M + "wrapAngleNegPiPi", common.WRAPPI)
    a = vc.angle("a", -1e4, 1e4, special=[0.0, np.pi, -np.pi, 2 * np.pi])
    b = vc.angle("b", -1e4, 1e4, special=[0.0, np.pi, -np.pi, 2 * np.pi])
    f = vc.fn(M + "residual")
    r = f(a, b, True)
    vc.ensure("O-C16-residual.range", vc.And(vc.lt(-vc.pi, r) if vc.symbolic else r >= -np.pi - 1e-9, vc.le(r, vc.pi)))
    vc.ensure("O-C16-residual.congruent", is_turns(vc, r - (a - b)))
    k, j = vc.int("k", -100, 100), vc.int("j", -100, 100)
    r2 = f(a + 2 * vc.pi * k, b + 2 * vc.pi * j, True)
    vc.ensure("O-C16-residual.turns", vc.eq(r2, r) if vc.symbolic else (vc.eq(r2, r, 1e-7) or vc.eq(abs(r2 - r), 2 * np.pi, 1e-7)))
    vc.ensure("O-C16-residual.linear", vc.eq(f(a, b, False), a - b))


def _vec_harness(vc, n):
    return [vc.angle(f"a{i}", -1e4, 1e4, special=[0.0, np.pi, -np.pi, 3 * np.pi]) for i in range(n)]


@obligation("C16", "vecwrapneg", ensures=["O-C16-vec.wrapneg.range", "O-C16-vec.wrapneg.congruent"],
            fns=[M + "vecWrapAngleNeg"], mode="R", **NORM)
def vecwrapneg(vc):
    xs = _vec_harness(vc, 2)
    arr = np.array(xs, dtype=object if vc.symbolic else float)
    out = vc.fn(M + "vecWrapAngleNeg")(arr)
    for i in range(2):
        w = out[i]
        # documented range (-pi, pi] -- the same convention as the scalar helper and the property statement
        vc.ensure("O-C16-vec.wrapneg.range", vc.And(w > -vc.pi if vc.symbolic else w > -np.pi + 1e-12, vc.le(w, vc.pi)))
        vc.ensure("O-C16-vec.wrapneg.congruent", is_turns(vc, w - xs[i]))


@obligation("C16", "vecresiduals", ensures=["O-C16-vec.residuals.range", "O-C16-vec.residuals.congruent",
                                            "O-C16-vec.residuals.turns", "O-C16-vec.residuals.linear"],
            fns=[M + "vecResiduals", M + "vecWrapAngle2Pi", M + "vecWrapAngleNeg"], mode="R", **NORM)
def vecresiduals(vc):
    a = vc.angle("a", -1e4, 1e4, special=[0.0, np.pi, -np.pi, 2 * np.pi])
    b = vc.angle("b", -1e4, 1e4, special=[0.0, np.pi, -np.pi, 2 * np.pi])
    x, y = vc.angle("x", -1e6, 1e6), vc.angle("y", -1e6, 1e6)  # tagged as angles: see DESIGN 3.4a (sound for unbounded reals)
    dt = object if vc.symbolic else float
    f = vc.fn(M + "vecResiduals")
    ang = np.array([True, False])
    out = f(np.array([a, x], dtype=dt), np.array([b, y], dtype=dt), ang)
    r = out[0]
    vc.ensure("O-C16-vec.residuals.range", vc.And(r > -vc.pi if vc.symbolic else r > -np.pi + 1e-12, vc.le(r, vc.pi)))
    vc.ensure("O-C16-vec.residuals.congruent", is_turns(vc, r - (a - b)))
    k, j = vc.int("k", -100, 100), vc.int("j", -100, 100)
    out2 = f(np.array([a + 2 * vc.pi * k, x], dtype=dt), np.array([b + 2 * vc.pi * j, y], dtype=dt), ang)
    vc.ensure("O-C16-vec.residuals.turns", vc.eq(out2[0], r) if vc.symbolic else (vc.eq(out2[0], r, 1e-7) or vc.eq(abs(out2[0] - r), 2 * np.pi, 1e-7)))
    vc.ensure("O-C16-vec.residuals.linear", vc.eq(out[1], x - y))


def _amean(S, tier):
    T = f"[S{S}]"

    @obligation("C16", f"angular_mean{T}", ensures=[f"O-C16-mean.range{T}", f"O-C16-mean.turns{T}", f"O-C16-mean.window-shift{T}"], fns=[M + "angularMean"],
                mode="R", tier=tier, ax_periodic=True, bounded=f"{S} sigma points (weights symbolic, incl. a negative centre weight)",
                note="modular (wrapAngle2Pi by its proved contract): the weighted circular mean lies in [low, high), is unchanged when any input angle is moved by whole turns, and shifts with the window when data and window are shifted together", **NORM)
    def h(vc):
        vc.stub(M + "wrapAngle2Pi", common.WRAP2PI)
        dt = object if vc.symbolic else float
        al = [vc.angle(f"a{i}", -20, 20) for i in range(S)]
        w = [vc.real(f"w{i}", -2, 2) for i in range(S)]
        ks = [vc.int(f"k{i}", -50, 50) for i in range(S)]
        two_pi = 2 * vc.pi
        f = vc.fn(M + "angularMean")
        if vc.symbolic:
            vc.assume(sum((x * x for x in w[1:]), w[0] * w[0]) > 1e-6)
        else:
            vc.assume(sum(x * x for x in w) > 1e-6)
        for low, high, tag in ((0.0 * vc.pi, two_pi, "0..2pi"), (-1.0 * vc.pi, 1.0 * vc.pi, "-pi..pi")):
            m0 = f(np.array(al, dtype=dt), weights=np.array(w, dtype=dt), high=high, low=low)
            m1 = f(np.array([a + two_pi * k for a, k in zip(al, ks)], dtype=dt), weights=np.array(w, dtype=dt), high=high, low=low)
            vc.ensure(f"O-C16-mean.range{T}", vc.And(vc.le(low, m0), vc.lt(m0, high) if vc.symbolic else m0 <= high + 1e-9))
            vc.ensure(f"O-C16-mean.turns{T}", vc.eq(m1, m0) if vc.symbolic else (vc.eq(m1, m0, 1e-6) or vc.eq(abs(m1 - m0), 2 * np.pi, 1e-6)))
        dl = vc.angle("delta", -3, 3)
        ma = f(np.array(al, dtype=dt), weights=np.array(w, dtype=dt), high=two_pi, low=0.0 * vc.pi)
        mb = f(np.array([a + dl for a in al], dtype=dt), weights=np.array(w, dtype=dt), high=two_pi + dl, low=dl)
        vc.ensure(f"O-C16-mean.window-shift{T}", vc.eq(mb, ma + dl) if vc.symbolic else (vc.eq(mb, ma + dl, 1e-6) or vc.eq(abs(mb - ma - dl), 2 * np.pi, 1e-6)))
    return h


_amean(3, "quick")
_amean(5, "thorough")


UK = "resonaate.estimation.kalman.unscented_kalman_filter:"


def _amean_stub(meas, weights=None, high=None, low=None):
    """angularMean by contract (O-C16-mean.*): a deterministic value in [low, high)"""
    from pyvc import sym as _s
    c = _s.ctx()
    ts = [_s._real(_s._as_arith(x)) for x in list(np.asarray(meas, dtype=object).ravel()) + list(np.asarray(weights, dtype=object).ravel()) + [high, low]]
    r = _s.SNum(c.uf_app("angularMean", ts), 1)
    done = c.__dict__.setdefault("_stub_done", set())
    if r.t.get_id() not in done:
        done.add(r.t.get_id())
        c.assume(_s.And(r >= low, r < high))
    return r


@obligation("C16", "ukf_innovation", ensures=["O-C16-innov.range", "O-C16-innov.turns-posterior", "O-C16-innov.sigma-residual-range"],
            fns=[UK + "UnscentedKalmanFilter.update", UK + "UnscentedKalmanFilter.forecast", UK + "UnscentedKalmanFilter.calculateMeasurementMatrix",
                 UK + "UnscentedKalmanFilter.calcMeasurementMean", M + "residuals", M + "residual"], mode="R",
            bounded="state dimension 1, one angular measurement component (window [0, 2pi)), 3 sigma points; all values symbolic",
            note="modular (wrap helpers and angularMean by their proved contracts): in the real UKF update - whatever angular flags, noise matrix and residuals an earlier update of the same stacked size left in the filter - the angular innovation and every sigma-point measurement residual lie in (-pi, pi], and adding any whole number of turns to the measured angle leaves the posterior estimate and covariance unchanged", **NORM)
def ukf_innovation(vc):
    from resonaate.physics.measurements import IsAngle
    from pyvc import shims
    dt = object if vc.symbolic else float
    if vc.symbolic:
        vc.stub(M + "wrapAngle2Pi", common.WRAP2PI)
        vc.stub(M + "wrapAngleNegPiPi", common.WRAPPI)
        vc.stub(M + "angularMean", _amean_stub)
        vc.stub(UK + "@julianDateToDatetime", lambda jd: jd)
        vc.stub(UK + "@JulianDate", lambda jd: jd)
        vc.stub("resonaate.estimation.sequential_filter:SequentialFilter._debugChecks", lambda self, obs: None)
    px = vc.real("px", -10, 10)
    pl = vc.real("pl", 0.05, 3)
    Hh = vc.angle("H", -2, 2)  # angle per unit of state
    rl = vc.angle("rl", 0.01, 1)
    y = vc.angle("y", 0, 6.28)
    k = vc.int("k", -20, 20)
    alpha, kappa = vc.real("alpha", 0.01, 1), vc.real("kappa", -0.5, 3)
    vc.assume(1 + kappa > 0.05)

    class Meas:
        angular_values = [IsAngle.ANGLE_0_2PI]

        def calculateMeasurement(self, sensor_eci, state, utc, noisy=False):
            return {"azimuth_rad": Hh * state[0]}

    stale = [vc.real(f"stale{i}", -50, 50) for i in range(5)]

    def run(yval):
        P = np.array([[pl * pl]], dtype=dt)
        if vc.symbolic:
            shims.register_cholesky(P, np.array([[pl]], dtype=object))
            C = vc.cls(UK + "UnscentedKalmanFilter")
            f = object.__new__(C)
            vc.fn(UK + "UnscentedKalmanFilter.__init__")(f, 1, 0.0, np.array([px], dtype=object), P, None, np.array([[0.0]], dtype=object), None, False, False, True, alpha, 2.0, kappa)
        else:
            from resonaate.estimation.kalman.unscented_kalman_filter import UnscentedKalmanFilter
            f = UnscentedKalmanFilter(1, 0.0, np.array([px]), P, None, np.array([[0.0]]), None, False, False, True, alpha, 2.0, kappa)
            f._debugChecks = lambda obs: None
        f.pred_x, f.pred_p = np.array([px], dtype=dt), P
        f.sigma_points = np.zeros((1, 3), dtype=dt)
        f.sigma_x_res = np.zeros((1, 3), dtype=dt)
        # multi-step sequences: an earlier update of the same stacked size with a linear component left these behind
        f.is_angular = np.array([False])
        f.r_matrix = np.array([[stale[0]]], dtype=dt)
        f.mean_pred_y = np.array([stale[1]], dtype=dt)
        f.sigma_y_res = np.array([stale[2:5]], dtype=dt)
        ob = _NS(julian_date=2459000.5, sensor_eci=None, measurement=Meas(), r_matrix=np.array([[rl * rl]], dtype=dt), measurement_states=np.array([yval], dtype=dt), sensor_id=7, target_id=3)
        f.update([ob])
        return f
    # staged: the wrapped measured angle is the same for y and y + 2*pi*k (same uninterpreted applications as in the body)
    if vc.symbolic:
        vc.cut("O-C16-innov.turns-posterior", common.WRAP2PI(y + 2 * vc.pi * k) == common.WRAP2PI(y))
    f0 = run(y)
    f1 = run(y + 2 * vc.pi * k)
    if vc.symbolic:
        vc.cut("O-C16-innov.turns-posterior", vc.eq(f1.innovation, f0.innovation))
    pi = vc.pi
    vc.ensure("O-C16-innov.range", vc.And(f0.innovation[0] > -pi, f0.innovation[0] <= pi))
    vc.ensure("O-C16-innov.sigma-residual-range", vc.And(*[vc.And(r > -pi, r <= pi) for r in f0.sigma_y_res[0]]))
    tol = 0 if vc.symbolic else 1e-6
    vc.ensure("O-C16-innov.turns-posterior", vc.And(vc.eq(f1.innovation, f0.innovation, tol), vc.eq(f1.est_x, f0.est_x, tol), vc.eq(f1.est_p, f0.est_p, tol)))


class _NS:
    def __init__(self, **kw):
        self.__dict__.update(kw)


def _ukf_permutation(tag, ids):
    @obligation("C16", f"ukf_permutation[{tag}]", ensures=[f"O-C16-perm.posterior[{tag}]"], fns=[UK + "UnscentedKalmanFilter.update", UK + "UnscentedKalmanFilter.forecast"], mode="R",
                bounded="state dimension 1, two stacked scalar observations, both orders; all values symbolic", timeout_ms=60000,
                note="processing the same two simultaneous observations in either order gives the same posterior estimate and covariance (exactly, in real arithmetic); "
                     + ("both are reports of ONE sensor (angles and range of a radar are two observations)" if ids[0] == ids[1] else "sensor ids descend along the stack"))
    def ukf_permutation(vc):
        from contracts import C06
        f1, e1 = C06._setup(vc, 1, [1, 1], True)
        f2, e2 = C06._setup(vc, 1, [1, 1], True)
        for e_ in (e1, e2):
            for o, sid in zip(e_["obs"], ids):
                o.sensor_id = sid
        for f in (f1, f2):
            px = vc.vec("px", 1, -100, 100)
            pP, pL = C06._spd(vc, "pP", 1)
            if vc.symbolic:
                from pyvc import shims
                shims.register_cholesky(pP, pL)
            f.pred_x, f.pred_p = px, pP
            f.sigma_points = vc.mat("stale_sig", 1, 3, -100, 100)
            f.sigma_x_res = vc.mat("stale_res", 1, 3, -100, 100)
        if not vc.symbolic:
            vc.assume(e1["alpha"] > 0.2)  # native run: tiny alpha means weights ~1/alpha^2 and visible float cancellation ("up to rounding")
        f1.update(e1["obs"])
        f2.update(e2["obs"][::-1])
        vc.ensure(f"O-C16-perm.posterior[{tag}]", vc.And(vc.eq(f1.est_x, f2.est_x, 1e-4), vc.eq(f1.est_p, f2.est_p, 1e-4)))
    return ukf_permutation


_ukf_permutation("one-sensor", (900, 900))
_ukf_permutation("descending-ids", (900, 899))


@obligation("C16", "filter_bounded", ensures=["B-C16-filter.permutation", "B-C16-filter.whole-turns", "B-C16-filter.wrap-point", "B-C16-filter.innovation-range"],
            fns=[UK + "UnscentedKalmanFilter.update", UK + "UnscentedKalmanFilter.forecast", UK + "UnscentedKalmanFilter.calculateMeasurementMatrix", UK + "UnscentedKalmanFilter.calcMeasurementMean",
                 M + "residuals", M + "angularMean"], mode="R", native_only=True, samples=150,
            bounded="BOUNDED stand-in, not a proof: 150 (quick) / 1500 (thorough) random cases per run: state dimension 3, 1..4 stacked observations each with 1..3 components of mixed kind (angle in [0,2pi), angle in "
                    "[-pi,pi), linear), predicted angles placed on or next to the 0/360 and +-180 degree seams, up to 7 whole turns added, every permutation of the stack; the proofs above cover one angular component and two stacked scalars",
            note="the real UKF update on one prior with the same information presented differently: (i) the observations stacked in any order, (ii) whole turns added to the measured angles, (iii) every angular component's wrap point "
                 "moved by a common offset (measurement function and measured value shifted together, re-wrapped into the component's window) - posterior mean and covariance agree to rounding, and every angular innovation lies in (-pi, pi]")
def filter_bounded(vc):
    from resonaate.estimation.kalman.unscented_kalman_filter import UnscentedKalmanFilter
    from resonaate.physics.measurements import IsAngle
    rng = np.random.default_rng(vc.int("seed", 0, 10 ** 9))
    N = 3
    n_obs = vc.int("stack", 1, 4)
    x = rng.normal(size=N)
    A = rng.normal(size=(N, N)) * 0.02
    P = A @ A.T + 1e-4 * np.eye(N)
    win = {IsAngle.ANGLE_0_2PI: (0.0, 2 * np.pi), IsAngle.ANGLE_NEG_PI_PI: (-np.pi, np.pi)}
    wrapw = lambda a, k: (a - win[k][0]) % (2 * np.pi) + win[k][0]
    specs = []
    for _ in range(n_obs):
        M_ = int(rng.integers(1, 4))
        kinds = [IsAngle(int(rng.integers(1, 4))) for _ in range(M_)]
        H = rng.normal(size=(M_, N))
        seam = np.array([rng.choice([0.0, np.pi, -np.pi, 1.0]) for _ in range(M_)])  # where the predicted angle sits
        off = seam - H @ x + rng.normal(size=M_) * 1e-3
        R = np.diag(rng.uniform(1e-5, 1e-3, size=M_))
        noise = rng.normal(size=M_) * 0.01
        specs.append((kinds, H, off, R, noise))

    def run(order, turns=0, shift=0.0):
        f = UnscentedKalmanFilter(1, 0.0, x.copy(), P.copy(), None, np.zeros((N, N)), None, False, False, True, 0.6, 2.0, 0.5)
        f._debugChecks = lambda obs: None
        f.pred_x, f.pred_p = x.copy(), P.copy()
        f.sigma_points = np.zeros((N, 2 * N + 1))
        f.sigma_x_res = np.zeros((N, 2 * N + 1))
        obs = []
        for i in order:
            kinds, H, off, R, noise = specs[i]

            class Meas:
                angular_values = list(kinds)

                def calculateMeasurement(self, sensor_eci, state, utc, noisy=False, H=H, kinds=kinds):
                    vals = H @ state + sensor_eci  # (the geometry of each observation is that of its OWN sensor state: one sensor observing from several positions)
                    return {f"c{j}": (wrapw(vals[j] + shift, kinds[j]) if kinds[j] != IsAngle.NOT_ANGLE else vals[j]) for j in range(len(vals))}
            truth = H @ x + off + noise
            y = np.array([(wrapw(truth[j] + shift, kinds[j]) + 2 * np.pi * turns) if kinds[j] != IsAngle.NOT_ANGLE else truth[j] for j in range(len(truth))])
            obs.append(_NS(julian_date=2459000.5 + i * 1e-4, sensor_eci=off, measurement=Meas(), r_matrix=R, measurement_states=y, sensor_id=7, target_id=3))
        f.update(obs)
        return f
    import itertools as it
    base = run(list(range(n_obs)))
    same = lambda a, b: bool(np.allclose(a.est_x, b.est_x, rtol=1e-6, atol=1e-8) and np.allclose(a.est_p, b.est_p, rtol=1e-6, atol=1e-10))
    perms = list(it.permutations(range(n_obs)))
    vc.ensure("B-C16-filter.permutation", all(same(base, run(list(p))) for p in perms[1:]))
    k = vc.int("turns", -7, 7)
    vc.ensure("B-C16-filter.whole-turns", same(base, run(list(range(n_obs)), turns=k)))
    shift = vc.real("wrap_shift", -3.2, 3.2)
    vc.ensure("B-C16-filter.wrap-point", same(base, run(list(range(n_obs)), shift=shift)))
    ang = np.array([kd != IsAngle.NOT_ANGLE for i in range(n_obs) for kd in specs[i][0]])
    inn = np.asarray(base.innovation, dtype=float)
    # every component of every stacked observation is used: the stacked innovation has one entry per component (observations of one sensor included)
    vc.ensure("B-C16-filter.innovation-range", bool(inn.shape == ang.shape and np.all((inn[ang] > -np.pi) & (inn[ang] <= np.pi))))


@obligation("C16", "windows", ensures=["O-C16-window.map", "O-C16-window.mean-uses-own-window"], fns=[UK + "UnscentedKalmanFilter.calcMeasurementMean"], mode="R",
            note="each angular component's mean is taken in its own documented window - [0, 2pi) for 0..2pi angles, [-pi, pi) for -pi..pi angles (a full turn wide, so where the wrap point sits cannot change which "
                 "angle the mean represents) - with the filter's mean weights; a linear component's mean is the plain weighted sum")
def windows(vc):
    from resonaate.physics.measurements import IsAngle
    import resonaate.physics.measurements as pm
    calls = []

    def amean(meas, weights=None, high=None, low=None):
        calls.append((meas, weights, low, high))
        return 0.25
    vc.install(UK + "@angularMean", amean)
    dt = object if vc.symbolic else float
    w = np.array([vc.real(f"w{i}", -3, 3) for i in range(3)], dtype=dt)
    pts = vc.mat("pts", 3, 3, -7, 7)
    f = vc.new(UK + "UnscentedKalmanFilter", mean_weight=w)
    out = f.calcMeasurementMean(pts, [IsAngle.ANGLE_0_2PI, IsAngle.NOT_ANGLE, IsAngle.ANGLE_NEG_PI_PI])
    pi = vc.pi
    tol = 1e-4  # (the window bounds are module constants: doubles next to the symbolic pi, which is only known to 1e-5)
    ok = len(calls) == 2 and all(c[1] is w for c in calls) and calls[0][0] is not None
    parts = [ok, vc.close(calls[0][2], 0, tol), vc.close(calls[0][3], 2 * pi, tol), vc.close(calls[1][2], -pi, tol), vc.close(calls[1][3], pi, tol),
             vc.eq(np.asarray(calls[0][0]), pts[0], tol), vc.eq(np.asarray(calls[1][0]), pts[2], tol),
             vc.eq(out[1], np.dot(pts[1], w), 1e-12), vc.eq(out[0], 0.25, tol), vc.eq(out[2], 0.25, tol)]
    vc.ensure("O-C16-window.mean-uses-own-window", vc.And(*parts), note=str([str(p_)[:60] for p_ in parts]))
    # in symbolic mode the module constant is the extracted namespace's (symbolic pi); natively the real module's
    vm = pm.VALID_ANGLE_MAP
    vc.ensure("O-C16-window.map", bool(set(vm) == {IsAngle.ANGLE_0_2PI, IsAngle.ANGLE_NEG_PI_PI} and abs(vm[IsAngle.ANGLE_0_2PI][0]) < 1e-15 and abs(vm[IsAngle.ANGLE_0_2PI][1] - 2 * np.pi) < 1e-12
                                           and abs(vm[IsAngle.ANGLE_NEG_PI_PI][0] + np.pi) < 1e-12 and abs(vm[IsAngle.ANGLE_NEG_PI_PI][1] - np.pi) < 1e-12) if not vc.symbolic else True)


GPF = "resonaate.estimation.particle.genetic_particle_filter:"


@obligation("C16", "gpf_residuals", ensures=["O-C16-gpf.flags-per-component", "O-C16-gpf.residual-ranges"], fns=[GPF + "GeneticParticleFilter.calculateResidualsFromObservations", M + "vecResiduals"], mode="R",
            bounded="stack of three observations with layouts (angle, angle), (angle, linear, linear), (linear): all measured and predicted values symbolic; 2 particles",
            note="the particle filter's stacked residual treats exactly the angular components of EVERY stacked observation as angles (flags concatenated observation by observation, in stack order), so angular residuals "
                 "lie in (-pi, pi] whatever the values, and linear components are plain differences however large - for a stack whose observations have different layouts")
def gpf_residuals(vc):
    from resonaate.physics.measurements import IsAngle
    layouts = [[IsAngle.ANGLE_0_2PI, IsAngle.ANGLE_NEG_PI_PI], [IsAngle.ANGLE_0_2PI, IsAngle.NOT_ANGLE, IsAngle.NOT_ANGLE], [IsAngle.NOT_ANGLE]]
    dt = object if vc.symbolic else float
    pop = np.array([[1.0, 2.0], [3.0, 4.0]], dtype=float)  # 2 state components x 2 particles (the measurement stand-ins below ignore the state values)
    obs, want_flags, ys, preds = [], [], [], []
    for k, lay in enumerate(layouts):
        pred = [[(vc.angle if lay[j] != IsAngle.NOT_ANGLE else vc.real)(f"p{k}_{j}_{m}", -50, 50) for j in range(len(lay))] for m in range(2)]
        y = np.array([(vc.angle if a != IsAngle.NOT_ANGLE else vc.real)(f"y{k}_{j}", -50, 50) for j, a in enumerate(lay)], dtype=dt)

        class Meas:
            angular_values = list(lay)

            def __init__(self, pred):
                self.pred, self.n = pred, 0

            def calculateMeasurement(self, sensor_eci, state, utc, noisy=False):
                m = 0 if state[0] == 1.0 else 1  # which particle
                return {f"c{j}": self.pred[m][j] for j in range(len(self.pred[m]))}
        obs.append(_NS(julian_date=2459000.5, sensor_eci=None, measurement=Meas(pred), measurement_states=y, sensor_id=7, target_id=3))
        want_flags += [a != IsAngle.NOT_ANGLE for a in lay]
        ys.append(y)
        preds.append(pred)
    if vc.symbolic:
        vc.stub(M + "vecWrapAngle2Pi", lambda a: np.array([[common.WRAP2PI(x) for x in row] for row in np.asarray(a, dtype=object)], dtype=object) if np.asarray(a).ndim == 2
                else np.array([common.WRAP2PI(x) for x in np.asarray(a, dtype=object)], dtype=object))
        vc.stub(M + "vecWrapAngleNeg", lambda a: np.array([[common.WRAPPI(x) for x in row] for row in np.asarray(a, dtype=object)], dtype=object))
        vc.stub(GPF + "@julianDateToDatetime", lambda jd: jd)
        vc.stub(GPF + "@JulianDate", lambda jd: jd)
    f = vc.new(GPF + "GeneticParticleFilter", population=pop)
    true_y, res = f.calculateResidualsFromObservations(obs)
    vc.ensure("O-C16-gpf.flags-per-component", [bool(x) for x in f.is_angular] == want_flags and res.shape == (len(want_flags), 2))
    pi = vc.pi
    conds, row = [], 0
    for k, lay in enumerate(layouts):
        for j, a in enumerate(lay):
            for m in range(2):
                r = res[row, m]
                if a != IsAngle.NOT_ANGLE:
                    conds.append(vc.And(r > -pi, r <= pi) if vc.symbolic else (-np.pi < r <= np.pi + 1e-12))
                else:
                    conds.append(vc.eq(r, preds[k][m][j] - ys[k][j], 1e-12))
            row += 1
    vc.ensure("O-C16-gpf.residual-ranges", vc.And(*conds))
