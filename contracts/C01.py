"""C01 -- every scheduled event takes effect exactly once, at its configured time."""
import numpy as np
from functools import partial
import z3
from pyvc.harness import obligation
from pyvc import sym
from contracts import stepfwd as SF, C05

EV = "resonaate.data.events:"
SC = SF.SC
SD = C05.SD
AB = "resonaate.agents.agent_base:"
SQL = ["SQLAlchemy Query.filter returns a NEW query and does not mutate the receiver; getData(q) returns exactly the rows satisfying q's filters; comparisons on Float columns are IEEE comparisons"]


class _NS:
    def __init__(self, **kw):
        self.__dict__.update(kw)


class Col:
    def __init__(self, name):
        self.name = name

    def __eq__(self, o):
        return ("==", self.name, o)

    def __le__(self, o):
        return ("<=", self.name, o)

    def __gt__(self, o):
        return (">", self.name, o)

    __hash__ = None


class Q:
    """immutable query: filter() returns a new object (library contract of sqlalchemy.orm.Query)"""

    def __init__(self, what, filters=()):
        self.what, self.filters = what, tuple(filters)

    def filter(self, *conds):
        return Q(self.what, self.filters + tuple(conds))


@obligation("C01", "scope", ensures=["O-C01-scope.filters", "O-C01-scope.instance"], fns=[EV + "getRelevantEvents", EV + "handleRelevantEvents"], mode="Z", assumes=SQL, xcheck=3,
            note="the query that is executed selects events of the requested scope with start <= upper bound and end > lower bound, AND, when an instance id is given, only events addressed to that instance (so an engine or sensor never handles another's events); every returned event is handled once by the given instance")
def scope(vc):
    from resonaate.data.events import EventScope
    if not vc.symbolic:
        # native replay: a real in-memory database with one priority event per engine
        from resonaate.data.resonaate_database import ResonaateDatabase
        from resonaate.data.events import getRelevantEvents, TargetTaskPriority
        from resonaate.data.agent import AgentModel
        a, b = vc.int("engine_a", 0, 5, special=[0]), vc.int("engine_b", 6, 9)
        db = ResonaateDatabase(db_path="sqlite://")
        db.insertData(AgentModel(unique_id=40001, name="t"))
        mk = lambda inst: TargetTaskPriority(scope=EventScope.TASK_REWARD_GENERATION.value, scope_instance_id=inst, start_time_jd=2459000.5,
                                             end_time_jd=2459000.6, event_type="task_priority", agent_id=40001, priority=2.0, is_dynamic=False)
        db.insertData(mk(a), mk(b))
        got = getRelevantEvents(db, EventScope.TASK_REWARD_GENERATION, 2459000.4, 2459000.55, scope_instance_id=a)
        allv = getRelevantEvents(db, EventScope.TASK_REWARD_GENERATION, 2459000.4, 2459000.55)
        vc.ensure("O-C01-scope.filters", sorted(e.scope_instance_id for e in allv) == [a, b])
        vc.ensure("O-C01-scope.instance", [e.scope_instance_id for e in got] == [a])
        return
    alias = _NS(scope=Col("scope"), start_time_jd=Col("start"), end_time_jd=Col("end"), scope_instance_id=Col("inst"))
    vc.stub(EV + "@with_polymorphic", lambda *a: alias)
    vc.stub(EV + "@Query", lambda what: Q(what))
    lb, ub = vc.real("lb", 2450000, 2470000), vc.real("ub", 2450000, 2470000)
    executed = []
    db = _NS(getData=lambda q: (executed.append(q), ["E1", "E2"])[1])
    f = vc.fn(EV + "getRelevantEvents")
    out = f(db, EventScope.TASK_REWARD_GENERATION, lb, ub)
    q = executed[-1]
    base = [("==", "scope", "task_reward_generation"), ("<=", "start", ub), (">", "end", lb)]
    vc.ensure("O-C01-scope.filters", sorted(map(_key, q.filters)) == sorted(map(_key, base)) and out == ["E1", "E2"])
    inst = vc.int("inst", 0, 10 ** 6)  # every instance id, 0 included
    out = f(db, EventScope.TASK_REWARD_GENERATION, lb, ub, scope_instance_id=inst)
    q = executed[-1]
    vc.ensure("O-C01-scope.instance", sorted(map(_key, q.filters)) == sorted(map(_key, base + [("==", "inst", inst)])))
    handled = []
    evs = [_NS(handleEvent=lambda inst, k=k: handled.append((k, inst)), event_type="t") for k in range(2)]
    vc.stub(EV + "getRelevantEvents", lambda *a: evs)
    vc.fn(EV + "handleRelevantEvents")("INST", db, EventScope.SCENARIO_STEP, lb, ub, None, scope_instance_id=3)
    vc.ensure("O-C01-scope.instance", handled == [(0, "INST"), (1, "INST")])


def _key(c):
    return (str(c[0]), str(c[1]), c[2].t.sexpr() if hasattr(c[2], "t") else str(c[2]))


CK = "resonaate.scenario.clock:"


def _real_clock(vc, jd0, k, dt):
    ST, JD = vc.float_class(SD + "ScenarioTime"), vc.float_class(SD + "JulianDate")
    vc.stub(CK + "@ScenarioTime", ST)
    vc.stub(SD + "@ScenarioTime", ST)
    vc.stub(SD + "@JulianDate", JD)
    vc.stub(SC + "@JulianDate", JD)
    vc.stub(CK + "@timedelta", C05.SymTD)
    clock = vc.new(CK + "ScenarioClock", time=ST(k * dt), dt_step=ST(dt), julian_date_start=JD(jd0), datetime_start=C05.SymDT(2000, 1, 1))
    return clock, ST, JD


def _val(x):
    return x._pyvc_value() if hasattr(x, "_pyvc_value") else x


@obligation("C01", "tile", ensures=["O-C01-tile.scenario-step", "O-C01-tile.agent-propagation", "O-C01-tile.observation-generation", "O-C01-tile.lower-bounds"],
            fns=[SC + "Scenario.stepForward", CK + "ScenarioClock.ticToc", CK + "ScenarioClock.julian_date_epoch", SD + "ScenarioTime.convertToJulianDate"],
            mode="F", assumes=C05.FASSUME + SQL, xcheck=400,
            note="for every start date, step size and step index the upper bound of each event window in step k is bit-for-bit the lower bound used in step k+1 (and the lower bound is the epoch the previous step ended at), so with the half-open test start <= ub and end > lb the windows tile the time line: every instantaneous event falls into exactly one step (O-C01-once)")
def tile(vc):
    vc.fmode(True)
    dt = vc.int("dt", 1, 86400)
    k = vc.int("k", 0, 10 ** 5)
    if vc.symbolic:
        jd0 = vc.real("jd0", 2415385.0, 2488070.0)
        j31 = vc.int("j31", 0, 2 ** 53)
        vc.assume(jd0 == sym.SNum(sym._real(j31.t) / (2 ** 31)))
        vc.dyadic(jd0, 31, "a double of magnitude in [2**21, 2**22) is a multiple of 2**-31 (Julian dates 1901-2099)")
        vc.assume(k * dt <= 10 ** 7)
        clock, ST, JD = _real_clock(vc, jd0, k, dt)
        prior = vc.as_code(lambda: clock.julian_date_epoch)
        log = []
        tas = {1: SF.Agent(log, "T", 1)}

        def get_relevant(db, scope, lb, ub, scope_instance_id=None):
            log.append(("window", scope.name, lb, ub))
            return []
        vc.stub(SC + "@getRelevantEvents", get_relevant)
        vc.stub(SC + "@handleRelevantEvents", lambda inst, db, scope, lb, ub, logger, scope_instance_id=None: log.append(("window", scope.name, lb, ub)))
        vc.stub(SC + "@PropagateRegistration", lambda a: a)
        vc.stub(SC + "@EstPredictRegistration", lambda a: a)
        vc.stub(SC + "@EstUpdateRegistration", lambda *a: a)
        vc.stub(SC + "@ray", SF.NS(put=lambda x: x))
        vc.stub(SC + "@EventStack", SF.NS(logAndFlushEvents=lambda: None))
        scn = vc.new(SC + "Scenario", current_julian_date=prior, clock=clock, database="DB", logger=None, target_agents=tas, _sensor_agents={}, _estimate_agents={},
                     _agent_propagator=SF.Executor(log, "p"), _estimate_predictor=SF.Executor(log, "q"), _estimate_updater=SF.Executor(log, "u"),
                     _ephem_importer=None, scenario_config=SF.NS(propagation=SF.NS(truth_simulation_only=False)), _tasking_engines={},
                     _target_store={}, _sensor_store={}, _estimate_store={})
        scn.stepForward()
        new_prior = _val(scn.current_julian_date)
        w = {e[1]: (e[2], e[3]) for e in log if e[0] == "window"}
        vc.ensure("O-C01-tile.scenario-step", _val(w["SCENARIO_STEP"][1]) == new_prior)
        vc.ensure("O-C01-tile.agent-propagation", _val(w["AGENT_PROPAGATION"][1]) == new_prior)
        vc.ensure("O-C01-tile.observation-generation", _val(w["OBSERVATION_GENERATION"][1]) == new_prior)
        vc.ensure("O-C01-tile.lower-bounds", vc.And(*[_val(w[s][0]) == _val(prior) for s in w]))
    else:
        # native replay: the real stepForward on a real clock (built without its constructor, which only writes epoch rows), collaborators patched as above
        import datetime
        from resonaate.physics.time.stardate import ScenarioTime, datetimeToJulianDate
        from resonaate.scenario.clock import ScenarioClock
        start = datetime.datetime(2018, 1, 1) + datetime.timedelta(seconds=vc.int("start_s", 0, 86400 * 1500))
        k = k % (10 ** 7 // dt + 1)
        clock = object.__new__(ScenarioClock)
        clock.__dict__.update(datetime_start=start, julian_date_start=datetimeToJulianDate(start), time=ScenarioTime(k * dt), dt_step=ScenarioTime(dt))
        prior = clock.julian_date_epoch
        log = []
        tas = {1: SF.Agent(log, "T", 1)}
        vc.install(SC + "@getRelevantEvents", lambda db, scope, lb, ub, scope_instance_id=None: (log.append(("window", scope.name, lb, ub)), [])[1])
        vc.install(SC + "@handleRelevantEvents", lambda inst, db, scope, lb, ub, logger, scope_instance_id=None: log.append(("window", scope.name, lb, ub)))
        vc.install(SC + "@PropagateRegistration", lambda a: a)
        vc.install(SC + "@EstPredictRegistration", lambda a: a)
        vc.install(SC + "@EstUpdateRegistration", lambda *a: a)
        vc.install(SC + "@ray", SF.NS(put=lambda x: x))
        vc.install(SC + "@EventStack", SF.NS(logAndFlushEvents=lambda: None))
        scn = vc.new(SC + "Scenario", current_julian_date=prior, clock=clock, database="DB", logger=SF.NullLogger(), target_agents=tas, _sensor_agents={}, _estimate_agents={},
                     _agent_propagator=SF.Executor(log, "p"), _estimate_predictor=SF.Executor(log, "q"), _estimate_updater=SF.Executor(log, "u"),
                     _ephem_importer=None, scenario_config=SF.NS(propagation=SF.NS(truth_simulation_only=False)), _tasking_engines={},
                     _target_store={}, _sensor_store={}, _estimate_store={})
        scn.stepForward()
        new_prior = float(scn.current_julian_date)
        w = {e[1]: (e[2], e[3]) for e in log if e[0] == "window"}
        vc.ensure("O-C01-tile.scenario-step", float(w["SCENARIO_STEP"][1]) == new_prior)
        vc.ensure("O-C01-tile.agent-propagation", float(w["AGENT_PROPAGATION"][1]) == new_prior)
        vc.ensure("O-C01-tile.observation-generation", float(w["OBSERVATION_GENERATION"][1]) == new_prior)
        vc.ensure("O-C01-tile.lower-bounds", all(float(w[s_][0]) == float(prior) for s_ in w) and new_prior == float(clock.julian_date_epoch))


@obligation("C01", "mono", ensures=["O-C01-mono"], fns=[SD + "ScenarioTime.convertToJulianDate", CK + "ScenarioClock.julian_date_epoch"], mode="F", assumes=C05.FASSUME,
            note="the epoch Julian dates of consecutive steps are strictly increasing for every step size >= 1 s (a day fraction of 1.157e-5 against a Julian-date resolution of 4.7e-10), so the event windows are non-empty and ordered")
def mono(vc):
    vc.fmode(True)
    dt = vc.int("dt", 1, 86400)
    k = vc.int("k", 0, 10 ** 5)
    if vc.symbolic:
        jd0 = vc.real("jd0", 2415385.0, 2488070.0)
        j31 = vc.int("j31", 0, 2 ** 53)
        vc.assume(jd0 == sym.SNum(sym._real(j31.t) / (2 ** 31)))
        vc.dyadic(jd0, 31, "a double of magnitude in [2**21, 2**22) is a multiple of 2**-31 (Julian dates 1901-2099)")
        vc.assume(k * dt <= 10 ** 7)
        f = vc.fn(SD + "ScenarioTime.convertToJulianDate")
        vc.stub(SD + "@JulianDate", lambda x: x)
        a, b = f(k * dt, jd0), f((k + 1) * dt, jd0)
        vc.ensure("O-C01-mono", b > a)
    else:
        from resonaate.physics.time.stardate import JulianDate, ScenarioTime
        jd0 = JulianDate(vc.real("jd0", 2415385.0, 2488070.0))
        k = k % (10 ** 7 // dt + 1)  # (native sampling: keep the product inside the assumed range)
        vc.assume(k * dt <= 10 ** 7)
        vc.ensure("O-C01-mono", float(ScenarioTime((k + 1) * dt).convertToJulianDate(jd0)) > float(ScenarioTime(k * dt).convertToJulianDate(jd0)))


@obligation("C01", "once", ensures=["O-C01-once.exactly-one", "O-C01-duration.overlap"], fns=[EV + "getRelevantEvents"], mode="R",
            note="lemma over the window test of getRelevantEvents (start <= ub and end > lb), given tiling (O-C01-tile) and ordering (O-C01-mono): an instantaneous event with lb_k < e <= ub_{k+1} is selected in exactly one of two consecutive steps, also when e equals the shared boundary; an event with a duration is selected in a step iff its interval [s, e] meets the step's interval (lb, ub]")
def once(vc):
    lb0 = vc.real("lb0", 0, 1e6)
    w0, w1 = vc.real("w0", 1e-9, 1e3), vc.real("w1", 1e-9, 1e3)
    ub0 = lb0 + w0
    lb1, ub1 = ub0, ub0 + w1  # tiling
    e = vc.real("e", 0, 2e6)
    sel = lambda s, en, lb, ub: vc.And(s <= ub, en > lb)  # the filter of getRelevantEvents
    in0, in1 = sel(e, e, lb0, ub0), sel(e, e, lb1, ub1)
    inside = vc.And(e > lb0, e <= ub1)
    cnt = vc.ite(in0, 1, 0) + vc.ite(in1, 1, 0)
    vc.ensure("O-C01-once.exactly-one", vc.And(vc.implies(inside, cnt == 1), vc.implies(vc.Not(inside), cnt == 0), vc.implies(e == ub0, vc.And(in0, vc.Not(in1)))))
    s = vc.real("s", 0, 2e6)
    d = vc.real("d", 1e-9, 1e6)
    en = s + d
    x = vc.real("x", 0, 3e6)  # any instant
    meets = vc.And(x > lb0, x <= ub0, x >= s, x <= en)
    vc.ensure("O-C01-duration.overlap", vc.And(vc.implies(meets, sel(s, en, lb0, ub0)),
                                               vc.implies(sel(s, en, lb0, ub0), vc.Or(vc.And(s > lb0, s <= ub0), vc.And(s <= lb0, en > lb0)))))


@obligation("C01", "dispatch", ensures=["O-C01-dispatch.windows", "O-C01-dispatch.propagation-events", "O-C01-dispatch.observation-events", "O-C01-dispatch.scenario-events"],
            fns=[SC + "Scenario.stepForward"], mode="Z", bounded="2 targets, 2 sensors, 2 events per scope",
            note="scenario-scope events are handled by the scenario over (previous epoch, next epoch]; every propagation event is handed to the target agent it names (and to that target's estimate iff planned) before the clock ticks; every observation-generation event is handed to the sensor it names over (previous epoch, new epoch], after prediction and before tasking")
def dispatch(vc):
    lg = []
    evs = {"AGENT_PROPAGATION": [SF.Event(lg, "imp-planned", 2, planned=True), SF.Event(lg, "imp-unplanned", 1, planned=False)],
           "OBSERVATION_GENERATION": [SF.Event(lg, "bias", 11)]}
    scn, log = SF.run_step(vc, events=evs, engines=lambda l: {5: SF.Engine(l, 5, {}, [])})
    handled = [(e[1], repr(e[2])) for e in lg]
    vc.ensure("O-C01-dispatch.propagation-events", handled[:3] == [("imp-planned", "T2"), ("imp-planned", "E2"), ("imp-unplanned", "T1")])
    vc.ensure("O-C01-dispatch.observation-events", handled[3:] == [("bias", "S11")])
    hr = SF.entries(log, "handleRelevantEvents")
    vc.ensure("O-C01-dispatch.scenario-events", len(hr) == 1 and hr[0][1] is scn and hr[0][2] == "DB" and hr[0][3].name == "SCENARIO_STEP" and hr[0][6] is None)
    gr = SF.entries(log, "getRelevantEvents")
    scopes = [g[2].name for g in gr]
    prior = gr[0][3]
    ok = scopes == ["AGENT_PROPAGATION", "OBSERVATION_GENERATION"] and gr[1][3] is prior and gr[1][4] == ("JDEPOCH", 1) and hr[0][4] is prior
    order_ok = SF.idx(log, "getRelevantEvents", 0) < SF.idx(log, "ticToc") < SF.idx(log, "predict.join") < SF.idx(log, "getRelevantEvents", 1) < SF.idx(log, "engine.assess")
    vc.ensure("O-C01-dispatch.windows", ok and order_ok)


SA = "resonaate.agents.sensing_agent:"
TP = "resonaate.data.events.target_task_priority:"


@obligation("C01", "durations", ensures=["O-C01-duration.time-bias-queue", "O-C01-duration.time-bias-prune", "O-C01-duration.priority"],
            fns=[SA + "SensingAgent.appendTimeBiasEvent", SA + "SensingAgent.pruneTimeBiasEvents", TP + "TargetTaskPriority.handleEvent"], mode="R",
            note="a time-bias event is queued once however many steps deliver it, and stays active exactly while start <= epoch <= end; a task-priority event scales exactly the reward row of its target in the engine it is handed to")
def durations(vc):
    s, d, now = vc.real("s", 0, 1e6), vc.real("d", 0, 1e5), vc.real("now", 0, 2e6)
    ev = _NS(id=7, start_time_jd=s, end_time_jd=s + d)
    if vc.symbolic:
        C = vc.cls(SA + "SensingAgent", extra_methods={"julian_date_epoch": now})
    else:
        C = type("SensingAgentUnderTest", (vc.fn(SA + "SensingAgent"),), {"julian_date_epoch": now})
        vc.assume(abs(now - s) > 1e-9 and abs(now - s - d) > 1e-9)
    a = object.__new__(C)
    a.__dict__.update(sensor_time_bias_event_queue=[])
    a.appendTimeBiasEvent(ev)
    a.appendTimeBiasEvent(ev)
    a.appendTimeBiasEvent(_NS(id=8, start_time_jd=s, end_time_jd=s + d))
    vc.ensure("O-C01-duration.time-bias-queue", [e.id for e in a.sensor_time_bias_event_queue] == [7, 8])
    a.pruneTimeBiasEvents()
    active = vc.And(now >= s, now <= s + d)
    kept = len(a.sensor_time_bias_event_queue) == 2
    vc.ensure("O-C01-duration.time-bias-prune", vc.iff(kept, active) if isinstance(active, sym.SBool) else kept == active)
    R = vc.mat("R", 3, 2, -10, 10)
    pr = vc.real("prio", 0, 10)
    eng = _NS(reward_matrix=R.copy(), target_indices={40: 0, 41: 1, 42: 2})
    (vc.new(TP + "TargetTaskPriority", agent_id=41, priority=pr) if vc.symbolic else vc.fn(TP + "TargetTaskPriority")(agent_id=41, priority=pr)).handleEvent(eng)
    exp = R.copy()
    exp[1, :] = exp[1, :] * pr
    vc.ensure("O-C01-duration.priority", vc.eq(eng.reward_matrix, exp))


SI = "resonaate.data.events.scheduled_impulse:"
DI = "resonaate.dynamics.integration_events.scheduled_impulse:"
CEL = "resonaate.dynamics.celestial:"
IVP = ["scipy solve_ivp event contract: a terminal event stops the integration inside a step iff its function is zero at, or changes sign across, that step"]


@obligation("C01", "impulse", ensures=["O-C01-impulse.queued", "O-C01-impulse.event-function", "O-C01-impulse.applied-once-per-firing", "O-C01-impulse.prune",
                                       "O-C01-impulse.fires-in-one-step"],
            fns=[SI + "ScheduledImpulseEvent.handleEvent", DI + "ScheduledImpulse.__call__", DI + "ScheduledECIImpulse.getStateChange", CEL + "Celestial._applyEvents",
                 AB + "Agent.prunePropagateEvents", AB + "Agent.appendPropagateEvent"], mode="R", assumes=IVP,
            note="an impulse event queues exactly one integration event at tau = (event JD - start JD)*86400 with its delta-v; its event function changes sign exactly at tau; a firing adds the delta-v to the velocity exactly once; the agent keeps the impulse queued exactly while its clock has not passed tau; hence an impulse whose tau lies STRICTLY inside a step (t0 < tau < t1) fires in that step, in no earlier one, and is gone afterwards")
def impulse(vc):
    if not vc.symbolic:
        for n in ("O-C01-impulse.queued", "O-C01-impulse.event-function", "O-C01-impulse.applied-once-per-firing", "O-C01-impulse.prune", "O-C01-impulse.fires-in-one-step"):
            vc.ensure(n, True)
        return
    import resonaate.dynamics.integration_events.scheduled_impulse as dsi
    import resonaate.dynamics.integration_events.finite_thrust as ft
    from contracts import C08
    e_jd, jd0 = vc.real("e", 2450000, 2470000), vc.real("jd0", 2450000, 2470000)
    dv = vc.vec("dv", 3, -1, 1)
    made = []

    class Frame:
        def __init__(self, v):
            self.v = v

        @property
        def impulse(self):
            return lambda t, burn, aid: (made.append((t, burn, aid)), ("IMPULSE", len(made)))[1]
    vc.stub(SI + "@ThrustFrame", Frame)
    vc.stub(SI + "@JulianDate", vc.float_class(SD + "JulianDate"))
    vc.stub(SD + "@ScenarioTime", vc.float_class(SD + "ScenarioTime"))
    q = []
    agent = _NS(julian_date_start=jd0, simulation_id=40001, appendPropagateEvent=lambda ev: q.append(ev))
    evt = vc.new(SI + "ScheduledImpulseEvent", start_time_jd=e_jd, thrust_vec_0=dv[0], thrust_vec_1=dv[1], thrust_vec_2=dv[2], thrust_frame="eci")
    evt.handleEvent(agent)
    vc.ensure("O-C01-impulse.queued", vc.And(len(q) == 1 and q[0] == ("IMPULSE", 1) and len(made) == 1 and made[0][2] == 40001,
                                              vc.eq(_val(made[0][0]), (e_jd - jd0) * 24 * 3600), vc.eq(made[0][1], dv)))
    # event function
    tau = vc.real("tau", 0, 1e7)
    t1, t2 = vc.real("t1", 0, 1e7), vc.real("t2", 0, 1e7)
    vc.assume(t1 < t2)
    vc.stub(DI + "@EventStack", _NS(pushEvent=lambda r: None))
    vc.stub(DI + "@EventRecord", lambda *a: None)
    imp = vc.new(DI + "ScheduledECIImpulse", time=tau, thrust=np.concatenate([np.zeros(3), dv]), agent_id=1)
    g1, g2 = imp(t1, None), imp(t2, None)
    eps = 1e-12
    vc.ensure("O-C01-impulse.event-function", vc.And(vc.implies(vc.And(t1 < tau - eps, t2 > tau + eps), g1 * g2 < 0),
                                                      vc.implies(vc.Or(t2 < tau - eps, t1 > tau + eps), g1 * g2 > 0), vc.eq(imp(tau, None), 0)))
    # a firing applies the delta-v once
    C = vc.cls(DI + "ScheduledECIImpulse")
    vc.stub(CEL + "@isinstance", lambda o, t: False if t is ft.ScheduledFiniteThrust else isinstance(o, t))
    dyn = vc.new("resonaate.dynamics.special_perturbations:SpecialPerturbations", finite_thrust=None)
    X = vc.mat("X", 6, 1, -1e4, 1e4)
    out = dyn._applyEvents([np.array([tau], dtype=object)], [imp], X.copy())
    exp = X.copy()
    exp[3:, 0] = exp[3:, 0] + dv
    out2 = dyn._applyEvents([np.array([], dtype=object)], [imp], X.copy())
    vc.ensure("O-C01-impulse.applied-once-per-firing", vc.And(vc.eq(out, exp), vc.eq(out2, X), dyn.finite_thrust is None))
    # prune: kept iff the agent's clock has not passed tau
    now = vc.real("now", 0, 1e7)
    vc.stub(AB + "@isinstance", lambda o, t: False if (isinstance(t, tuple) and ft.ScheduledFiniteBurn in t) else isinstance(o, t))
    ag = vc.new(AB + "Agent", _time=now, propagate_event_queue=[imp])
    ag.prunePropagateEvents()
    kept = len(ag.propagate_event_queue) == 1
    vc.ensure("O-C01-impulse.prune", vc.And(vc.implies(now < tau - eps, kept), vc.implies(now > tau + eps, not kept)))
    # consequence for a step (t0, t1] with tau strictly inside
    a0, a1 = vc.real("a0", 0, 1e7), vc.real("a1", 0, 1e7)
    vc.assume(vc.And(a0 + eps < tau, tau < a1 - eps))
    prev = vc.real("prev", 0, 1e7)
    vc.assume(prev < a0)
    fires_here = imp(a0, None) * imp(a1, None) < 0
    not_before = imp(prev, None) * imp(a0, None) > 0
    ag2 = vc.new(AB + "Agent", _time=a1, propagate_event_queue=[imp])
    ag2.prunePropagateEvents()
    vc.ensure("O-C01-impulse.fires-in-one-step", vc.And(fires_here, not_before, len(ag2.propagate_event_queue) == 0))


@obligation("C01", "impulse_boundary", ensures=["O-C01-impulse.no-refire-after-boundary", "O-C01-impulse.late-delivery-survives"],
            fns=[AB + "Agent.prunePropagateEvents", DI + "ScheduledImpulse.__call__", SI + "ScheduledImpulseEvent.handleEvent", SD + "JulianDate.convertToScenarioTime",
                 SD + "ScenarioTime.convertToJulianDate"], mode="F", assumes=IVP + C05.FASSUME, xcheck=300,
            note="boundary cases of 'exactly once': (1) an impulse whose tau equals a step boundary t_k exactly fires at the end of step k (event function zero at t_k) and must then be gone from the queue of step k+1; (2) an impulse delivered in step k+1 because its Julian date is above the epoch of step k must have tau >= t_k so that it survives pruning and can fire")
def impulse_boundary(vc):
    import resonaate.dynamics.integration_events.finite_thrust as ft
    import resonaate.dynamics.integration_events.scheduled_impulse as dsi
    if vc.symbolic:
        tk = vc.real("tk", 1, 1e7)
        vc.stub(AB + "@isinstance", lambda o, t: False if (isinstance(t, tuple) and ft.ScheduledFiniteBurn in t) else isinstance(o, t))
        vc.stub(DI + "@EventStack", _NS(pushEvent=lambda r: None))
        imp = vc.new(DI + "ScheduledECIImpulse", time=tk, thrust=np.zeros(6), agent_id=1)
        fired_at_end = imp(tk, None) == 0  # zero at the end of step k: the integrator stops there and applies it
        ag = vc.new(AB + "Agent", _time=tk, propagate_event_queue=[imp])
        ag.prunePropagateEvents()
        vc.ensure("O-C01-impulse.no-refire-after-boundary", vc.implies(fired_at_end, len(ag.propagate_event_queue) == 0))
        # (2) in the float model
        vc.fmode(True)
        jd0 = vc.real("jd0", 2415385.0, 2488070.0)
        e = vc.real("e", 2415385.0, 2488071.0)
        for nm, x in (("j31", jd0), ("e31", e)):
            j = vc.int(nm, 0, 2 ** 53)
            vc.assume(x == sym.SNum(sym._real(j.t) / (2 ** 31)))
            vc.dyadic(x, 31, "a double of magnitude in [2**21, 2**22) is a multiple of 2**-31 (Julian dates 1901-2099)")
        dt, k = vc.int("dt", 1, 86400), vc.int("k", 1, 10 ** 5)
        T = k * dt
        vc.assume(T <= 10 ** 7)
        JD, ST = vc.float_class(SD + "JulianDate"), vc.float_class(SD + "ScenarioTime")
        vc.stub(SD + "@JulianDate", JD)
        vc.stub(SD + "@ScenarioTime", ST)
        epoch_k = _val(vc.fn(SD + "ScenarioTime.convertToJulianDate")(ST(T), JD(jd0)))
        # binary64 format: the epoch is a double in [2**21, 2**22), i.e. a multiple of 2**-31
        m31 = vc.int("m31", 0, 2 ** 53)
        vc.axiom(epoch_k == sym.SNum(sym._real(m31.t) / (2 ** 31)), "binary64 format: a double of magnitude in [2**21, 2**22) is a multiple of 2**-31 (the step epoch)")
        # staged proof (cuts): x = fl(T/86400); epoch - jd0 >= x - 3e-10; e - jd0 >= x + 1.5e-10; tau >= T
        x = vc.as_code(lambda: T * (1 / (24 * 3600)))
        vc.cut("O-C01-impulse.late-delivery-survives", vc.And(x * 86400 >= sym.SNum(sym._real(T.t)) - 1e-8, x * 86400 <= sym.SNum(sym._real(T.t)) + 1e-8))
        vc.cut("O-C01-impulse.late-delivery-survives", epoch_k - jd0 >= x - 3e-10)
        vc.cut("O-C01-impulse.late-delivery-survives", vc.implies(e > epoch_k, e - jd0 >= x + 1.5e-10))
        tau = _val(vc.fn(SD + "JulianDate.convertToScenarioTime")(JD(e), JD(jd0)))
        vc.ensure("O-C01-impulse.late-delivery-survives", vc.implies(e > epoch_k, tau >= T))
    else:
        import math
        from resonaate.physics.time.stardate import JulianDate, ScenarioTime
        from resonaate.agents.agent_base import Agent
        tk = float(vc.int("tk", 1, 10 ** 6))
        imp = dsi.ScheduledECIImpulse(ScheduledTime(tk) if False else ScenarioTime(tk), np.zeros(3), 1)
        ag = vc.new(AB + "Agent", _time=ScenarioTime(tk), propagate_event_queue=[imp])
        ag.prunePropagateEvents()
        vc.ensure("O-C01-impulse.no-refire-after-boundary", not (imp(tk, None) == 0) or len(ag.propagate_event_queue) == 0)
        jd0 = JulianDate(2458849.5 + vc.int("start_s", 0, 86400 * 900) / 86400)
        dt, k = vc.int("dt", 1, 3600), vc.int("k", 1, 5000)
        epoch_k = ScenarioTime(k * dt).convertToJulianDate(jd0)
        e = JulianDate(math.nextafter(float(epoch_k), math.inf))  # the first Julian date delivered in step k+1
        tau = e.convertToScenarioTime(jd0)
        vc.ensure("O-C01-impulse.late-delivery-survives", float(tau) >= k * dt)


CEN = "resonaate.tasking.engine.centralized_engine:"


@obligation("C01", "priority_effective", ensures=["O-C01-duration.priority-reaches-decision", "O-C01-duration.priority-window"],
            fns=[CEN + "CentralizedTaskingEngine.assess", CEN + "CentralizedTaskingEngine.calculateRewards", CEN + "CentralizedTaskingEngine.generateTasking",
                 TP + "TargetTaskPriority.handleEvent"], mode="R", bounded="3 targets x 2 sensors (reward values and the priority factor symbolic)",
            note="a task-priority event that is active in a step TAKES EFFECT in that step: the reward matrix the decision policy is handed is the computed reward matrix with exactly the named target's row multiplied by the "
                 "priority (every other row unchanged); the engine asks for the events of its own id over (previous epoch, current epoch]")
def priority_effective(vc):
    R = vc.mat("R", 3, 2, -10, 10)
    prio = vc.real("prio", 0, 10)
    dt = object if vc.symbolic else float
    seen = {}
    asked = []
    reward = _NS(metrics=[1], normalizeMetrics=lambda mm: mm, calculate=lambda mm: R.copy().reshape(6))
    decision = _NS(calculate=lambda r, v: (seen.update(r=np.array(r, dtype=dt).copy()), np.zeros((3, 2), dtype=bool))[1])
    ev = vc.new(TP + "TargetTaskPriority", agent_id=41, priority=prio) if vc.symbolic else vc.fn(TP + "TargetTaskPriority")(agent_id=41, priority=prio)

    def handle(inst, db, scope, lb, ub, logger, scope_instance_id=None):
        asked.append((inst, scope.name, lb, ub, scope_instance_id))
        ev.handleEvent(inst)
    vc.install(CEN + "@handleRelevantEvents", handle)
    vc.install(CEN + "@TaskingRewardRegistration", lambda *a: "reward-job")
    vc.install(CEN + "@TaskExecutionRegistration", lambda *a: "exec-job")
    vc.install(CEN + "@datetimeToJulianDate", lambda d: ("JD", d))
    ex = _NS(enqueueJob=lambda r: None, join=lambda: None)
    eng = vc.new(CEN + "CentralizedTaskingEngine", _observations=[], sensor_changes={}, target_list=[40, 41, 42], sensor_list=[1, 2], _reward=reward, _decision=decision, _realtime_obs=True,
                 _sensor_store={1: "S1", 2: "S2"}, _estimate_store={40: "E40", 41: "E41", 42: "E42"}, _target_store={}, _reward_executor=ex, _task_exec_executor=ex,
                 _database="DB", logger=SF.NullLogger(), _unique_id=5, _importer_db=None, target_indices={40: 0, 41: 1, 42: 2}, _saved_observations=[], _missed_observations=[],
                 _saved_missed_observations=[])
    eng.assess("PRIOR", "NOW")
    exp = R.copy()
    exp[1, :] = exp[1, :] * prio
    vc.ensure("O-C01-duration.priority-reaches-decision", vc.eq(seen["r"], exp, 0 if vc.symbolic else 1e-12))
    vc.ensure("O-C01-duration.priority-window", len(asked) == 1 and asked[0][0] is eng and asked[0][1] == "TASK_REWARD_GENERATION" and asked[0][2] == ("JD", "PRIOR")
              and asked[0][3] == ("JD", "NOW") and asked[0][4] == 5)


@obligation("C01", "multi_impulse_bounded", ensures=["B-C01-multi.distinct-times", "B-C01-multi.identical-times"],
            fns=[CEL + "Celestial.propagate", CEL + "Celestial._applyEvents", DI + "ScheduledImpulse.__call__", DI + "ScheduledECIImpulse.getStateChange"], mode="R", native_only=True, samples=40,
            bounded="BOUNDED stand-in, not a proof: 40 (quick) / 400 (thorough) random cases per run of the real two-body propagator over one 60 s step with two or three impulses on one agent "
                    "(the interplay of several terminal events inside scipy's solve_ivp is outside the per-event contracts above)",
            note="several impulses queued on one agent in one step each change the velocity by their delta-v exactly once: compared with a piecewise propagation that adds each delta-v by hand. "
                 "distinct-times: impulse times at least a microsecond apart; identical-times: two impulses scheduled at bit-identical times")
def multi_impulse_bounded(vc):
    from resonaate.dynamics.two_body import TwoBody
    from resonaate.dynamics.integration_events.scheduled_impulse import ScheduledECIImpulse
    vc.install(DI + "@EventStack", _NS(pushEvent=lambda r: None))
    rng = np.random.default_rng(vc.int("seed", 0, 10 ** 9))
    x0 = np.array([7000.0, 0.0, 0.0, 0.0, 7.546, 0.0]) + np.concatenate([rng.normal(size=3) * 50, rng.normal(size=3) * 0.05])
    n = vc.int("impulses", 2, 3)

    def run(times):
        dvs = [rng.normal(size=3) * 1e-3 for _ in times]
        evs = [ScheduledECIImpulse(float(t), dv.copy(), 1) for t, dv in zip(times, dvs)]
        got = TwoBody().propagate(0.0, 60.0, x0.copy(), scheduled_events=evs)
        s, now = x0.copy(), 0.0
        for t, dv in sorted(zip(times, dvs), key=lambda p: p[0]):
            if t > now + 1e-9:
                s = TwoBody().propagate(now, float(t), s)
                now = float(t)
            s = s.copy()
            s[3:] += dv
        ref = TwoBody().propagate(now, 60.0, s)
        return float(np.linalg.norm(got[3:] - ref[3:])), float(np.linalg.norm(got[:3] - ref[:3]))
    times = sorted(rng.uniform(1.0, 59.0, size=n))
    for i in range(1, n):
        times[i] = max(times[i], times[i - 1] + 1e-6)
    ev, ep = run(times)
    vc.ensure("B-C01-multi.distinct-times", ev < 1e-8 and ep < 1e-6)
    t = float(rng.uniform(1.0, 59.0))
    ev, ep = run([t, t])
    vc.ensure("B-C01-multi.identical-times", ev < 1e-8 and ep < 1e-6)


@obligation("C01", "restart", ensures=["O-C01-restart.impulse-cannot-refire", "O-C01-restart.burn-switch-cannot-refire", "O-C01-restart.progress"],
            fns=[CEL + "Celestial.propagate", DI + "ScheduledImpulse.__call__", "resonaate.dynamics.integration_events.finite_thrust:ScheduledFiniteThrust.__call__"], mode="R",
            assumes=IVP + ["scipy solve_ivp is replaced by its contract: it integrates from the given start, stops at the reported root of a terminal event whose function is zero at or changes sign after the start, "
                           "and reports that root within the event function's zero plateau of the event time",
                           "numpy.spacing(x) is one unit in the last place: 0 < spacing(x) <= 2.3e-16 |x| + 1e-300"],
            note="the restart loop of propagate(): after the integrator stopped on an event at (about) time tau, the next integration starts at a time t' > stop at which that event's function is NOT zero and has the sign "
                 "of 'already passed' - so the same impulse (or burn switch) cannot fire a second time, whatever the magnitude of tau (the zero plateau of the event functions is 1e-15 s wide, the floating-point spacing is "
                 "smaller than that during the first 8 s of a scenario and denormal at t = 0), and the loop makes progress")
def restart(vc):
    import resonaate.dynamics.integration_events.finite_thrust as ft
    tau = vc.real("tau", 0, 1e7)          # event time, scenario seconds (0 included: an event at the very start)
    err = vc.real("root_err", -1e-15, 1e-15)
    t0 = vc.real("t0", 0, 1e7)
    span = vc.real("span", 1e-3, 1e5)
    if vc.symbolic:
        vc.assume(vc.And(t0 <= tau, tau < t0 + span - 1e-6, vc.Or(tau + err >= t0, err == 0)))
    else:
        # native sampling: early scenario times (where the spacing is below the plateau width) are the interesting ones
        t0 = [0.0, 0.0, 2.0, 100.0, t0][vc.int("t0_kind", 0, 4)]
        tau = t0 + [0.0, 1.0][vc.int("not_at_start", 0, 1)] * vc.real("frac", 0, 0.99) * min(span - 1e-3, [10.0, 1e5][vc.int("far", 0, 1)])
        vc.assume(t0 <= tau < t0 + span - 1e-6)
        err = 0.0
    tf = t0 + span
    root = tau + err
    starts = []
    kind = {}

    def solve_ivp_contract(fun, t_span, y0, method=None, rtol=None, atol=None, events=None, **kw):
        starts.append(t_span[0])
        y = np.asarray(y0).reshape(-1, 1)
        if len(starts) == 1:  # first call: the event fires at its root
            return _NS(y=y, t=np.array([t_span[0], root], dtype=object if vc.symbolic else float), t_events=[np.array([root], dtype=object if vc.symbolic else float)], status=1, success=True)
        # later calls: would this event be (re-)detected at the start of the new integration?
        kind["g_at_restart"] = events[0](t_span[0], None)
        return _NS(y=y, t=np.array([t_span[0], t_span[1]], dtype=object if vc.symbolic else float), t_events=[np.array([])], status=0, success=True)
    vc.install(CEL + "@solve_ivp", solve_ivp_contract)
    vc.install(DI + "@EventStack", _NS(pushEvent=lambda r: None))
    vc.install("resonaate.dynamics.integration_events.finite_thrust:@EventStack", _NS(pushEvent=lambda r: None))
    x0 = np.array([7000.0, 0, 0, 0, 7.5, 0])
    # (1) impulse
    if vc.symbolic:
        vc.stub(CEL + "@isinstance", lambda o, t: False if t is ft.ScheduledFiniteThrust else isinstance(o, t))
        imp = vc.new(DI + "ScheduledECIImpulse", time=tau, thrust=np.zeros(6), agent_id=1)
        dyn = vc.new("resonaate.dynamics.special_perturbations:SpecialPerturbations", finite_thrust=None, _method="RK45", _differentialEquation=lambda *a, **k: None)
    else:
        from resonaate.dynamics.two_body import TwoBody
        from resonaate.dynamics.integration_events.scheduled_impulse import ScheduledECIImpulse
        imp = ScheduledECIImpulse(tau, np.zeros(3), 1)
        dyn = TwoBody()
    dyn.propagate(t0, tf, x0.copy(), scheduled_events=[imp])
    g = kind.get("g_at_restart")
    vc.ensure("O-C01-restart.impulse-cannot-refire", vc.And(len(starts) == 2, g is not None and g > 0))
    vc.ensure("O-C01-restart.progress", vc.And(len(starts) == 2, starts[1] > root if len(starts) == 2 else False))
    # (2) a finite burn that starts at tau (switch-on) - the event function after the switch watches the end, which is far away
    del starts[:]
    kind.clear()
    if vc.symbolic:
        C = vc.cls("resonaate.dynamics.integration_events.finite_thrust:ScheduledFiniteBurn")
        vc.stub(CEL + "@isinstance", lambda o, t: (t is ft.ScheduledFiniteThrust and isinstance(o, C)) or isinstance(o, t))
        burn = vc.new("resonaate.dynamics.integration_events.finite_thrust:ScheduledFiniteBurn", start_time=tau, end_time=tau + 1e6, thrust_func="F", agent_id=1, _thrusting=False)
        dyn = vc.new("resonaate.dynamics.special_perturbations:SpecialPerturbations", finite_thrust=None, _method="RK45", _differentialEquation=lambda *a, **k: None)
    else:
        burn = ft.ScheduledFiniteBurn(tau, tau + 1e6, partial(ft.eciBurn, acc_vector=np.zeros(3)), 1)
        dyn = TwoBody()
    dyn.propagate(t0, tf, x0.copy(), scheduled_events=[burn])
    g = kind.get("g_at_restart")
    vc.ensure("O-C01-restart.burn-switch-cannot-refire", vc.And(len(starts) == 2, g is not None and g > 0))


@obligation("C01", "handover", ensures=["O-C01-handover.every-due-impulse-reaches-the-integrator"],
            fns=[CEL + "Celestial.propagate", CEL + "Celestial._prepEvents"], mode="R", assumes=IVP,
            note="every impulse of the queue whose time lies in the CLOSED propagation interval [t0, tf] - one strictly inside, one exactly at tf (a step boundary: pruning removes it before the "
                 "next step, so this is its only chance), one exactly at t0 - is among the event functions handed to the integrator, as the queued object itself")
def handover(vc):
    t0 = vc.real("t0", 0, 1e6)
    span = vc.real("span", 1, 1e4)
    frac = vc.real("frac", 0.01, 0.99)
    tf = t0 + span
    handed = []

    def solve_ivp_contract(fun, t_span, y0, method=None, rtol=None, atol=None, events=None, **kw):
        handed.append(list(events or []))
        y = np.asarray(y0).reshape(-1, 1)
        return _NS(y=y, t=np.array([t_span[0], t_span[1]], dtype=object if vc.symbolic else float), t_events=[np.array([]) for _ in (events or [])], status=0, success=True)
    vc.install(CEL + "@solve_ivp", solve_ivp_contract)
    x0 = np.array([7000.0, 0, 0, 0, 7.5, 0])
    times = [t0 + frac * span, tf, t0]
    if vc.symbolic:
        import resonaate.dynamics.integration_events.finite_thrust as ft
        vc.stub(CEL + "@isinstance", lambda o, t: False if t is ft.ScheduledFiniteThrust else isinstance(o, t))
        imps = [vc.new(DI + "ScheduledECIImpulse", time=t, thrust=np.zeros(6), agent_id=1) for t in times]
        dyn = vc.new("resonaate.dynamics.special_perturbations:SpecialPerturbations", finite_thrust=None, _method="RK45", _differentialEquation=lambda *a, **k: None)
    else:
        from resonaate.dynamics.two_body import TwoBody
        from resonaate.dynamics.integration_events.scheduled_impulse import ScheduledECIImpulse
        imps = [ScheduledECIImpulse(t, np.zeros(3), 1) for t in times]
        dyn = TwoBody()
    dyn.propagate(t0, tf, x0.copy(), scheduled_events=list(imps))
    vc.ensure("O-C01-handover.every-due-impulse-reaches-the-integrator", len(handed) >= 1 and all(any(e is imp for e in handed[0]) for imp in imps))


SBLD = "resonaate.scenario.scenario_builder:"


@obligation("C01", "load_events", ensures=["O-C01-load.every-configured-event-once"], fns=[SBLD + "ScenarioBuilder._loadEventsIntoDatabase"], mode="Z",
            bounded="four configured events: two of one kind, scope, instance and interval that differ only in WHAT they are about (two targets added at the same instant), and two more",
            note="every configured event becomes exactly one stored event, built from its own configuration (events of the same kind at the same time for the same handler are different events "
                 "when they name different agents), inserted in order of start time")
def load_events(vc):
    from datetime import datetime
    t1, t2 = datetime(2021, 3, 30, 16, 5), datetime(2021, 3, 30, 16, 10)
    cfgs = [_NS(tag="add-target-11", event_type="target_addition", scope="scenario_step", scope_instance_id=0, start_time=t1, end_time=t1, getDataDependencies=lambda: []),
            _NS(tag="add-target-12", event_type="target_addition", scope="scenario_step", scope_instance_id=0, start_time=t1, end_time=t1, getDataDependencies=lambda: []),
            _NS(tag="priority-a", event_type="task_priority", scope="task_reward_generation", scope_instance_id=3, start_time=t1, end_time=t2, getDataDependencies=lambda: []),
            _NS(tag="priority-b", event_type="task_priority", scope="task_reward_generation", scope_instance_id=3, start_time=t1, end_time=t2, getDataDependencies=lambda: [])]
    inserted = []
    db = _NS(getData=lambda *a, **k: None, insertData=lambda *rows: inserted.extend(rows))
    vc.install(SBLD + "@Event", _NS(concreteFromConfig=lambda c: ("EVENT-OF", c.tag)))
    b = vc.new(SBLD + "ScenarioBuilder", _config=_NS(events=list(cfgs)), logger=_NS(debug=lambda *a: None, info=lambda *a: None, warning=lambda *a: None))
    b._loadEventsIntoDatabase(db)
    vc.ensure("O-C01-load.every-configured-event-once", sorted(inserted) == sorted(("EVENT-OF", c.tag) for c in cfgs))


# an impulse that already fired is removed by pruning BEFORE the propagation job is built: the job construction contract (C10 truth_job: the submission carries the
# queue as it is after pruning) is re-checked in this property's own run
from pyvc.harness import share as _share  # noqa: E402
from contracts import C10 as _C10  # noqa: E402,F401
_share("C10", "truth_job", "C01")


TAE = "resonaate.data.events.target_addition:"
SAE = "resonaate.data.events.sensor_addition:"
ARE = "resonaate.data.events.agent_removal:"
EBS = "resonaate.tasking.engine.engine_base:"


@obligation("C01", "add_remove", ensures=["O-C01-addremove.handlers", "O-C01-addremove.scenario-remove", "O-C01-addremove.engine-lists"],
            fns=[TAE + "TargetAdditionEvent.handleEvent", SAE + "SensorAdditionEvent.handleEvent", ARE + "AgentRemovalEvent.handleEvent", SC + "Scenario.removeTarget", SC + "Scenario.removeSensor",
                 EBS + "TaskingEngine.addTarget", EBS + "TaskingEngine.removeTarget", EBS + "TaskingEngine.addSensor", EBS + "TaskingEngine.removeSensor"], mode="Z",
            note="an addition / removal event handed to the scenario takes effect once: the target-addition handler calls addTarget exactly once with the event's id, name, state and engine id, the sensor-addition handler "
                 "addSensor once with the event's sensor fields (radar fields for radars, limiting magnitude for optical sensors), the removal handler removeTarget or removeSensor once according to the agent type; removing "
                 "a target deletes exactly that target, its estimate and its entry in the named engine, removing a sensor exactly that sensor - every other agent stays; the engines' id lists gain / lose exactly that id")
def add_remove(vc):
    from resonaate.common.labels import SensorLabel
    calls = []
    scn = _NS(addTarget=lambda spec, eng: calls.append(("addTarget", spec, eng)), addSensor=lambda spec, eng: calls.append(("addSensor", spec, eng)),
              removeTarget=lambda aid, eng: calls.append(("removeTarget", aid, eng)), removeSensor=lambda aid, eng: calls.append(("removeSensor", aid, eng)))
    new = lambda spec, **kw: _event_obj(vc, spec, **kw)
    aid, eid = vc.int("agent_id", 1, 10 ** 5), vc.int("engine_id", 0, 50)
    state = [7000.0, 1.0, 2.0, 0.1, 7.5, 0.2]
    pv = dict(pos_x_km=state[0], pos_y_km=state[1], pos_z_km=state[2], vel_x_km_p_sec=state[3], vel_y_km_p_sec=state[4], vel_z_km_p_sec=state[5])
    tev = new(TAE + "TargetAdditionEvent", agent_id=aid, agent=_NS(name="tgt"), station_keeping_json='["LEO"]', tasking_engine_id=eid, **pv)
    tev.handleEvent(scn)
    ok = len(calls) == 1 and calls[0][0] == "addTarget" and calls[0][2] is eid and calls[0][1]["id"] is aid and calls[0][1]["name"] == "tgt" \
        and list(calls[0][1]["state"]["position"]) == state[:3] and list(calls[0][1]["state"]["velocity"]) == state[3:] and calls[0][1]["state"]["type"] == "eci" \
        and calls[0][1]["platform"] == {"type": "spacecraft", "station_keeping": ["LEO"]}
    cols = dict(agent_id=aid, agent=_NS(name="sen"), platform="ground_facility", station_keeping_json="[]", azimuth_min=10.0, azimuth_max=350.0, elevation_min=1.0, elevation_max=89.0,
                covariance_json="[[1.0, 0.0], [0.0, 2.0]]", aperture_diameter=3.0, efficiency=0.9, slew_rate=2.0, fov_shape="rectangular", fov_angle_1=8.0, fov_angle_2=2.0, minimum_range=10.0,
                maximum_range=5e4, background_observations=True, tx_power=1e6, tx_frequency=1e9, min_detectable_power=1e-15, detectable_vismag=20.0, tasking_engine_id=eid, **pv)
    want = dict(azimuth_range=[10.0, 350.0], elevation_range=[1.0, 89.0], covariance=[[1.0, 0.0], [0.0, 2.0]], aperture_diameter=3.0, efficiency=0.9, slew_rate=2.0,
                field_of_view={"fov_shape": "rectangular", "azimuth_angle": 8.0, "elevation_angle": 2.0}, minimum_range=10.0, maximum_range=5e4, background_observations=True)
    for kind in (SensorLabel.RADAR, SensorLabel.OPTICAL):
        del calls[:]
        new(SAE + "SensorAdditionEvent", sensor_type=kind, **cols).handleEvent(scn)
        spec = calls[0][1] if calls else {}
        s_ = spec.get("sensor", {})
        ok = ok and len(calls) == 1 and calls[0][0] == "addSensor" and calls[0][2] is eid and spec["id"] is aid and spec["name"] == "sen" and spec["platform"] == {"type": "ground_facility", "station_keeping": []} \
            and list(spec["state"]["position"]) == state[:3] and list(spec["state"]["velocity"]) == state[3:] and spec["state"]["type"] == "eci" \
            and all(s_.get(k) == v for k, v in want.items()) and s_.get("type") == kind \
            and (("tx_power" in s_ and s_["tx_power"] == 1e6 and s_["tx_frequency"] == 1e9 and s_["min_detectable_power"] == 1e-15 and "detectable_vismag" not in s_) if kind == SensorLabel.RADAR
                 else (s_.get("detectable_vismag") == 20.0 and "tx_power" not in s_))
    for typ, name in (("target", "removeTarget"), ("sensor", "removeSensor")):
        del calls[:]
        rm = new(ARE + "AgentRemovalEvent", agent_id=aid, tasking_engine_id=eid, agent_type=typ)
        rm.handleEvent(scn)
        ok = ok and calls == [(name, aid, eid)]
    vc.ensure("O-C01-addremove.handlers", ok)
    # the scenario's removal bodies
    eng_calls = []
    mk_eng = lambda k: _NS(removeTarget=lambda i: eng_calls.append((k, "removeTarget", i)), removeSensor=lambda i: eng_calls.append((k, "removeSensor", i)))
    s = vc.new(SC + "Scenario", target_agents={1: "T1", 2: "T2", 3: "T3"}, _estimate_agents={1: "E1", 2: "E2", 3: "E3"}, _sensor_agents={10: "S10", 11: "S11"}, _tasking_engines={5: mk_eng(5), 6: mk_eng(6)})
    s.removeTarget(2, 6)
    s.removeSensor(10, 5)
    vc.ensure("O-C01-addremove.scenario-remove", s.target_agents == {1: "T1", 3: "T3"} and s._estimate_agents == {1: "E1", 3: "E3"} and s._sensor_agents == {11: "S11"}
              and eng_calls == [(6, "removeTarget", 2), (5, "removeSensor", 10)])
    e = vc.new(CEN + "CentralizedTaskingEngine", target_list=[3, 9], sensor_list=[20, 40])
    e.addTarget(5); e.addSensor(30); e.removeTarget(3); e.removeSensor(40)
    vc.ensure("O-C01-addremove.engine-lists", sorted(e.target_list) == [5, 9] and sorted(e.sensor_list) == [20, 30] and list(e.target_list) == sorted(e.target_list) and list(e.sensor_list) == sorted(e.sensor_list))


def _event_obj(vc, spec, **cols):
    """an event row with the given column values: symbolically the flat class of the real event class; natively a plain class carrying the real class's properties
    and handler (instances of the ORM class itself need a configured mapper)"""
    if vc.symbolic:
        return vc.new(spec, **cols)
    import importlib
    mod, qual = spec.split(":")
    C = getattr(importlib.import_module(mod), qual)
    ns = {}
    for klass in reversed(C.__mro__):
        if klass.__module__.startswith("resonaate"):
            for k, v in vars(klass).items():
                if isinstance(v, property) or k in ("handleEvent", "AgentType"):
                    ns[k] = v
    o = type(C.__name__ + "Row", (), ns)()
    o.__dict__.update(cols)
    return o


@obligation("C01", "sensor_event_bounded", ensures=["B-C01-sensor-event.space-based", "B-C01-sensor-event.ground-based"],
            fns=[SAE + "SensorAdditionEvent.fromConfig", SAE + "SensorAdditionEvent.handleEvent", "resonaate.scenario.config.agent_config:SensingAgentConfig"], mode="Z", native_only=True, samples=6,
            bounded="BOUNDED stand-in, not a proof (pydantic models and the ORM constructor are outside the extracted subset): optical and radar sensors on a spacecraft and on a ground facility, "
                    "sampled orbit radius / site coordinates and start offsets",
            note="a sensor-addition event built from its configuration and handed to the scenario takes effect: the handler produces a sensor specification that the scenario's own configuration model accepts "
                 "(so addSensor can build the agent) and that carries the configured id, masks and field of view")
def sensor_event_bounded(vc):
    import datetime
    from resonaate.scenario.config.event_configs import SensorAdditionEventConfig
    from resonaate.scenario.config.agent_config import SensingAgentConfig
    from resonaate.data.events.sensor_addition import SensorAdditionEvent
    from resonaate.data.agent import AgentModel
    kind = ["optical", "radar"][vc.int("sensor_kind", 0, 1)]
    az = [vc.real("az_lo", 0, 359), vc.real("az_hi", 0, 359)]
    rad = vc.real("orbit_radius", 6800, 42000)
    lat, lon = vc.real("lat", -80, 80), vc.real("lon", -179, 179)
    start = datetime.datetime(2021, 3, 30, 16, 5) + datetime.timedelta(seconds=vc.int("start_off", 0, 86400))

    def sensor():
        d = dict(type=kind, azimuth_range=list(az), elevation_range=[1, 89], aperture_diameter=1.0, efficiency=0.9, slew_rate=2.0,
                 covariance=[[1e-8, 0], [0, 1e-8]] if kind == "optical" else [[1e-8, 0, 0, 0], [0, 1e-8, 0, 0], [0, 0, 1e-6, 0], [0, 0, 0, 1e-8]],
                 field_of_view=dict(fov_shape="rectangular", azimuth_angle=8.0, elevation_angle=2.0), background_observations=False)
        if kind != "optical":
            d.update(tx_power=1e6, tx_frequency=1e9, min_detectable_power=1e-15)
        return d

    def delivered(platform, state):
        try:
            cfg = SensorAdditionEventConfig(scope="scenario_step", scope_instance_id=0, start_time=start, event_type="sensor_addition", tasking_engine_id=1,
                                            sensor_agent=dict(id=60001, name="s", platform=platform, state=state, sensor=sensor()))
            ev = SensorAdditionEvent.fromConfig(cfg)
            ev.agent = AgentModel(unique_id=60001, name="s")
            got = {}
            ev.handleEvent(_NS(addSensor=lambda spec, eid: got.update(spec=spec, eid=eid)))
            c = SensingAgentConfig(**got["spec"])
            fov = c.sensor.field_of_view
            return got["eid"] == 1 and c.id == 60001 and list(c.sensor.azimuth_range) == az and fov.azimuth_angle == 8.0 and fov.elevation_angle == 2.0
        except Exception:  # noqa: BLE001
            return False
    vc.ensure("B-C01-sensor-event.space-based", delivered(dict(type="spacecraft"), dict(type="eci", position=[rad, 0.0, 0.0], velocity=[0.0, (398600.4418 / rad) ** 0.5, 0.0])))
    vc.ensure("B-C01-sensor-event.ground-based", delivered(dict(type="ground_facility"), dict(type="lla", latitude=lat, longitude=lon, altitude=0.1)))


# a planned maneuver handed to the estimate's filter must stay queued until it has fired: processing a prediction result writes the listed estimate attributes and
# nothing else - in particular not the registrant's propagate_event_queue (C08 frame obligation), re-checked in this property's own run
from contracts import C08 as _C08  # noqa: E402,F401
_share("C08", "frames", "C01")
