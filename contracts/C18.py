"""C18 -- multiple-model estimation keeps valid probabilities and moment-matched output."""
import numpy as np
import z3
from pyvc.harness import obligation
from pyvc import sym

SM = "resonaate.estimation.adaptive.smm:"
AF = "resonaate.estimation.adaptive.adaptive_filter:"
GP = "resonaate.estimation.adaptive.gpb1:"
ST = "resonaate.estimation.adaptive.mmae_stacking_utils:"


class _NS:
    def __init__(self, **kw):
        self.__dict__.update(kw)


def _arr(vc, xs):
    return np.array(xs, dtype=object if vc.symbolic else float)


def _weights(vc, n, name="w"):
    w = [vc.real(f"{name}{i}", 0, 1) for i in range(n)]
    if vc.symbolic:
        vc.assume(sum(w[1:], w[0]) == 1)
    else:
        s = sum(w)
        vc.assume(s > 1e-6)
        w = [x / s for x in w]
    return w


def _bayes(n, m):
    N = f"[n{n},m{m}]"

    @obligation("C18", f"bayes{N}", ensures=[f"O-C18-bayes.rule{N}", f"O-C18-bayes.valid{N}", f"O-C18-bayes.likelihood{N}"],
                fns=[SM + "StaticMultipleModel.update"], mode="R", bounded=f"{n} models, measurement dimension {m} (all weights, NIS values and innovation covariances symbolic)",
                note="posterior model weights follow Bayes' rule with the Gaussian likelihood of each model's innovation, are >= 0 and sum to one; when every likelihood underflows (sum within 1e-15 of 0) the weights become uniform",
                assumes=["exp/sqrt as axiomatised functions (exp > 0)"])
    def h(vc):
        w = _weights(vc, n)
        nis = [vc.real(f"nis{i}", 0, 1e4) for i in range(n)]
        if not vc.symbolic:
            nis = [x * 4e-3 for x in nis]  # native sampling: keep the likelihoods away from underflow (the underflow branch is covered symbolically)
        models = []
        dets = []
        for i in range(n):
            if m == 1:
                s = vc.real(f"s{i}", 1e-6, 1e6)
                S = _arr(vc, [[s]])
                dets.append(s)
            else:
                a, c, b = vc.real(f"a{i}", 1e-3, 1e3), vc.real(f"c{i}", 1e-3, 1e3), vc.real(f"b{i}", -1e3, 1e3)
                if not vc.symbolic:
                    b = b * 0.99e-3 * np.sqrt(a * c)  # native sampling: off-diagonal scaled into the positive-definite range
                vc.assume(a * c - b * b > 1e-9)
                S = _arr(vc, [[a, b], [b, c]])
                dets.append(a * c - b * b)
            models.append(_NS(nis=nis[i], innov_cvr=S, update=lambda obs: None))
        vc.stub(AF + "AdaptiveFilter._compileUpdateStep", lambda self, obs: None)
        vc.stub(SM + "StaticMultipleModel._prunedToSingleModel", lambda self, obs: True)
        f = vc.new(SM + "StaticMultipleModel", models=models, model_weights=_arr(vc, w), model_likelihoods=_arr(vc, [0.0] * n),
                   true_y=np.zeros(m), target_id=1, time=0.0, logger=__import__('logging').getLogger('pyvc'))
        if vc.symbolic:
            f.update(["obs"])
        else:
            import resonaate.estimation.adaptive.smm as smm
            from unittest import mock
            with mock.patch.object(smm.AdaptiveFilter, "_compileUpdateStep", lambda self, obs: None), \
                    mock.patch.object(smm.StaticMultipleModel, "_prunedToSingleModel", lambda self, obs: True), \
                    mock.patch.object(smm.AdaptiveFilter, "update", lambda self, obs: None):
                f.update(["obs"])
        two_pi_m = (2 * vc.pi) ** m
        lik = [(sym.fn_exp(-0.5 * nis[i]) if vc.symbolic else np.exp(-0.5 * nis[i])) / vc.sqrt(two_pi_m * dets[i]) for i in range(n)]
        vc.ensure(f"O-C18-bayes.likelihood{N}", vc.And(*[vc.eq(f.model_likelihoods[i], lik[i], 1e-9) for i in range(n)]))
        tot = sum((w[i] * lik[i] for i in range(1, n)), w[0] * lik[0])
        under = abs(0.0 - tot) < 1e-15
        if not vc.symbolic:
            vc.assume(abs(tot) > 1e-12)
        rule = [vc.ite(under, vc.eq(f.model_weights[i] * n, 1, 1e-9), vc.eq(f.model_weights[i] * tot, w[i] * lik[i], 1e-9)) for i in range(n)]
        vc.ensure(f"O-C18-bayes.rule{N}", vc.And(*rule))
        sw = sum(list(f.model_weights)[1:], f.model_weights[0])
        vc.ensure(f"O-C18-bayes.valid{N}", vc.And(vc.eq(sw, 1, 1e-9), *[vc.le(0, x) for x in f.model_weights]))
    return h


_bayes(2, 1)
_bayes(3, 2)


def _prune(n):
    N = f"[n{n}]"

    @obligation("C18", f"prune{N}", ensures=[f"O-C18-prune.atleast1{N}", f"O-C18-prune.aligned{N}", f"O-C18-prune.valid{N}", f"O-C18-prune.keeps-above{N}"],
                fns=[SM + "StaticMultipleModel._prunedToSingleModel", AF + "AdaptiveFilter.prune"], mode="R",
                bounded=f"{n} models (all weights and thresholds symbolic)",
                note="after pruning by threshold at least one model remains, the parallel arrays stay aligned with the surviving models, the weights are finite (renormalisation never divides by zero), non-negative and sum to one, and every model at or above the threshold survives")
    def h(vc):
        w = _weights(vc, n)
        thr = vc.real("thr", 1e-6, 0.999999)
        models = [_NS(tag=i) for i in range(n)]
        vc.stub(AF + "AdaptiveFilter._compileUpdateStep", lambda self, obs: None)
        vc.stub(AF + "AdaptiveFilter._resumeSequentialFiltering", lambda self: None)
        lik = [vc.real(f"l{i}", 0, 10) for i in range(n)]
        mp = [vc.real(f"p{i}", 0, 1) for i in range(n)]
        f = vc.new(SM + "StaticMultipleModel", models=list(models), model_weights=_arr(vc, w), model_likelihoods=_arr(vc, lik),
                   mode_probabilities=_arr(vc, mp), num_models=n, prune_threshold=thr, target_id=1, time=0.0, logger=__import__('logging').getLogger('pyvc'))
        if vc.symbolic:
            f._prunedToSingleModel(["obs"])
        else:
            import resonaate.estimation.adaptive.smm as smm
            from unittest import mock
            vc.assume(min(abs(x - thr) for x in w) > 1e-9)
            with mock.patch.object(smm.AdaptiveFilter, "_compileUpdateStep", lambda self, obs: None), \
                    mock.patch.object(smm.AdaptiveFilter, "_resumeSequentialFiltering", lambda self: None):
                f._prunedToSingleModel(["obs"])
        k = len(f.models)
        vc.ensure(f"O-C18-prune.atleast1{N}", k >= 1 and f.num_models == k)
        tags = [mdl.tag for mdl in f.models]
        aligned = len(f.model_weights) == k and len(f.model_likelihoods) == k and len(f.mode_probabilities) == k
        if aligned:
            aligned = vc.And(*[vc.eq(f.model_likelihoods[j], lik[t]) for j, t in enumerate(tags)], *[vc.eq(f.mode_probabilities[j], mp[t]) for j, t in enumerate(tags)])
        vc.ensure(f"O-C18-prune.aligned{N}", aligned)
        surv = sum((w[t] for t in tags[1:]), w[tags[0]])
        if vc.symbolic:
            valid = vc.And(surv > 0, *[vc.eq(f.model_weights[j] * surv, w[t]) for j, t in enumerate(tags)])
        else:
            valid = bool(np.all(np.isfinite(np.asarray(f.model_weights, dtype=float)))) and abs(float(np.sum(f.model_weights)) - 1) < 1e-9 and bool(np.all(np.asarray(f.model_weights) >= 0))
        vc.ensure(f"O-C18-prune.valid{N}", valid)
        vc.ensure(f"O-C18-prune.keeps-above{N}", vc.And(*[vc.implies(w[i] >= thr, i in tags) for i in range(n)]))
    return h


_prune(2)
_prune(3)


def _moments(n, dim, tier):
    N = f"[n{n},x{dim}]"

    @obligation("C18", f"moments{N}", ensures=[f"O-C18-moments.mean{N}", f"O-C18-moments.cov{N}", f"O-C18-moments.symmetric-psd{N}"],
                fns=[AF + "AdaptiveFilter._compileUpdateStep", AF + "AdaptiveFilter._compileForecastStep", AF + "AdaptiveFilter._compilePredictStep", ST + "eciStack"],
                mode="R", tier=tier, bounded=f"{n} models, state dimension {dim}", timeout_ms=(150000 if (n, dim) == (3, 2) else 40000),
                note="combined estimate = probability-weighted mean, combined covariance = sum w_i (P_i + (x_i - xbar)(x_i - xbar)^T) (moment matching), symmetric and positive semi-definite for symmetric PSD P_i and weights >= 0 summing to one; same for the predicted moments")
    def h(vc):
        w = _weights(vc, n)
        dt = object if vc.symbolic else float
        models, xs, Ps, pxs, pPs = [], [], [], [], []
        for i in range(n):
            x = vc.vec(f"x{i}", dim, -100, 100)
            px = vc.vec(f"px{i}", dim, -100, 100)
            if dim == 1:
                P = _arr(vc, [[vc.real(f"P{i}", 0, 100)]])
                pP = _arr(vc, [[vc.real(f"pP{i}", 0, 100)]])
            else:
                a, c, b = vc.real(f"Pa{i}", 0, 100), vc.real(f"Pc{i}", 0, 100), vc.real(f"Pb{i}", -100, 100)
                if not vc.symbolic:
                    b = b * 0.99e-2 * np.sqrt(a * c)  # native sampling: off-diagonal scaled into the positive semi-definite range
                vc.assume(a * c - b * b >= 0)
                P = _arr(vc, [[a, b], [b, c]])
                a2, c2, b2 = vc.real(f"pPa{i}", 0, 100), vc.real(f"pPc{i}", 0, 100), vc.real(f"pPb{i}", -100, 100)
                if not vc.symbolic:
                    b2 = b2 * 0.99e-2 * np.sqrt(a2 * c2)
                vc.assume(a2 * c2 - b2 * b2 >= 0)
                pP = _arr(vc, [[a2, b2], [b2, c2]])
            xs.append(x); Ps.append(P); pxs.append(px); pPs.append(pP)
            models.append(_NS(est_x=x, est_p=P, pred_x=px, pred_p=pP, time=5.0, source="Observation"))
        eci = vc.fn(ST + "eciStack")
        f = vc.new(AF + "AdaptiveFilter", models=models, model_weights=_arr(vc, w), x_dim=dim, stacking_method=eci,
                   est_x=np.zeros(dim, dtype=dt), pred_x=np.zeros(dim, dtype=dt))
        f._compileUpdateStep([])
        for which, got_x, got_p, mx, mp in (("est", f.est_x, f.est_p, xs, Ps), ("pred", f.pred_x, f.pred_p, pxs, pPs)):
            mean = sum((w[i] * mx[i] for i in range(1, n)), w[0] * mx[0])
            cov = sum((w[i] * (mp[i] + np.outer(mx[i] - mean, mx[i] - mean)) for i in range(1, n)), w[0] * (mp[0] + np.outer(mx[0] - mean, mx[0] - mean)))
            vc.ensure(f"O-C18-moments.mean{N}", vc.eq(got_x, mean, 1e-9))
            vc.ensure(f"O-C18-moments.cov{N}", vc.eq(got_p, cov, 1e-7))
            if dim == 1:
                psd = vc.le(0, got_p[0, 0])
            else:
                # PSD as "v^T C v >= 0 for every v": first the lemma v^T P_i v >= 0 per model (cut), then the mixture
                v = vc.vec("v", 2, -10, 10)
                qs, ts = [], []
                for i in range(n):
                    qs.append(np.dot(v, np.dot(mp[i], v)))
                    ts.append(np.dot(v, mx[i] - mean))
                    vc.cut(f"O-C18-moments.symmetric-psd{N}", vc.le(0, qs[i], 1e-9))
                form = np.dot(v, np.dot(got_p, v))
                decomposed = sum((w[i] * (qs[i] + ts[i] * ts[i]) for i in range(1, n)), w[0] * (qs[0] + ts[0] * ts[0]))
                vc.cut(f"O-C18-moments.symmetric-psd{N}", vc.eq(form, decomposed, 1e-6))
                if vc.symbolic:  # abstract the pieces: the final step is sign reasoning only
                    for i in range(n):
                        vc.cut(f"O-C18-moments.symmetric-psd{N}", vc.le(0, w[i] * (qs[i] + ts[i] * ts[i])))
                psd = vc.And(vc.eq(got_p[0, 1], got_p[1, 0], 1e-9), vc.le(0, form, 1e-7))
            vc.ensure(f"O-C18-moments.symmetric-psd{N}", psd)
        # the prediction path (predict / forecast, and the prediction result shipped back by the parallel layer) forms the predicted moments in _compilePredictStep itself,
        # without the re-stacking the update path does first: same mixture formulas, from whatever the attributes held before
        f2 = vc.new(AF + "AdaptiveFilter", models=models, model_weights=_arr(vc, w), x_dim=dim, stacking_method=eci,
                    est_x=np.zeros(dim, dtype=dt), pred_x=np.array([7.0] * dim, dtype=dt), pred_p=np.array([[3.0] * dim] * dim, dtype=dt))
        f2._compilePredictStep()
        mean = sum((w[i] * pxs[i] for i in range(1, n)), w[0] * pxs[0])
        cov = sum((w[i] * (pPs[i] + np.outer(pxs[i] - mean, pxs[i] - mean)) for i in range(1, n)), w[0] * (pPs[0] + np.outer(pxs[0] - mean, pxs[0] - mean)))
        vc.ensure(f"O-C18-moments.mean{N}", vc.eq(f2.pred_x, mean, 1e-9))
        vc.ensure(f"O-C18-moments.cov{N}", vc.eq(f2.pred_p, cov, 1e-7))
    return h


_moments(2, 1, "quick")
_moments(3, 1, "quick")
_moments(2, 2, "quick")
_moments(3, 2, "thorough")


@obligation("C18", "close", ensures=["O-C18-close.surviving-model", "O-C18-close.flags"],
            fns=[AF + "AdaptiveFilter._resumeSequentialFiltering", SM + "StaticMultipleModel._prunedToSingleModel", AF + "AdaptiveFilter.prune",
                 AF + "AdaptiveFilter._compileUpdateStep"], mode="R", bounded="3 models, state dimension 1",
            note="when pruning leaves a single model, estimation closes and the filter handed back is built from exactly that model's estimate and covariance; ADAPTIVE_ESTIMATION_START is cleared and ADAPTIVE_ESTIMATION_CLOSE set")
def close(vc):
    from resonaate.estimation.sequential_filter import FilterFlag
    n = 3
    w = _weights(vc, n)
    thr = vc.real("thr", 1e-6, 0.999999)
    dt = object if vc.symbolic else float
    models = [_NS(tag=i, est_x=_arr(vc, [vc.real(f"x{i}", -9, 9)]), est_p=_arr(vc, [[vc.real(f"P{i}", 0, 9)]]),
                  pred_x=_arr(vc, [vc.real(f"px{i}", -9, 9)]), pred_p=_arr(vc, [[vc.real(f"pP{i}", 0, 9)]]), time=1.0, source="Observation") for i in range(n)]
    built = {}

    def filter_class(**kw):
        built.update(kw)
        return _NS()
    eci = vc.fn(ST + "eciStack")
    f = vc.new(SM + "StaticMultipleModel", models=list(models), model_weights=_arr(vc, w), model_likelihoods=_arr(vc, [1.0] * n),
               mode_probabilities=_arr(vc, [1.0] * n), num_models=n, prune_threshold=thr, target_id=7, time=0.0, x_dim=1, stacking_method=eci,
               est_x=np.zeros(1, dtype=dt), pred_x=np.zeros(1, dtype=dt), flags=FilterFlag.ADAPTIVE_ESTIMATION_START, _filter_class=filter_class,
               dynamics="dyn", q_matrix="Q", maneuver_detection="md", _original_filter=_NS(extra_parameters={}), is_angular=None, innovation=None,
               nis=None, source=None, mean_pred_y=None, r_matrix=None, cross_cvr=None, innov_cvr=None, kalman_gain=None, maneuver_metric=None,
               true_y=None, logger=__import__("logging").getLogger("pyvc"))
    if not vc.symbolic:
        vc.assume(min(abs(x - thr) for x in w) > 1e-9)
    done = f._prunedToSingleModel([])
    if done:
        surv = f.models[0]
        vc.ensure("O-C18-close.surviving-model", vc.And(len(f.models) == 1, vc.eq(built["est_x"], surv.est_x, 1e-9), vc.eq(built["est_p"], surv.est_p, 1e-9),
                                                         built["tgt_id"] == 7, built["dynamics"] == "dyn"))
        vc.ensure("O-C18-close.flags", FilterFlag.ADAPTIVE_ESTIMATION_CLOSE in f.flags and FilterFlag.ADAPTIVE_ESTIMATION_START not in f.flags)
    else:
        vc.ensure("O-C18-close.surviving-model", len(f.models) > 1 and not built)
        vc.ensure("O-C18-close.flags", FilterFlag.ADAPTIVE_ESTIMATION_CLOSE not in f.flags)


def _gpb(n):
    N = f"[n{n}]"

    @obligation("C18", f"gpb1{N}", ensures=[f"O-C18-gpb1.weights{N}", f"O-C18-gpb1.mode-probabilities{N}", f"O-C18-gpb1.mix{N}"],
                fns=[GP + "GeneralizedPseudoBayesian1.update", GP + "GeneralizedPseudoBayesian1._constructMixMatrix"], mode="R",
                bounded=f"{n} models, measurement dimension 1",
                note="GPB1: model weights = likelihood * mode probability, renormalised (>= 0, sum 1); the mixing matrix has unit column sums, so the mode probabilities stay a probability vector; the mode probabilities left for the next update are the mixing matrix applied to this update's posterior weights")
    def h(vc):
        mp = _weights(vc, n, "p")
        nis = [vc.real(f"nis{i}", 0, 1e4) for i in range(n)]
        if not vc.symbolic:
            nis = [x * 4e-3 for x in nis]  # native sampling: keep the likelihoods away from underflow (the underflow branch is covered symbolically)
        ss = [vc.real(f"s{i}", 1e-6, 1e6) for i in range(n)]
        models = [_NS(nis=nis[i], innov_cvr=_arr(vc, [[ss[i]]]), update=lambda obs: None) for i in range(n)]
        mix_ratio = vc.real("mix", 0.5, 100)
        vc.stub(AF + "AdaptiveFilter._compileUpdateStep", lambda self, obs: None)
        vc.stub("resonaate.physics.statistics:oneSidedChiSquareTest", lambda *a, **k: False)
        f = vc.new(GP + "GeneralizedPseudoBayesian1", nis=1.0, prune_percentage=0.9, models=models, model_weights=_arr(vc, [0.0] * n), model_likelihoods=_arr(vc, [0.0] * n),
                   mode_probabilities=_arr(vc, mp), true_y=np.zeros(1), num_models=n, mix_ratio=mix_ratio, target_id=1, time=0.0,
                   logger=__import__("logging").getLogger("pyvc"))
        if vc.symbolic:
            f.update(["obs"])
        else:
            import resonaate.estimation.adaptive.gpb1 as g
            from unittest import mock
            with mock.patch.object(g.AdaptiveFilter, "_compileUpdateStep", lambda self, obs: None), \
                    mock.patch.object(g, "oneSidedChiSquareTest", lambda *a, **k: False), \
                    mock.patch.object(g.AdaptiveFilter, "update", lambda self, obs: None):
                f.update(["obs"])
        lik = [(sym.fn_exp(-0.5 * nis[i]) if vc.symbolic else np.exp(-0.5 * nis[i])) / vc.sqrt((2 * vc.pi) * ss[i]) for i in range(n)]
        c = sum((lik[i] * mp[i] for i in range(1, n)), lik[0] * mp[0])
        under = abs(0.0 - c) < 1e-15
        if not vc.symbolic:
            vc.assume(abs(c) > 1e-12)
        sw = sum(list(f.model_weights)[1:], f.model_weights[0])
        vc.ensure(f"O-C18-gpb1.weights{N}", vc.And(vc.eq(sw, 1, 1e-9), *[vc.le(0, x) for x in f.model_weights],
                                                    *[vc.implies(vc.Not(under), vc.eq(f.model_weights[i] * c, lik[i] * mp[i], 1e-9)) for i in range(n)]))
        sp = sum(list(f.mode_probabilities)[1:], f.mode_probabilities[0])
        M = f._constructMixMatrix()
        # the prior of the NEXT update is the mixed POSTERIOR of this one (Bayes recursion over the observation sequence): M @ model_weights
        mixed = [sum((M[i, j] * f.model_weights[j] for j in range(1, n)), M[i, 0] * f.model_weights[0]) for i in range(n)]
        vc.ensure(f"O-C18-gpb1.mode-probabilities{N}", vc.And(vc.eq(sp, 1, 1e-9), *[vc.le(0, x) for x in f.mode_probabilities],
                                                               *[vc.close(f.mode_probabilities[i], mixed[i], 1e-9) for i in range(n)]))
        vc.ensure(f"O-C18-gpb1.mix{N}", vc.And(*[vc.eq(sum((M[i, j] for i in range(1, n)), M[0, j]), 1, 1e-9) for j in range(n)],
                                                *[vc.le(0, M[i, j]) for i in range(n) for j in range(n)]))
    return h


_gpb(2)
_gpb(3)


@obligation("C18", "converged", ensures=["O-C18-converged.single-survivor", "O-C18-converged.not-yet"],
            fns=[SM + "StaticMultipleModel._convergedToSingleModel", AF + "AdaptiveFilter.prune", AF + "AdaptiveFilter._resumeSequentialFiltering"], mode="R",
            bounded="3 models, state dimension 1 (weights and both thresholds symbolic)",
            note="closing through the convergence path: when exactly one model's probability reaches the convergence percentage and the chi-square gate passes, every other model is removed, the surviving model is that one and the filter handed back carries its estimate; otherwise nothing is pruned and estimation stays open")
def converged(vc):
    from resonaate.estimation.sequential_filter import FilterFlag
    n = 3
    w = _weights(vc, n)
    pct = vc.real("pct", 0.5, 0.999999)
    thr = vc.real("thr", 1e-12, 0.2)
    gate = vc.bool("gate")
    dt = object if vc.symbolic else float
    models = [_NS(tag=i, est_x=_arr(vc, [vc.real(f"x{i}", -9, 9)]), est_p=_arr(vc, [[vc.real(f"P{i}", 0, 9)]]),
                  pred_x=_arr(vc, [vc.real(f"px{i}", -9, 9)]), pred_p=_arr(vc, [[vc.real(f"pP{i}", 0, 9)]]), time=1.0, source="Observation") for i in range(n)]
    built = {}
    if vc.symbolic:
        vc.stub(SM + "@oneSidedChiSquareTest", lambda *a, **k: gate)
        eci = vc.fn(ST + "eciStack")
    else:
        import resonaate.estimation.adaptive.mmae_stacking_utils as msu
        eci = msu.eciStack
        vc.assume(min(abs(x - pct) for x in w) > 1e-9)
    f = vc.new(SM + "StaticMultipleModel", models=list(models), model_weights=_arr(vc, w), model_likelihoods=_arr(vc, [1.0] * n),
               mode_probabilities=_arr(vc, [1.0] * n), num_models=n, prune_threshold=thr, prune_percentage=pct, target_id=7, time=0.0, x_dim=1, stacking_method=eci,
               est_x=np.zeros(1, dtype=dt), pred_x=np.zeros(1, dtype=dt), flags=FilterFlag.ADAPTIVE_ESTIMATION_START,
               _filter_class=lambda **kw: (built.update(kw), _NS())[1], dynamics="dyn", q_matrix="Q", maneuver_detection="md",
               _original_filter=_NS(extra_parameters={}), is_angular=None, innovation=None, nis=1.0, source=None, mean_pred_y=None, r_matrix=None, cross_cvr=None,
               innov_cvr=None, kalman_gain=None, maneuver_metric=None, true_y=np.zeros(2), logger=__import__("logging").getLogger("pyvc"))
    if vc.symbolic:
        done = f._convergedToSingleModel([])
    else:
        import resonaate.estimation.adaptive.smm as smm
        from unittest import mock
        with mock.patch.object(smm, "oneSidedChiSquareTest", lambda *a, **k: gate):
            done = f._convergedToSingleModel([])
    winners = [i for i in range(n) if bool(w[i] >= pct)]
    should_close = len(winners) == 1 and bool(gate)
    if should_close:
        k = winners[0]
        vc.ensure("O-C18-converged.single-survivor", vc.And(bool(done), len(f.models) == 1 and f.models[0].tag == k, vc.eq(built.get("est_x", np.array([99.0])), models[k].est_x, 1e-9),
                                                             vc.eq(built.get("est_p", np.array([[99.0]])), models[k].est_p, 1e-9), vc.eq(f.model_weights[0], 1, 1e-9)))
        vc.ensure("O-C18-converged.not-yet", True)
    else:
        vc.ensure("O-C18-converged.not-yet", (not bool(done)) and len(f.models) == n and not built)
        vc.ensure("O-C18-converged.single-survivor", True)


@obligation("C18", "sequence_bounded", ensures=["B-C18-seq.probabilities-valid", "B-C18-seq.bayes", "B-C18-seq.one-remains", "B-C18-seq.moment-matched", "B-C18-seq.closure-survivor"],
            fns=[SM + "StaticMultipleModel.update", SM + "StaticMultipleModel._prunedToSingleModel", SM + "StaticMultipleModel._convergedToSingleModel", AF + "AdaptiveFilter.prune",
                 AF + "AdaptiveFilter._compileUpdateStep", AF + "AdaptiveFilter._resumeSequentialFiltering"], mode="R", native_only=True, samples=150,
            bounded="BOUNDED stand-in, not a proof: 150 (quick) / 1500 (thorough) random runs per run of the real StaticMultipleModel with 2..30 models, measurement dimension 1..3, state dimension 6, "
                    "up to 12 observation steps until closure, random pruning thresholds / convergence percentages, including steps whose likelihoods all underflow; the proofs above stop at 3 models",
            note="after every update: probabilities finite, >= 0, sum to one and equal prior x Gaussian likelihood renormalised over the models alive (uniform on underflow) before pruning; at least one model remains; "
                 "the combined estimate/covariance are the probability-weighted mean and the moment-matched mixture (symmetric PSD); at closure the filter handed back is built from the single surviving model")
def sequence_bounded(vc):
    from unittest import mock
    import resonaate.estimation.adaptive.smm as smm
    import resonaate.estimation.adaptive.mmae_stacking_utils as msu
    from resonaate.estimation.sequential_filter import FilterFlag
    rng = np.random.default_rng(vc.int("seed", 0, 10 ** 9))
    n = vc.int("models", 2, 30)
    m = vc.int("meas_dim", 1, 3)
    thr = [1e-12, 1e-6, 1e-3, 0.02][vc.int("thr_idx", 0, 3)]
    pct = [0.6, 0.9, 0.997][vc.int("pct_idx", 0, 2)]
    underflow_step = vc.int("underflow_step", 0, 20)  # (a step index beyond the run means no underflow step)

    def spd(k, scale=1.0):
        A = rng.normal(size=(k, k))
        return (A @ A.T + 0.3 * k * np.eye(k)) * scale
    models = [_NS(tag=i, est_x=rng.normal(size=6) * 100, est_p=spd(6), pred_x=rng.normal(size=6) * 100, pred_p=spd(6), time=1.0, source="Observation",
                  nis=1.0, innov_cvr=np.eye(m), innovation=np.zeros(m), true_y=np.zeros(m), update=lambda obs: None, is_angular=np.zeros(m, dtype=bool), r_matrix=np.eye(m),
                  mean_pred_y=np.zeros(m), cross_cvr=np.zeros((6, m)), kalman_gain=np.zeros((6, m))) for i in range(n)]
    built = {}
    f = object.__new__(smm.StaticMultipleModel)
    f.__dict__.update(models=list(models), model_weights=np.full(n, 1.0 / n), model_likelihoods=np.ones(n), mode_probabilities=np.ones(n), num_models=n, prune_threshold=thr,
                      prune_percentage=pct, target_id=7, time=0.0, x_dim=6, stacking_method=msu.eciStack, est_x=np.zeros(6), pred_x=np.zeros(6), _flags=FilterFlag.ADAPTIVE_ESTIMATION_START,
                      _filter_class=lambda **kw: (built.update(kw), _NS())[1], dynamics="dyn", q_matrix="Q", maneuver_detection="md", _original_filter=_NS(extra_parameters={}),
                      is_angular=None, innovation=None, nis=1.0, source=None, mean_pred_y=None, r_matrix=None, cross_cvr=None, innov_cvr=None, kalman_gain=None, maneuver_metric=None,
                      true_y=np.zeros(m), logger=__import__("logging").getLogger("pyvc"))
    ok = {k: True for k in ("valid", "bayes", "remains", "moments", "closure")}
    closed = False
    with mock.patch.object(smm.AdaptiveFilter, "update", lambda self, obs: None):
        for step in range(12):
            alive = list(f.models)
            prior = np.array(f.model_weights, dtype=float)
            for mod in alive:
                mod.innov_cvr = spd(m)
                mod.nis = float(rng.chisquare(m) * rng.choice([0.2, 1.0, 5.0, 40.0])) + (3000.0 if step == underflow_step else 0.0)
                mod.innovation = rng.normal(size=m)
                mod.est_x = mod.est_x + rng.normal(size=6)
            lik = np.array([np.exp(-0.5 * mod.nis) / np.sqrt((2 * np.pi) ** m * np.linalg.det(mod.innov_cvr)) for mod in alive])
            post = prior * lik
            post = np.ones_like(post) / len(post) if abs(post.sum()) < 1e-15 else post / post.sum()
            # what the posterior must be after pruning: models below the threshold removed (never all), the rest renormalised
            keep = [i for i in range(len(alive)) if not post[i] < thr]
            if not keep:
                keep = [int(np.argmax(post))]
            want = post[keep] / post[keep].sum()
            f.update(["obs"])
            w = np.array(f.model_weights, dtype=float)
            ok["valid"] &= bool(np.all(np.isfinite(w)) and np.all(w >= 0) and abs(w.sum() - 1) < 1e-9 and len(w) == len(f.models))
            ok["remains"] &= len(f.models) >= 1
            if FilterFlag.ADAPTIVE_ESTIMATION_CLOSE in f.flags:
                closed = True
                ok["closure"] &= len(f.models) == 1 and bool(np.allclose(built.get("est_x"), f.models[0].est_x)) and bool(np.allclose(built.get("est_p"), f.models[0].est_p))
                if len(keep) == 1:
                    ok["closure"] &= f.models[0].tag == alive[keep[0]].tag
                break
            ok["bayes"] &= [mod.tag for mod in f.models] == [alive[i].tag for i in keep] and bool(np.allclose(w, want, rtol=1e-9, atol=1e-12))
            mean = sum(wi * mod.est_x for wi, mod in zip(w, f.models))
            cov = sum(wi * (mod.est_p + np.outer(mod.est_x - mean, mod.est_x - mean)) for wi, mod in zip(w, f.models))
            ok["moments"] &= bool(np.allclose(f.est_x, mean, rtol=1e-9, atol=1e-9) and np.allclose(f.est_p, cov, rtol=1e-9, atol=1e-9) and np.allclose(f.est_p, f.est_p.T)
                                  and np.linalg.eigvalsh(f.est_p).min() > -1e-6 * abs(f.est_p).max())
    vc.ensure("B-C18-seq.probabilities-valid", bool(ok["valid"]))
    vc.ensure("B-C18-seq.bayes", bool(ok["bayes"]))
    vc.ensure("B-C18-seq.one-remains", bool(ok["remains"]))
    vc.ensure("B-C18-seq.moment-matched", bool(ok["moments"]))
    vc.ensure("B-C18-seq.closure-survivor", bool(ok["closure"]))


@obligation("C18", "adaptive_config_bounded", ensures=["B-C18-config.parameters", "B-C18-config.class"],
            fns=["resonaate.estimation:adaptiveEstimationFactory", GP + "GeneralizedPseudoBayesian1.fromConfig", AF + "AdaptiveFilter.fromConfig"], mode="Z", native_only=True, samples=20,
            bounded="BOUNDED stand-in, not a proof (pydantic configuration models, deepcopy of a real filter): 20 (quick) / 200 (thorough) sampled configurations per run, both methods",
            note="the adaptive filter built from a configuration carries that configuration: observation window, model interval, both pruning parameters, the stacking and orbit-determination "
                 "functions the labels name and - for GPB1 - the configured mixing ratio of the mode-transition matrix (the obligations above are about the constructed object's parameters)")
def adaptive_config_bounded(vc):
    from resonaate.estimation import adaptiveEstimationFactory
    from resonaate.estimation.adaptive.gpb1 import GeneralizedPseudoBayesian1
    from resonaate.estimation.adaptive.smm import StaticMultipleModel
    from resonaate.estimation.adaptive.mmae_stacking_utils import eciStack
    from resonaate.estimation.kalman.unscented_kalman_filter import UnscentedKalmanFilter
    from resonaate.scenario.config.estimation_config import GPB1AdaptiveEstimationConfig, SMMAdaptiveEstimationConfig
    from resonaate.physics.time.stardate import ScenarioTime
    gpb = vc.bool("gpb1")
    fields = dict(model_interval=vc.int("model_interval", 1, 600), observation_window=vc.int("observation_window", 1, 9),
                  prune_threshold=vc.real("prune_threshold", 1e-12, 0.3), prune_percentage=vc.real("prune_percentage", 0.5, 0.9999))
    mix = vc.real("mix_ratio", 0.6, 40)
    cfg = GPB1AdaptiveEstimationConfig(name="gpb1", mix_ratio=mix, **fields) if gpb else SMMAdaptiveEstimationConfig(name="smm", **fields)
    dyn = _NS(propagate=lambda t0, tf, X, scheduled_events=None: X)
    nominal = UnscentedKalmanFilter(7, 0.0, np.arange(6.0), np.eye(6), dyn, np.eye(6) * 1e-9, _NS(metric=0.0), False, True)
    f = adaptiveEstimationFactory(cfg, nominal, ScenarioTime(vc.int("step", 1, 900)))
    vc.ensure("B-C18-config.class", type(f) is (GeneralizedPseudoBayesian1 if gpb else StaticMultipleModel) and f.target_id == 7)
    vc.ensure("B-C18-config.parameters", f.model_interval == fields["model_interval"] and f.previous_obs_window == fields["observation_window"]
              and f.prune_threshold == fields["prune_threshold"] and f.prune_percentage == fields["prune_percentage"] and f.stacking_method is eciStack
              and callable(f.orbit_determination_method) and (not gpb or f.mix_ratio == mix))
