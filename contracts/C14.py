"""C14 -- visibility predicates match exact geometry and respect its symmetries."""
from pyvc.harness import obligation

LOS = "resonaate.physics.sensor_utils:lineOfSight"
RE = 6378.1363


@obligation("C14", "los", ensures=["O-C14-los.sound", "O-C14-los.complete", "O-C14-los.sym"], fns=[LOS], mode="R",
            note="Gram-scalar vectors; result <=> every point of the segment is outside the sphere; symmetric")
def los(vc):
    r1, r2 = vc.gvec("r1"), vc.gvec("r2")
    vc.assume(vc.dot(r1, r1) >= RE ** 2)
    vc.assume(vc.dot(r2, r2) >= RE ** 2)
    d = r2 - r1
    vc.assume(vc.dot(d, d) > 0)
    f = vc.fn(LOS)
    res = f(r1, r2)
    s = vc.real("s", 0, 1)
    p = r1 + d * s
    vc.ensure("O-C14-los.sound", vc.implies(res, vc.le(RE ** 2, vc.dot(p, p))))
    a, b = vc.dot(r1, r1), vc.dot(r1, r2)
    tau = (a - b) / vc.dot(d, d)
    q = r1 + d * tau
    blocked = vc.And(tau >= 0, tau <= 1, vc.lt(vc.dot(q, q), RE ** 2))
    if not vc.symbolic:  # native replay: stay away from the rounding band of the strict comparison
        vc.assume(abs(vc.dot(q, q) - RE ** 2) > 1e-3)
    vc.ensure("O-C14-los.complete", vc.iff(res, vc.Not(blocked)))
    vc.ensure("O-C14-los.sym", vc.iff(res, f(r2, r1)))


# ------------------------------------------------------------------------------------------------
import numpy as np
from contracts import common
from pyvc import sym, spec

FOV = "resonaate.sensors.field_of_view:"
SU = "resonaate.physics.sensor_utils:"
MS = "resonaate.physics.measurements:"
MA = "resonaate.physics.maths:"


def _cosang(vc, u, v):
    return vc.dot(u, v) / (vc.norm(u) * vc.norm(v))


@obligation("C14", "conic", ensures=["O-C14-conic.def", "O-C14-conic.reflexive", "O-C14-conic.symmetric"],
            fns=[FOV + "ConicFoV.inFieldOfView", MA + "subtendedAngle", MA + "safeArccos"], mode="R",
            note="Gram vectors: the body never reads components, hence depends only on the Gram matrix, which any common rotation (in particular about the local vertical) preserves")
def conic(vc):
    p, b = vc.gvec("p"), vc.gvec("b")
    vc.assume(vc.dot(p, p) > 0)
    vc.assume(vc.dot(b, b) > 0)
    cone = vc.real("cone", 0.0, 3.0)
    if not vc.symbolic:
        vc.assume(cone > 1e-6)  # (in floats the angle between a direction and itself is up to ~2e-8 rad, not 0: the native replay needs a cone wider than that)
    fov = vc.new(FOV + "ConicFoV", _cone_angle=cone)
    res = fov.inFieldOfView(p, b)
    ang = vc.arccos(_cosang(vc, b, p))
    vc.ensure("O-C14-conic.def", vc.iff(res, vc.le(ang, cone / 2)))
    vc.ensure("O-C14-conic.reflexive", fov.inFieldOfView(p, p))
    vc.ensure("O-C14-conic.symmetric", vc.iff(res, fov.inFieldOfView(b, p)))


@obligation("C14", "conic_rot", ensures=["O-C14-conic.rot-vertical"], fns=[FOV + "ConicFoV.inFieldOfView"], mode="R",
            note="component-wise: both directions rotated about the local vertical (SEZ z axis) by any angle; full 6x1 states whose velocity parts are arbitrary and unrelated")
def conic_rot(vc):
    p = vc.vec("p", 3, -1e5, 1e5)
    b = vc.vec("b", 3, -1e5, 1e5)
    vc.assume(vc.dot(p, p) > 1e-6)
    vc.assume(vc.dot(b, b) > 1e-6)
    if vc.symbolic:
        c, s = vc.real("c"), vc.real("s")
        vc.assume(c * c + s * s == 1)
    else:
        th = vc.real("th", -7, 7)
        c, s = np.cos(th), np.sin(th)
    cone = vc.real("cone", 0.0, 3.0)
    rot = lambda v: np.array([c * v[0] + s * v[1], -s * v[0] + c * v[1], v[2]], dtype=object if vc.symbolic else float)
    fov = vc.new(FOV + "ConicFoV", _cone_angle=cone)
    # the 6x1 slant-range states the sensor hands over carry velocities; membership is a function of the two DIRECTIONS only, so the four velocity parts are unrelated
    vels = [vc.vec(f"vel{k}", 3, -1e5, 1e5) for k in range(4)]
    pad = lambda v, k: np.concatenate([v, vels[k]])
    if not vc.symbolic:  # stay off the rounding band of the boundary
        ang = np.arccos(np.clip(np.dot(p, b) / np.linalg.norm(p) / np.linalg.norm(b), -1, 1))
        vc.assume(abs(ang - cone / 2) > 1e-7)
    vc.ensure("O-C14-conic.rot-vertical", vc.iff(fov.inFieldOfView(pad(p, 0), pad(b, 1)), fov.inFieldOfView(pad(rot(p), 2), pad(rot(b), 3))))


def _circ_dist(vc, a, b):
    d = abs(a - b)
    return vc.ite(d <= vc.pi, d, 2 * vc.pi - d)


def _sez_from(az, el, rng=1000.0):
    return np.array([-rng * np.cos(el) * np.cos(az), rng * np.cos(el) * np.sin(az), rng * np.sin(el), 0.0, 0.0, 0.0])


class _Tag:
    """opaque stand-in for a 6x1 SEZ state whose azimuth/elevation are given by the callee contracts"""

    def __init__(self, az, el):
        self.az, self.el = az, el


@obligation("C14", "rect", ensures=["O-C14-rect.offset-only"], fns=[FOV + "RectangularFoV.inFieldOfView"], mode="R",
            note="modular: getAzimuth/getElevation by contract (ranges [0,2pi), [-pi/2,pi/2]); membership must be a function of the circular azimuth offset and the elevation offset")
def rect(vc):
    two_pi = 2 * vc.pi
    az_p = vc.angle("az_p", 0.0, 6.283, special=[0.0, 0.01, 6.27])
    az_b = vc.angle("az_b", 0.0, 6.283, special=[0.0, 0.01, 6.27])
    el_p = vc.angle("el_p", -1.5, 1.5)
    el_b = vc.angle("el_b", -1.5, 1.5)
    vc.assume(az_p < two_pi)
    vc.assume(az_b < two_pi)
    A = vc.angle("A", 0.0, 3.1)
    E = vc.angle("E", 0.0, 3.1)
    fov = vc.new(FOV + "RectangularFoV", _azimuth_angle=A, _elevation_angle=E)
    if vc.symbolic:
        vc.stub(MS + "getAzimuth", lambda t: t.az)
        vc.stub(MS + "getElevation", lambda t: t.el)
        p, b = _Tag(az_p, el_p), _Tag(az_b, el_b)
    else:
        p, b = _sez_from(az_p, el_p), _sez_from(az_b, el_b)
        vc.assume(abs(_circ_dist(vc, az_p, az_b) - A / 2) > 1e-6 and abs(abs(el_p - el_b) - E / 2) > 1e-6)
    res = fov.inFieldOfView(p, b)
    spec_in = vc.And(vc.le(_circ_dist(vc, az_p, az_b), A / 2), vc.le(abs(el_p - el_b), E / 2))
    vc.ensure("O-C14-rect.offset-only", vc.iff(res, spec_in))


@obligation("C14", "rect_spec_lemma", ensures=["O-C14-rect.spec-rotation-invariant"], fns=[], mode="R", norm_angles=True,
            note="lemma over the specification only: the circular offset is unchanged when both azimuths are advanced by any angle and re-wrapped to [0,2pi) - i.e. the spec of O-C14-rect.offset-only has the symmetry the property asks for, seam included")
def rect_spec_lemma(vc):
    az_p = vc.angle("az_p", 0.0, 6.283)
    az_b = vc.angle("az_b", 0.0, 6.283)
    th = vc.angle("th", -100.0, 100.0)
    two_pi = 2 * vc.pi
    vc.assume(az_p < two_pi)
    vc.assume(az_b < two_pi)
    wrap = (lambda x: x - two_pi * vc.floor(x / two_pi))
    d0 = _circ_dist(vc, az_p, az_b)
    d1 = _circ_dist(vc, wrap(az_p + th), wrap(az_b + th))
    vc.ensure("O-C14-rect.spec-rotation-invariant", vc.eq(d0, d1, 1e-6))


SB = "resonaate.sensors.sensor_base:"


class _NS:
    def __init__(self, **kw):
        self.__dict__.update(kw)


def _los_stub(a, b):
    """lineOfSight by contract: a deterministic boolean of its two arguments (O-C14-los.*)."""
    return sym.SBool(z3.Bool("los"))


import z3  # noqa: E402


@obligation("C14", "masks", ensures=["O-C14-azmask.arc", "O-C14-elmask", "O-C14-vis.order"], fns=[SB + "Sensor.isVisible"],
            mode="R", note="modular: getRange/getAzimuth/getElevation/lineOfSight by contract; result and stated reason follow the documented order range-min, range-max, LOS, elevation, azimuth; azimuth accepted iff on the arc from a0 increasing to a1 (corner az=0 with a1=2pi, a0>0 excluded: measure zero)")
def masks(vc):
    az = vc.angle("az", 0.0, 6.283, special=[0.0, 0.05, 6.2])
    el = vc.angle("el", -1.57, 1.57)
    vc.assume(az < 2 * vc.pi)
    a0 = vc.angle("a0", 0.0, 6.2831853, special=[0.0, 6.0])
    a1 = vc.angle("a1", 0.0, 6.2831853, special=[0.1, 6.2])
    e0 = vc.angle("e0", -1.57, 1.57)
    e1 = vc.angle("e1", -1.57, 1.57)
    rng = vc.real("rng", 1.0, 1e6)
    rmin = vc.real("rmin", 0.0, 1e6)
    rmax = vc.real("rmax", 0.0, 1e6)
    vc.assume(vc.Not(vc.And(az == 0, a1 >= 2 * vc.pi, a0 > 0)) if vc.symbolic else True)
    dt = object if vc.symbolic else float
    if vc.symbolic:
        vc.stub(MS + "getAzimuth", lambda t: t.az)
        vc.stub(MS + "getElevation", lambda t: t.el)
        vc.stub(MS + "getRange", lambda t: t.rng)
        vc.stub(SU + "lineOfSight", _los_stub)
        los = sym.SBool(z3.Bool("los"))
        sez = _Tag(az, el)
        sez.rng = rng
        tgt = np.zeros(6)
        host = _NS(eci_state=np.zeros(6))
    else:
        sez = _sez_from(az, el, rng)
        # geometry giving the requested line-of-sight outcome: sensor on +x axis at 7000 km
        want_los = vc.bool("los")
        host = _NS(eci_state=np.array([7000.0, 0, 0, 0, 0, 0]))
        tgt = np.array([8000.0, 0, 0, 0, 0, 0]) if want_los else np.array([-8000.0, 0, 0, 0, 0, 0])
        los = want_los
        vc.assume(abs(rng - rmin) > 1e-6 and abs(rng - rmax) > 1e-6 and min(abs(el - e0), abs(el - e1), abs(az - a0), abs(az - a1)) > 1e-9)
    s = vc.new(SB + "Sensor", _az_mask=np.array([a0, a1], dtype=dt), _el_mask=np.array([e0, e1], dtype=dt),
               minimum_range=rmin, maximum_range=rmax, _host=host)
    E = vc.fn(SB + "Explanation") if not vc.symbolic else __import__("resonaate.sensors.sensor_base", fromlist=["Explanation"]).Explanation
    ok, why = s.isVisible(tgt, 1.0, 0.2, sez)
    span = vc.ite(a0 <= a1, a1 - a0, a1 - a0 + 2 * vc.pi)
    off = vc.ite(az >= a0, az - a0, az - a0 + 2 * vc.pi)
    az_ok = off <= span
    el_ok = vc.And(e0 <= el, el <= e1)
    pre_ok = vc.And(rng >= rmin, rng <= rmax, los)
    vc.ensure("O-C14-azmask.arc", vc.implies(vc.And(pre_ok, el_ok), vc.iff(ok, az_ok)))
    vc.ensure("O-C14-elmask", vc.implies(pre_ok, vc.implies(ok, el_ok)))
    # stated reason = first failing constraint in the documented order
    exp = vc.ite(rng < rmin, 1, vc.ite(rng > rmax, 2, vc.ite(vc.Not(los), 3, vc.ite(vc.Not(el_ok), 4, vc.ite(vc.Not(az_ok), 5, 0)))))
    code = {E.MINIMUM_RANGE: 1, E.MAXIMUM_RANGE: 2, E.LINE_OF_SIGHT: 3, E.ELEVATION_MASK: 4, E.AZIMUTH_MASK: 5, E.VISIBLE: 0}[why]
    vc.ensure("O-C14-vis.order", vc.And(exp == code, vc.iff(ok, code == 0)))


@obligation("C14", "elevation", ensures=["O-C14-el.range", "O-C14-el.def"], fns=[MS + "getElevation"], mode="R")
def elevation(vc):
    r = vc.vec("r", 3, -1e5, 1e5)
    vc.assume(vc.dot(r, r) > 1e-6)
    sez = np.concatenate([r, np.zeros(3)])
    el = vc.fn(MS + "getElevation")(sez)
    vc.ensure("O-C14-el.range", vc.And(vc.le(-vc.pi / 2, el), vc.le(el, vc.pi / 2)))
    vc.ensure("O-C14-el.def", vc.eq(vc.sin(el) * vc.norm(r), r[2], 1e-9))


@obligation("C14", "azimuth", ensures=["O-C14-az.range", "O-C14-az.def"], fns=[MS + "getAzimuth", MS + "getElevation"],
            mode="R", ax_lipschitz=True, note="modular: wrapAngle2Pi by its proved contract; az is the polar angle of (-x, y): sin(az)*h = y, cos(az)*h = -x")
def azimuth(vc):
    vc.stub(MA + "wrapAngle2Pi", common.WRAP2PI)
    r = vc.vec("r", 3, -1e5, 1e5)
    v = vc.vec("v", 3, -10, 10)
    h2 = r[0] * r[0] + r[1] * r[1]
    vc.assume(h2 > 1e-6)  # off the zenith axis
    sez = np.concatenate([r, v])
    az = vc.fn(MS + "getAzimuth")(sez)
    vc.ensure("O-C14-az.range", vc.And(vc.le(0, az), vc.lt(az, 2 * vc.pi)))
    h = vc.sqrt(h2)
    vc.ensure("O-C14-az.def", vc.And(vc.eq(vc.sin(az) * h, r[1], 1e-9), vc.eq(vc.cos(az) * h, -r[0], 1e-9)))


RE_ATM = 6378.1363 + 100.0


@obligation("C14", "limb", ensures=["O-C14-limb.cone", "O-C14-limb.raises"], fns=[SU + "checkSpaceSensorEarthLimbObscuration", SU + "getBodyLimbConeAngle"],
            mode="R", note="obscured <=> angle of the target direction from nadir < tangent-cone half angle arcsin((R_E+h_atm)/d); getElevation by contract")
def limb(vc):
    pos = vc.gvec("pos")
    d2 = vc.dot(pos, pos)
    vc.assume(d2 > 1.0)
    el = vc.angle("el", -1.5707, 1.5707)
    if vc.symbolic:
        vc.stub(MS + "getElevation", lambda t: t.el)
        sez = _Tag(None, el)
    else:
        sez = _sez_from(0.3, el)
    d = vc.norm(pos)
    f = vc.fn(SU + "checkSpaceSensorEarthLimbObscuration")
    if (d < RE_ATM) if not vc.symbolic else bool(d < RE_ATM):
        try:
            f(pos, sez)
            raised = False
        except ValueError:
            raised = True
        vc.ensure("O-C14-limb.raises", raised)
        return
    res = f(pos, sez)
    nadir_angle = el + vc.pi / 2
    cone = vc.arcsin(RE_ATM / d)
    if not vc.symbolic:
        vc.assume(abs(nadir_angle - cone) > 1e-9)
    vc.ensure("O-C14-limb.cone", vc.iff(res, nadir_angle < cone))
    vc.ensure("O-C14-limb.raises", True)


@obligation("C14", "light_ground", ensures=["O-C14-light.ground.def", "O-C14-light.ground.dark"], fns=[SU + "checkGroundSensorLightingConditions"], mode="R",
            note="ok <=> Sun zenith angle >= pi/2 + buffer; in particular ok implies the Sun is below the local horizon")
def light_ground(vc):
    pos, sun = vc.gvec("pos"), vc.gvec("sun")
    vc.assume(vc.dot(pos, pos) > 1.0)
    vc.assume(vc.eq(vc.dot(sun, sun), 1.0) if vc.symbolic else True)
    if not vc.symbolic:
        sun = sun / np.linalg.norm(sun)
    buf = vc.angle("buf", 0.0, 1.5)
    res = vc.fn(SU + "checkGroundSensorLightingConditions")(pos, sun, buf)
    cz = vc.dot(sun, pos) / vc.norm(pos)
    zen = vc.arccos(cz)
    if not vc.symbolic:
        vc.assume(abs(zen - (np.pi / 2 + buf)) > 1e-9)
    vc.ensure("O-C14-light.ground.def", vc.iff(res, zen >= vc.pi / 2 + buf))
    vc.ensure("O-C14-light.ground.dark", vc.implies(res, vc.le(cz, 0)))


@obligation("C14", "light_space", ensures=["O-C14-light.space.def", "O-C14-light.galactic.def"],
            fns=[SU + "checkSpaceSensorLightingConditions", SU + "checkGalacticExclusionZone"], mode="R",
            note="ok <=> angle between boresight and the Sun (resp. galactic centre) direction >= exclusion cone")
def light_space(vc):
    bore, sun = vc.gvec("bore"), vc.gvec("sun")
    vc.assume(vc.dot(bore, bore) > 1e-6)
    vc.assume(vc.eq(vc.dot(sun, sun), 1.0) if vc.symbolic else True)
    if not vc.symbolic:
        sun = sun / np.linalg.norm(sun)
    cone = vc.angle("cone", 0.0, 1.5)
    res = vc.fn(SU + "checkSpaceSensorLightingConditions")(bore, sun, cone)
    ang = vc.arccos(vc.dot(sun, bore) / vc.norm(bore))
    if not vc.symbolic:
        vc.assume(abs(ang - cone) > 1e-9)
    vc.ensure("O-C14-light.space.def", vc.iff(res, ang >= cone))
    # galactic centre: the fixed ECI direction of the module constant
    b = vc.vec("b", 3, -1e5, 1e5)
    vc.assume(vc.dot(b, b) > 1e-6)
    import resonaate.physics.sensor_utils as su
    g = np.array([float(x) for x in su.GALACTIC_CENTER_ECI[:3]])
    res2 = vc.fn(SU + "checkGalacticExclusionZone")(b, cone)
    gn = float(np.linalg.norm(g))
    ang2 = vc.arccos(vc.dot(g, b) / (gn * vc.norm(b)))
    if not vc.symbolic:
        vc.assume(abs(ang2 - cone) > 1e-9)
    vc.ensure("O-C14-light.galactic.def", vc.iff(res2, ang2 >= cone))


RSUN = 695700.0


@obligation("C14", "sunfrac", ensures=["O-C14-sunfrac.sunward", "O-C14-sunfrac.umbra", "O-C14-sunfrac.clear", "O-C14-sunfrac.angles", "O-C14-sunfrac.partial"],
            fns=[SU + "calculateSunVizFraction"], mode="R", domain_checks=True,
            note="exactly 1 on the sunward side and when the discs do not overlap, exactly 0 when the solar disc is inside the Earth disc; in the penumbra the VISIBLE fraction 1 - A/(pi a^2) with A the area of the lens common to the two apparent discs (Montenbruck 3.92-3.94; native replay: A by numerical quadrature of the chord lengths, half of the samples placed inside the penumbra band); sunfrac.domain: every arcsin/arccos/sqrt argument of the real body (partial branch included) is inside its domain, so the result is a number")
def sunfrac(vc):
    import resonaate.physics.bodies.third_body as tb
    from fractions import Fraction
    rs = float(tb.Sun.radius)
    r, s = vc.gvec("r"), vc.gvec("s")
    if not vc.symbolic:
        s = s * (1.5e8 / np.linalg.norm(s))
        nr_ = min(max(np.linalg.norm(r), RE + 100.0), 10.9 * RE)
        r = r * (nr_ / np.linalg.norm(r))
        pen, where = vc.bool("in_penumbra"), vc.real("penumbra_pos", -1.5, 1.5)
        if pen:  # put the satellite near the shadow edge: angle from the anti-solar axis = apparent Earth radius + where * apparent Sun radius
            phi = np.arcsin(RE / nr_) + where * np.arcsin(rs / 1.5e8)
            u = -s / np.linalg.norm(s)
            w = np.cross(u, [0.3, -0.5, 0.8])
            w = w / np.linalg.norm(w)
            r = nr_ * (np.cos(phi) * u + np.sin(phi) * w)
        elif vc.bool("on_antisolar_axis"):  # dead centre of the umbra: the cosine of the Sun-Earth separation is 1 up to rounding (either side of it)
            r = -s * (nr_ / np.linalg.norm(s))
    vc.assume(vc.dot(r, r) >= Fraction(RE) ** 2)  # exact square (RE**2 as a double is slightly smaller)
    d = s - r
    vc.assume(vc.dot(d, d) >= Fraction(rs) ** 2)
    # the property's domain: satellite within 10 Earth radii (margin: 11), Sun at a realistic distance.
    # (outside it the partial-occultation branch divides by c, which is 0 on the anti-solar axis where a == b)
    vc.assume(vc.dot(r, r) <= Fraction(11 * RE) ** 2)
    vc.assume(vc.dot(s, s) >= Fraction(1.4e8) ** 2)
    with vc.spec():
        nr, nd, ns = vc.norm(r), vc.norm(d), vc.norm(s)
        a = vc.arcsin(rs / nd)
        b = vc.arcsin(RE / nr)
        c = vc.arccos(vc.dot(-r, d) / (nr * nd))
    # cut: the three apparent angles are well defined and positive / non-negative
    vc.cut("O-C14-sunfrac.angles", vc.And(a > 0, b > 0, vc.le(0, c), vc.le(a, vc.pi / 2), vc.le(b, vc.pi / 2), vc.le(c, vc.pi),
                                          vc.le(rs / nd, 1), vc.le(RE / nr, 1), vc.le(abs(vc.dot(-r, d) / (nr * nd)), 1, 1e-12)))
    f = vc.fn(SU + "calculateSunVizFraction")
    frac = f(r, s)
    sunward = ns >= nd
    vc.ensure("O-C14-sunfrac.sunward", vc.implies(sunward, vc.eq(frac, 1.0)))
    vc.ensure("O-C14-sunfrac.umbra", vc.implies(vc.And(vc.Not(sunward), c < abs(b - a)), vc.eq(frac, 0.0)))
    vc.ensure("O-C14-sunfrac.clear", vc.implies(vc.And(vc.Not(sunward), c >= a + b), vc.eq(frac, 1.0)))
    if vc.symbolic:
        with vc.spec():
            x = (c * c + a * a - b * b) / (2 * c)
            y = vc.sqrt(a * a - x * x)
            lens = a * a * vc.arccos(x / a) + b * b * vc.arccos((c - x) / b) - c * y
            visible = 1 - lens / (vc.pi * a * a)
        vc.ensure("O-C14-sunfrac.partial", vc.implies(vc.And(vc.Not(sunward), c >= abs(b - a), c < a + b), vc.eq(frac, visible, 1e-12)))
    else:
        ok = True
        if (not sunward) and abs(b - a) <= c < a + b:
            from scipy.integrate import quad
            lo, hi = max(-a, c - b), min(a, c + b)
            chord = lambda t: 2 * min(np.sqrt(max(a * a - t * t, 0.0)), np.sqrt(max(b * b - (t - c) ** 2, 0.0)))
            lens = quad(chord, lo, hi, epsabs=1e-13, epsrel=1e-10, limit=400, points=[min(max((c * c + a * a - b * b) / (2 * c), lo), hi)])[0] if hi > lo else 0.0
            ok = abs(frac - (1 - lens / (np.pi * a * a))) < 1e-5 and -1e-9 <= frac <= 1 + 1e-9
        vc.ensure("O-C14-sunfrac.partial", ok)


SAE = "resonaate.data.events.sensor_addition:"


@obligation("C14", "event_masks_bounded", ensures=["B-C14-event-masks.order", "B-C14-event-masks.built"],
            fns=[SAE + "SensorAdditionEvent.fromConfig", SAE + "SensorAdditionEvent.handleEvent", "resonaate.sensors:sensorFactory"], mode="Z", native_only=True, samples=8,
            bounded="BOUNDED stand-in, not a proof (pydantic models and the ORM constructor are outside the extracted subset): sampled azimuth masks (about half of them through north, lo > hi), "
                    "elevation masks, optical sensor on a spacecraft",
            note="a sensor added DURING a run gets the masks it was configured with: the (lo, hi) ORDER of the azimuth mask - the only thing that encodes a mask through north - survives "
                 "configuration -> event row -> handler -> sensor specification -> sensorFactory, and the built sensor's masks are the configured ones in radians, in that order (what the masks then admit is O-C14-mask.*)")
def event_masks_bounded(vc):
    import datetime
    from resonaate.scenario.config.event_configs import SensorAdditionEventConfig
    from resonaate.scenario.config.agent_config import SensingAgentConfig
    from resonaate.data.events.sensor_addition import SensorAdditionEvent
    from resonaate.data.agent import AgentModel
    from resonaate.sensors import sensorFactory
    az = [vc.real("az_lo", 0, 359), vc.real("az_hi", 0, 359)]
    el = sorted([vc.real("el_a", 0, 89), vc.real("el_b", 0, 89)])
    vc.assume(abs(az[0] - az[1]) > 1 and el[1] - el[0] > 1)
    rad = vc.real("orbit_radius", 6800, 42000)
    sensor = dict(type="optical", azimuth_range=list(az), elevation_range=list(el), aperture_diameter=1.0, efficiency=0.9, slew_rate=2.0, covariance=[[1e-8, 0], [0, 1e-8]],
                  field_of_view=dict(fov_shape="conic", cone_angle=3.0), background_observations=False)
    cfg = SensorAdditionEventConfig(scope="scenario_step", scope_instance_id=0, start_time=datetime.datetime(2021, 3, 30, 16, 5), event_type="sensor_addition", tasking_engine_id=1,
                                    sensor_agent=dict(id=60001, name="s", platform=dict(type="spacecraft"), sensor=sensor,
                                                      state=dict(type="eci", position=[rad, 0.0, 0.0], velocity=[0.0, (398600.4418 / rad) ** 0.5, 0.0])))
    ev = SensorAdditionEvent.fromConfig(cfg)
    ev.agent = AgentModel(unique_id=60001, name="s")
    got = {}
    ev.handleEvent(_NS(addSensor=lambda spec_, eid: got.update(spec=spec_)))
    c = SensingAgentConfig(**got["spec"])
    vc.ensure("B-C14-event-masks.order", list(c.sensor.azimuth_range) == az and list(c.sensor.elevation_range) == el)
    built = sensorFactory(c.sensor)
    ok = bool(np.allclose(built.az_mask, np.radians(az), rtol=0, atol=1e-12) and np.allclose(built.el_mask, np.radians(el), rtol=0, atol=1e-12))
    vc.ensure("B-C14-event-masks.built", ok)


# the limb / lighting / exclusion predicates above are proved as functions; that the optical sensor calls them with the SENSOR's state, the line of sight and the
# target->Sun direction is the C02 optical contract, re-checked in this property's own run
from pyvc.harness import share as _share  # noqa: E402


from contracts import C02 as _C02  # noqa: E402,F401  (mutual import with C02: both share after all their own harnesses are registered)
_share("C02", "optical", "C14")

# the masks and field-of-view spans the predicates above are proved for are the CONFIGURED ones: configuration -> object plumbing (FoV shape and spans, mask order, units) is the
# C02 config_plumbing contract, re-checked in this property's own run
_share("C02", "config_plumbing", "C14")
