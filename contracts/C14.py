"""C14 -- visibility predicates match exact geometry and respect its symmetries."""
from pyvc.harness import obligation

LOS = "resonaate.physics.sensor_utils:lineOfSight"
RE = 6378.1363


@obligation("C14", "los", ensures=["O-C14-los.sound", "O-C14-los.complete", "O-C14-los.sym"], fns=[LOS], mode="R",
            note="Gram-scalar vectors; result <=> every point of the segment is outside the sphere; symmetric")
def los(vc):
    r1, r2 = vc.gvec("r1"), vc.gvec("r2")
    vc.assume(vc.dot(r1, r1) >= RE ** 2)
    vc.assume(vc.dot(r2, r2) >= RE ** 2)
    d = r2 - r1
    vc.assume(vc.dot(d, d) > 0)
    f = vc.fn(LOS)
    res = f(r1, r2)
    s = vc.real("s", 0, 1)
    p = r1 + d * s
    vc.ensure("O-C14-los.sound", vc.implies(res, vc.le(RE ** 2, vc.dot(p, p))))
    a, b = vc.dot(r1, r1), vc.dot(r1, r2)
    tau = (a - b) / vc.dot(d, d)
    q = r1 + d * tau
    blocked = vc.And(tau >= 0, tau <= 1, vc.lt(vc.dot(q, q), RE ** 2))
    if not vc.symbolic:  # native replay: stay away from the rounding band of the strict comparison
        vc.assume(abs(vc.dot(q, q) - RE ** 2) > 1e-3)
    vc.ensure("O-C14-los.complete", vc.iff(res, vc.Not(blocked)))
    vc.ensure("O-C14-los.sym", vc.iff(res, f(r2, r1)))
