"""Shared harness: the REAL body of Scenario.stepForward executed with every collaborator replaced by a recording
stub (agents, executors, importer, engines, event queries, ray).  Used by C01, C08, C10 and C19 to state what a step
reads, writes, delivers and in which order; each collaborator's own behaviour is the subject of other obligations."""
import numpy as np

SC = "resonaate.scenario.scenario:"


class NS:
    def __init__(self, **kw):
        self.__dict__.update(kw)


class NullLogger:
    def __getattr__(self, k):
        return lambda *a, **kw: None


class _Time:
    def __init__(self, k):
        self.k = k

    def __add__(self, dt):
        return _Time(self.k + 1)

    def convertToJulianDate(self, jd_start):
        return ("JDEPOCH", self.k)


class Clock:
    def __init__(self, log, dt):
        self.log, self.k, self.dt_step, self.julian_date_start = log, 0, dt, "JDSTART"

    @property
    def time(self):
        return _Time(self.k)

    def ticToc(self):
        self.k += 1
        self.log.append(("ticToc",))

    @property
    def datetime_epoch(self):
        return f"DT{self.k}"

    @property
    def julian_date_epoch(self):
        return ("JDEPOCH", self.k)


class Executor:
    def __init__(self, log, name):
        self.log, self.name = log, name

    def enqueueJob(self, reg):
        self.log.append((self.name + ".enqueue", reg))

    def join(self):
        self.log.append((self.name + ".join",))


class Engine:
    def __init__(self, log, eid, sensor_changes, observations):
        self.log, self.unique_id, self.sensor_changes, self.observations = log, eid, sensor_changes, observations

    def setHandles(self, t, s, e):
        self.log.append(("engine.setHandles", self.unique_id, dict(t), dict(s), dict(e)))

    def assess(self, prior, now):
        self.log.append(("engine.assess", self.unique_id, prior, now))

    def resetHandles(self):
        self.log.append(("engine.resetHandles", self.unique_id))


class Agent:
    def __init__(self, log, kind, aid, realtime=True):
        object.__setattr__(self, "log", log)
        object.__setattr__(self, "kind", kind)
        object.__setattr__(self, "simulation_id", aid)
        object.__setattr__(self, "realtime", realtime)
        # (sensor 10 sits on a ground facility, everything else on a spacecraft: whether an agent is imported or propagated is decided by its realtime flag alone)
        object.__setattr__(self, "agent_type", "ground_facility" if (kind == "S" and aid == 10) else "spacecraft")

    def __setattr__(self, k, v):  # any attribute assignment by the code under contract is recorded
        self.log.append(("agent.setattr", self.simulation_id, k))
        object.__setattr__(self, k, v)

    def updateInfo(self, info):
        self.log.append(("updateInfo", self.simulation_id, info))

    def pruneTimeBiasEvents(self):
        self.log.append(("pruneTimeBias", self.simulation_id))

    def __repr__(self):
        return f"{self.kind}{self.simulation_id}"


class Importer:
    def __init__(self, log):
        self.log = log

    def registerAgent(self, a):
        self.log.append(("importer.register", a))

    def importEphemerides(self, when):
        self.log.append(("importer.import", when))


class Event:
    def __init__(self, log, name, scope_instance_id, planned=False, start_time_jd=0.0, end_time_jd=1e9):
        # (by default an event that started long before this step and is still running: the query returned it, so it is relevant)
        self.log, self.name, self.scope_instance_id, self.planned = log, name, scope_instance_id, planned
        self.start_time_jd, self.end_time_jd = start_time_jd, end_time_jd

    def handleEvent(self, inst):
        self.log.append(("handleEvent", self.name, inst))


def run_step(vc, targets=(1, 2), sensors=(10, 11), estimates=(1, 2), nonrealtime=(), importer=True, truth_only=False,
             engines=None, events=None, prior_jd=None, dt=None):
    """returns (scenario object, log)"""
    log = []
    if prior_jd is None:
        prior_jd = vc.real("prior_jd", 2450000, 2470000)
    if dt is None:
        dt = vc.real("dt", 1, 86400)
    events = events or {}
    tas = {i: Agent(log, "T", i, i not in nonrealtime) for i in targets}
    sas = {i: Agent(log, "S", i, i not in nonrealtime) for i in sensors}
    eas = {i: Agent(log, "E", i) for i in estimates}
    engs = engines(log) if engines else {}

    def get_relevant(db, scope, lb, ub, scope_instance_id=None):
        log.append(("getRelevantEvents", db, scope, lb, ub, scope_instance_id))
        return list(events.get(scope.name, []))

    def handle_relevant(inst, db, scope, lb, ub, logger, scope_instance_id=None):
        log.append(("handleRelevantEvents", inst, db, scope, lb, ub, scope_instance_id))
    vc.install(SC + "@getRelevantEvents", get_relevant)
    vc.install(SC + "@handleRelevantEvents", handle_relevant)
    vc.install(SC + "@PropagateRegistration", lambda a: ("PropagateRegistration", a))
    vc.install(SC + "@EstPredictRegistration", lambda a: ("EstPredictRegistration", a))
    vc.install(SC + "@EstUpdateRegistration", lambda a, h, obs: ("EstUpdateRegistration", a, h, list(obs)))
    vc.install(SC + "@ray", NS(put=lambda x: ("handle", x)))
    vc.install(SC + "@BehavioralConfig", NS(getConfig=lambda: NS(debugging=NS(ThreeSigmaObs=False))))
    vc.install(SC + "@EventStack", NS(logAndFlushEvents=lambda: log.append(("flushEvents",))))
    vc.install(SC + "@JulianDate", lambda x: x)
    clock = Clock(log, dt)
    scn = vc.new(SC + "Scenario", current_julian_date=prior_jd, clock=clock, database="DB", logger=NullLogger(), target_agents=tas, _sensor_agents=sas,
                 _estimate_agents=eas, _agent_propagator=Executor(log, "propagate"), _estimate_predictor=Executor(log, "predict"),
                 _estimate_updater=Executor(log, "update"), _ephem_importer=Importer(log) if importer else None,
                 scenario_config=NS(propagation=NS(truth_simulation_only=truth_only)), _tasking_engines=engs,
                 _target_store={}, _sensor_store={}, _estimate_store={})
    scn.stepForward()
    return scn, log


def idx(log, name, nth=0):
    hits = [i for i, e in enumerate(log) if e[0] == name]
    return hits[nth] if len(hits) > nth else None


def entries(log, name):
    return [e for e in log if e[0] == name]
