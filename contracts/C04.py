"""C04 -- reference-frame conversions are exact inverses, rigid, continuous in time."""
import numpy as np
import z3
from pyvc.harness import obligation
from pyvc import sym, spec, orth
from contracts import common

MA = "resonaate.physics.maths:"
TM = "resonaate.physics.transforms.methods:"
RD = "resonaate.physics.transforms.reductions:"
TC = "resonaate.physics.time.conversions:"


def _sc(vc, name):
    """(angle, sin, cos) triple: symbolic mode uses the real sin/cos symbols of the angle."""
    a = vc.angle(name, -7.0, 7.0, special=[0.0, np.pi / 2, np.pi, -np.pi / 2])
    return a


def _mat_eq(vc, A, B, tol=1e-9):
    return vc.eq(np.asarray(A), np.asarray(B), tol)


I3 = np.eye(3)


def _rot_harness(i):
    fn = MA + f"rot{i}"

    @obligation("C04", f"rot{i}", ensures=[f"O-C04-rot{i}.orthogonal", f"O-C04-rot{i}.det", f"O-C04-rot{i}.transpose",
                                           f"O-C04-rot{i}.axis", f"O-C04-rot{i}.compose"], fns=[fn], mode="R",
                note="entry-wise 3x3 identities over the real body; composition uses the angle-addition theorem instantiated for (a, b)")
    def h(vc):
        a = _sc(vc, "a")
        b = _sc(vc, "b")
        f = vc.fn(fn)
        R = f(a)
        dt = object if vc.symbolic else float
        vc.ensure(f"O-C04-rot{i}.orthogonal", vc.And(_mat_eq(vc, np.dot(R, R.T), I3), _mat_eq(vc, np.dot(R.T, R), I3)))
        det = (R[0, 0] * (R[1, 1] * R[2, 2] - R[1, 2] * R[2, 1]) - R[0, 1] * (R[1, 0] * R[2, 2] - R[1, 2] * R[2, 0])
               + R[0, 2] * (R[1, 0] * R[2, 1] - R[1, 1] * R[2, 0]))
        vc.ensure(f"O-C04-rot{i}.det", vc.eq(det, 1))
        vc.ensure(f"O-C04-rot{i}.transpose", _mat_eq(vc, f(-a), R.T))
        e = np.zeros(3)
        e[i - 1] = 1.0
        vc.ensure(f"O-C04-rot{i}.axis", vc.eq(np.dot(R, e.astype(dt)), e))
        # composition rot(a) rot(b) = rot(a+b): addition theorem for this pair (lemma, listed in evidence)
        if vc.symbolic:
            sa, ca, sb, cb = vc.sin(a), vc.cos(a), vc.sin(b), vc.cos(b)
            vc.axiom(vc.And(vc.sin(a + b) == sa * cb + ca * sb, vc.cos(a + b) == ca * cb - sa * sb),
                     "angle-addition theorem sin/cos(a+b), instantiated for the pair (a,b)")
        vc.ensure(f"O-C04-rot{i}.compose", _mat_eq(vc, np.dot(R, f(b)), f(a + b)))
    return h


for _i in (1, 2, 3):
    _rot_harness(_i)


@obligation("C04", "skew", ensures=["O-C04-skew.cross", "O-C04-skew.antisym"], fns=[MA + "skewSymmetric"], mode="R",
            note="skewSymmetric(w) v = w x v for all w, v; S^T = -S")
def skew(vc):
    w = vc.vec("w", 3, -1e3, 1e3)
    v = vc.vec("v", 3, -1e3, 1e3)
    S = vc.fn(MA + "skewSymmetric")(w)
    cr = np.array([w[1] * v[2] - w[2] * v[1], w[2] * v[0] - w[0] * v[2], w[0] * v[1] - w[1] * v[0]])
    vc.ensure("O-C04-skew.cross", vc.eq(np.dot(S, v), cr, 1e-9))
    vc.ensure("O-C04-skew.antisym", _mat_eq(vc, S.T, -S))


@obligation("C04", "dotrot", ensures=["O-C04-dotrot.identity", "O-C04-dotrot.frame-consistency"], fns=[MA + "dotRot1", MA + "dotRot2", MA + "dotRot3"], mode="R",
            note="the documented time derivative of each elementary rotation, for every angle, angular velocity and vector: dotRot_k(a, w) v = rot_k(a) (w x v), hence "
                 "rot_k(a)^T dotRot_k(a, w) is the cross-product matrix of w (w is the angular velocity in the SOURCE frame)")
def dotrot(vc):
    a = _sc(vc, "a")
    w = vc.vec("w", 3, -1e2, 1e2)
    v = vc.vec("v", 3, -1e3, 1e3)
    cr = np.array([w[1] * v[2] - w[2] * v[1], w[2] * v[0] - w[0] * v[2], w[0] * v[1] - w[1] * v[0]])
    ok1, ok2 = [], []
    for i in (1, 2, 3):
        R = vc.fn(MA + f"rot{i}")(a)
        D = vc.fn(MA + f"dotRot{i}")(a, w)
        ok1.append(vc.eq(np.dot(D, v), np.dot(R, cr), 1e-6))
        ok2.append(vc.eq(np.dot(np.dot(R.T, D), v), cr, 1e-6))
    vc.ensure("O-C04-dotrot.identity", vc.And(*ok1))
    vc.ensure("O-C04-dotrot.frame-consistency", vc.And(*ok2))


@obligation("C04", "polar", ensures=["O-C04-polar.orthogonal"], fns=[RD + "PolarMotion.__init__"], mode="R")
def polar(vc):
    xp = vc.angle("xp", -1e-5, 1e-5)
    yp = vc.angle("yp", -1e-5, 1e-5)
    o = vc.new(RD + "PolarMotion")
    vc.fn(RD + "PolarMotion.__init__")(o, xp, yp)
    W = o.rot_w
    vc.ensure("O-C04-polar.orthogonal", vc.And(_mat_eq(vc, np.dot(W, W.T), I3), _mat_eq(vc, np.dot(W.T, W), I3)))


# ---------------------------------------------------------------------------------------------
# Word algebra part: matrices proved orthogonal entry-wise above enter as orthogonal generators.
class _NS:
    def __init__(self, **kw):
        self.__dict__.update(kw)


def _names():
    c = sym.ctx()
    return c.__dict__.setdefault("_rot_names", {})


def rot_stub(axis):
    """contract of rot<axis>: orthogonal, rot(-a) = rot(a)^T  (O-C04-rot<axis>.orthogonal/.transpose)"""
    return lambda angle: orth.rot_gen(axis, angle, _names())


class ReductionStub:
    """contract of ReductionParams.build (O-C04-build.*): rot_pnr orthogonal, rot_rnp = rot_pnr^T, rot_w orthogonal,
    rot_wt = rot_w^T, one deterministic value per date."""

    @staticmethod
    def build(utc_date, eops=None):
        c = sym.ctx()
        memo = c.__dict__.setdefault("_red", {})
        k = id(utc_date)
        if k not in memo:
            n = len(memo)
            M, W = orth.LMat.gen(f"PNR{n}"), orth.LMat.gen(f"W{n}")
            memo[k] = _NS(rot_pnr=M, rot_rnp=M.T, rot_w=W, rot_wt=W.T, lod=sym.SNum(z3.Real(f"lod{n}")), date_time=utc_date,
                          _keep=utc_date)
        return memo[k]


def _frame_stubs(vc):
    vc.stub(TM + "@ReductionParams", ReductionStub)
    vc.stub(MA + "rot2", rot_stub(2))
    vc.stub(MA + "rot3", rot_stub(3))


class _Date:
    """opaque UTC instant"""


@obligation("C04", "ecef_inverse", ensures=["O-C04-inv-ecef.eci2ecef-ecef2eci", "O-C04-inv-ecef.ecef2eci-eci2ecef",
                                            "O-C04-inv-ecef.length", "O-C04-inv-ecef.relative"],
            fns=[TM + "eci2ecef", TM + "ecef2eci"], mode="R",
            note="orthogonal-word algebra; ReductionParams.build by contract; position AND velocity (the omega x r correction must cancel)")
def ecef_inverse(vc):
    import datetime
    if vc.symbolic:
        _frame_stubs(vc)
        d = _Date()
    else:
        d = datetime.datetime(2019, 2, 1, 3, 4, 5) + datetime.timedelta(seconds=vc.int("secs", 0, 86400 * 900))
    x = vc.lstate("x")
    y = vc.lstate("y")
    e2f, f2e = vc.fn(TM + "eci2ecef"), vc.fn(TM + "ecef2eci")
    vc.ensure("O-C04-inv-ecef.eci2ecef-ecef2eci", vc.eq(e2f(f2e(x, d), d), x, 1e-9))
    vc.ensure("O-C04-inv-ecef.ecef2eci-eci2ecef", vc.eq(f2e(e2f(x, d), d), x, 1e-9))
    fx, fy = e2f(x, d), e2f(y, d)
    vc.ensure("O-C04-inv-ecef.length", vc.eq(vc.dot(fx[:3], fx[:3]), vc.dot(x[:3], x[:3]), 1e-9))
    dxy = fx[:3] - fy[:3]
    vc.ensure("O-C04-inv-ecef.relative", vc.And(vc.eq(vc.dot(dxy, dxy), vc.dot(x[:3] - y[:3], x[:3] - y[:3]), 1e-9),
                                                vc.eq(vc.dot(fx[:3], fy[:3]), vc.dot(x[:3], y[:3]), 1e-9)))


@obligation("C04", "sez_inverse", ensures=["O-C04-inv-sez.sez2ecef-ecef2sez", "O-C04-inv-sez.ecef2sez-sez2ecef", "O-C04-inv-sez.length",
                                           "O-C04-inv-sez.eci2sez-sez2eci"],
            fns=[TM + "sez2ecef", TM + "ecef2sez", TM + "eci2sez", TM + "sez2eci"], mode="R",
            note="rot2/rot3 by contract (orthogonal generators, rot(-a)=rot(a)^T)")
def sez_inverse(vc):
    import datetime
    if vc.symbolic:
        _frame_stubs(vc)
        d = _Date()
    else:
        d = datetime.datetime(2020, 5, 6, 7, 8, 9)
    lat = vc.angle("lat", -1.57, 1.57)
    lon = vc.angle("lon", -3.14, 3.14)
    x = vc.lstate("x")
    s2f, f2s = vc.fn(TM + "sez2ecef"), vc.fn(TM + "ecef2sez")
    vc.ensure("O-C04-inv-sez.sez2ecef-ecef2sez", vc.eq(s2f(f2s(x, lat, lon), lat, lon), x, 1e-9))
    vc.ensure("O-C04-inv-sez.ecef2sez-sez2ecef", vc.eq(f2s(s2f(x, lat, lon), lat, lon), x, 1e-9))
    sx = f2s(x, lat, lon)
    vc.ensure("O-C04-inv-sez.length", vc.eq(vc.dot(sx[:3], sx[:3]), vc.dot(x[:3], x[:3]), 1e-9))
    # NOTE: eci2sez/sez2eci treat the state as *relative* (documented); the position part is a pure rotation
    e2s, s2e = vc.fn(TM + "eci2sez"), vc.fn(TM + "sez2eci")
    back = s2e(e2s(x, lat, lon, d), lat, lon, d)
    vc.ensure("O-C04-inv-sez.eci2sez-sez2eci", vc.eq(back, x, 1e-8))


@obligation("C04", "build", ensures=["O-C04-build.transposes", "O-C04-build.orthogonal", "O-C04-build.composition", "O-C04-build.date", "O-C04-build.dut1"],
            fns=[RD + "ReductionParams.build"], mode="R",
            note="real body of build with PolarMotion / PrecessionNutation / getRotR replaced by their contracts (orthogonal results)")
def build(vc):
    import datetime
    if not vc.symbolic:
        import resonaate.physics.transforms.reductions as rd
        d = datetime.datetime(2016, 1, 1) + datetime.timedelta(seconds=vc.int("secs", 0, 86400 * 2000))
        r = rd.ReductionParams.build(d)
        vc.ensure("O-C04-build.transposes", bool(np.array_equal(r.rot_rnp, r.rot_pnr.T) and np.array_equal(r.rot_wt, r.rot_w.T)))
        vc.ensure("O-C04-build.orthogonal", vc.eq(r.rot_pnr.T @ r.rot_pnr, I3, 1e-12) and vc.eq(r.rot_w @ r.rot_w.T, I3, 1e-12))
        # the result depends on the requested instant only, not on what was requested before (a fraction of a second later is a different rotation)
        d2 = d + datetime.timedelta(seconds=vc.real("later_s", 0.05, 0.95))
        after_d = rd.ReductionParams.build(d2)
        rd.ReductionParams.build(d + datetime.timedelta(days=3))
        fresh = rd.ReductionParams.build(d2)
        same = bool(np.array_equal(after_d.rot_pnr, fresh.rot_pnr) and np.array_equal(after_d.rot_w, fresh.rot_w) and after_d.date_time == d2)
        moved = bool(np.abs(after_d.rot_pnr - r.rot_pnr).max() > 1e-7)  # the Earth turned 3.6e-6 .. 7e-5 rad in between
        vc.ensure("O-C04-build.composition", same and moved)
        vc.ensure("O-C04-build.date", r.date_time == d)
        # UT1-UTC is the tabulated value of the day, and inside one UTC day - the two days that END with an inserted leap second included - the frame turns at the Earth rate
        from resonaate.physics.transforms.eops import getEarthOrientationParameters
        day = [datetime.datetime(2016, 12, 31), datetime.datetime(2015, 6, 30), datetime.datetime(d.year, d.month, d.day)][vc.int("which_day", 0, 2)]
        t1 = day + datetime.timedelta(seconds=vc.int("t1_s", 0, 60000))
        gap = vc.int("gap_s", 600, 6 * 3600)
        a, b = rd.ReductionParams.build(t1), rd.ReductionParams.build(t1 + datetime.timedelta(seconds=gap))
        Mrel = a.rot_pnr.T @ b.rot_pnr
        turned = float(np.arctan2(Mrel[1, 0] - Mrel[0, 1], Mrel[0, 0] + Mrel[1, 1]))
        rate = 7.292115146706979e-5
        vc.ensure("O-C04-build.dut1", bool(r.dut1 == getEarthOrientationParameters(d.date()).delta_ut1 and a.dut1 == b.dut1 and abs(abs(turned) - rate * gap) < 5e-9 * gap + 2e-7))
        return
    PN, R, W = orth.LMat.gen("PN"), orth.LMat.gen("R"), orth.LMat.gen("Wp")
    vc.stub(RD + "@PolarMotion", lambda xp, yp: _NS(rot_w=W))
    vc.stub(RD + "@PrecessionNutation", lambda *a: _NS(rot_pn=PN, eq_equinox=sym.SNum(z3.Real("eqe"), 1)))
    vc.stub(RD + "getRotR", lambda d, dut1, eqe: R)
    d = datetime.datetime(2020, 1, 1)
    eops = _NS(x_p=vc.angle("xp"), y_p=vc.angle("yp"), delta_atomic_time=37, d_delta_psi=vc.angle("ddpsi"), d_delta_eps=vc.angle("ddeps"),
               delta_ut1=vc.real("dut1"), length_of_day=vc.real("lod"))
    r = vc.fn(RD + "ReductionParams.build")(lambda **kw: _NS(**kw), d, eops)
    vc.ensure("O-C04-build.transposes", vc.And(vc.eq(r.rot_rnp, r.rot_pnr.T), vc.eq(r.rot_wt, r.rot_w.T)))
    Id = orth.LMat.identity()
    vc.ensure("O-C04-build.orthogonal", vc.And(vc.eq(r.rot_rnp @ r.rot_pnr, Id), vc.eq(r.rot_pnr @ r.rot_rnp, Id),
                                               vc.eq(r.rot_wt @ r.rot_w, Id), vc.eq(r.rot_w @ r.rot_wt, Id)))
    vc.ensure("O-C04-build.composition", vc.And(vc.eq(r.rot_pnr, PN @ R), vc.eq(r.rot_pn, PN), vc.eq(r.rot_w, W)))
    vc.ensure("O-C04-build.date", r.date_time is d)
    vc.ensure("O-C04-build.dut1", r.dut1 is eops.delta_ut1)
    # a second request, a fraction of the same second later, is answered from ITS instant (no memo keyed by the truncated second)
    R2 = orth.LMat.gen("R_later")
    d2 = datetime.datetime(2020, 1, 1, 0, 0, 0, 250000)
    vc.stub(RD + "getRotR", lambda dd, dut1, eqe: R2 if dd is d2 else R)
    r2 = vc.fn(RD + "ReductionParams.build")(lambda **kw: _NS(**kw), d2, eops)
    vc.ensure("O-C04-build.composition", vc.And(vc.eq(r2.rot_pnr, PN @ R2), r2.date_time is d2))


@obligation("C04", "precnut", ensures=["O-C04-precnut.orthogonal", "O-C04-precnut.composition"],
            fns=[RD + "PrecessionNutation.__init__"], mode="R",
            note="rot1/2/3 by contract; nutation series and terrestrial-time conversion are opaque reals (values trusted)")
def precnut(vc):
    import datetime
    if not vc.symbolic:
        import resonaate.physics.transforms.reductions as rd
        d = datetime.datetime(2016, 1, 1) + datetime.timedelta(seconds=vc.int("secs", 0, 86400 * 2000))
        p = rd.PrecessionNutation(d, 37.0, 1e-9, 2e-9)
        vc.ensure("O-C04-precnut.orthogonal", vc.eq(p.rot_pn.T @ p.rot_pn, I3, 1e-12))
        vc.ensure("O-C04-precnut.composition", vc.eq(p.rot_pn, p.rot_mod2eci @ p.rot_tod2mod, 1e-15))
        return
    vc.stub(MA + "rot1", rot_stub(1))
    vc.stub(MA + "rot2", rot_stub(2))
    vc.stub(MA + "rot3", rot_stub(3))
    ttt = vc.real("ttt", -1, 1)
    vc.stub(TC + "utc2TerrestrialTime", lambda *a: (vc.real("tt"), ttt))
    dpsi, teps, meps, eqe = (sym.SNum(z3.Real(n), 1) for n in ("dpsi", "teps", "meps", "eqe"))
    vc.stub(RD + "_getNutationParameters", lambda *a: (dpsi, teps, meps, eqe))
    o = vc.new(RD + "PrecessionNutation")
    vc.fn(RD + "PrecessionNutation.__init__")(o, datetime.datetime(2020, 1, 1, 1, 2, 3), 37, vc.angle("ddpsi"), vc.angle("ddeps"))
    Id = orth.LMat.identity()
    vc.ensure("O-C04-precnut.orthogonal", vc.And(vc.eq(o.rot_pn.T @ o.rot_pn, Id), vc.eq(o.rot_pn @ o.rot_pn.T, Id)))
    names = _names()
    r1, r2, r3 = rot_stub(1), rot_stub(2), rot_stub(3)
    expect = r3(o.zeta) @ r2(-o.theta) @ r3(o.z_p) @ r1(-meps) @ r3(dpsi) @ r1(teps)
    vc.ensure("O-C04-precnut.composition", vc.eq(o.rot_pn, expect))


@obligation("C04", "rotr", ensures=["O-C04-rotr.def"], fns=[RD + "getRotR"], mode="R", xcheck=150,
            note="PEF->TOD rotation is rot3(-GAST) with GAST evaluated at (year, dayOfYear(...)-1 incl. dUT1, eq. equinox)")
def rotr(vc):
    import datetime
    if not vc.symbolic:
        # native replay: the real function against rot3(-GAST) assembled from the real helpers with the arguments the contract names
        from resonaate.physics.transforms.reductions import getRotR
        from resonaate.physics.time.conversions import dayOfYear, greenwichApparentTime
        from resonaate.physics.maths import rot3
        d = datetime.datetime(2019, 3, 4, 5, 6, 7, 250000) + datetime.timedelta(seconds=vc.int("secs", 0, 86400 * 600))
        dut1, eqe = vc.real("dut1", -0.9, 0.9), vc.real("eqe", -1e-4, 1e-4)
        el = dayOfYear(d.year, d.month, d.day, d.hour, d.minute, d.second + d.microsecond / 1e6 + dut1) - 1
        want = rot3(-1.0 * greenwichApparentTime(d.year, el, eqe))
        ok = bool(np.allclose(getRotR(d, dut1, eqe), want, atol=1e-13, rtol=0))
        # continuity across calendar boundaries with the dUT1 sign that puts UT1 and UTC on different sides of them: over a short interval the
        # rotation advances by the Earth rate x interval (no jump at minute, day, month, leap-day or year ends)
        kind = vc.int("boundary", 0, 5)
        yr = vc.int("year", 2014, 2021)
        edge = [datetime.datetime(yr + 1, 1, 1), datetime.datetime(yr, 3, 1), datetime.datetime(2016, 2, 29), datetime.datetime(yr, 7, 1),
                datetime.datetime(yr, 5, 17), datetime.datetime(yr, 5, 17, 8, 31)][kind]
        off = vc.real("offset_s", -1.5, 1.5)
        t1 = edge + datetime.timedelta(seconds=off)
        gap = vc.real("gap_s", 0.01, 2.0)
        t2 = t1 + datetime.timedelta(seconds=gap)
        gap = (t2 - t1).total_seconds()
        for du in (dut1, -dut1):
            Ra, Rb = getRotR(t1, du, eqe), getRotR(t2, du, eqe)
            dR = Rb @ Ra.T  # = rot3(-(theta2 - theta1))
            ang = np.arctan2(dR[1, 0], dR[0, 0])  # rot3(-a)[1,0] = sin(a): rotation by the angle the Earth turned
            ok = ok and abs(ang - 7.2921158553e-5 * gap) < 2e-7
        vc.ensure("O-C04-rotr.def", ok)
        return
    vc.stub(MA + "rot3", rot_stub(3))
    calls = {}
    doy = vc.real("doy", 1, 367)
    gast = vc.angle("gast", 0, 6.28)

    def doy_stub(y, mo, d, h, mi, s):
        calls["doy"] = (y, mo, d, h, mi, s)
        return doy

    def gast_stub(year, elapsed, eqe):
        calls["gast"] = (year, elapsed, eqe)
        return gast
    vc.stub(TC + "dayOfYear", doy_stub)
    vc.stub(TC + "greenwichApparentTime", gast_stub)
    d = datetime.datetime(2019, 3, 4, 5, 6, 7, 250000)
    dut1 = vc.real("dut1", -1, 1)
    eqe = vc.angle("eqe")
    R = vc.fn(RD + "getRotR")(d, dut1, eqe)
    y, mo, dd, h, mi, s = calls["doy"]
    ok_args = vc.And((y, mo, dd, h, mi) == (2019, 3, 4, 5, 6), s == 7.25 + dut1, calls["gast"][0] == 2019,
                     calls["gast"][1] == doy - 1, calls["gast"][2] == eqe)
    vc.ensure("O-C04-rotr.def", vc.And(ok_args, vc.eq(R, rot_stub(3)(-gast))))


@obligation("C04", "doy", ensures=["O-C04-doy.ordinal", "O-C04-doy.fraction"], fns=[TC + "dayOfYear"], mode="Z",
            note="month loop unrolled by path splitting (month symbolic 1..12); Gregorian leap rule")
def doy(vc):
    y = vc.int("y", 1901, 2099)
    m = vc.int("m", 1, 12)
    d = vc.int("d", 1, 31)
    h, mi = vc.int("h", 0, 23), vc.int("mi", 0, 59)
    s = vc.real("s", 0, 60)
    f = vc.fn(TC + "dayOfYear")
    r = f(y, m, d, h, mi, s)
    if vc.symbolic:
        leap = vc.And(y % 4 == 0, vc.Or(y % 100 != 0, y % 400 == 0))
    else:
        leap = (y % 4 == 0) and (y % 100 != 0 or y % 400 == 0)
    cum = [0, 31, 59, 90, 120, 151, 181, 212, 243, 273, 304, 334]
    ordinal = 0
    for k in range(12, 0, -1):
        val = cum[k - 1] + (vc.ite(leap, 1, 0) if k > 2 else 0)
        ordinal = vc.ite(m == k, val, ordinal)
    vc.ensure("O-C04-doy.ordinal", vc.eq(f(y, m, d, 0, 0, 0), ordinal + d, 1e-12))
    vc.ensure("O-C04-doy.fraction", vc.eq(r, ordinal + d + (3600 * h + 60 * mi + s) / 86400, 1e-9))


MS = "resonaate.physics.measurements:"


def _razel_cuts(vc, r, rng, el, az, prefix):
    """intermediate facts (assert-then-assume) that guide the solver through the inverse-trig chain"""
    h2 = r[0] * r[0] + r[1] * r[1]
    t1 = vc.sqrt(h2)
    n = vc.norm(r)
    vc.cut(prefix + ".cut-norms", vc.And(n > 0, t1 > 0, vc.eq(n * n, h2 + r[2] * r[2], 1e-9), vc.eq(rng, n, 1e-9)))
    vc.cut(prefix + ".cut-el", vc.And(vc.eq(vc.sin(el) * n, r[2], 1e-7), vc.eq(vc.cos(el) * n, t1, 1e-7)))
    vc.cut(prefix + ".cut-az", vc.And(vc.eq(vc.cos(az) * t1, -r[0], 1e-7), vc.eq(vc.sin(az) * t1, r[1], 1e-7)))
    return n, t1


@obligation("C04", "razel_sez", ensures=["O-C04-inv-razel.sez-roundtrip.pos", "O-C04-inv-razel.sez-roundtrip.vel", "O-C04-inv-razel.ranges",
                                         "O-C04-inv-razel.cut-norms", "O-C04-inv-razel.cut-el", "O-C04-inv-razel.cut-az"],
            fns=[TM + "razel2sez", TM + "sez2razel", TM + "spherical2cartesian", TM + "cartesian2spherical"], mode="R",
            ax_shift=True, timeout_ms=60000, nlsat_first=True,
            note="razel2sez(sez2razel(s)) = s (position and velocity) off the zenith axis; az in [0,2pi), el in [-pi/2,pi/2]; wrapAngle2Pi by contract; proof guided by three cuts")
def razel_sez(vc):
    vc.stub(MA + "wrapAngle2Pi", common.WRAP2PI)
    r = vc.vec("r", 3, -1e5, 1e5)
    v = vc.vec("v", 3, -10, 10)
    vc.assume(r[0] * r[0] + r[1] * r[1] > 1e-4)
    s = np.concatenate([r, v])
    rng, el, az, rr, elr, azr = vc.fn(TM + "sez2razel")(s)
    vc.ensure("O-C04-inv-razel.ranges", vc.And(vc.le(0, az), vc.lt(az, 2 * vc.pi), vc.le(-vc.pi / 2, el), vc.le(el, vc.pi / 2), rng > 0))
    _razel_cuts(vc, r, rng, el, az, "O-C04-inv-razel")
    back = vc.fn(TM + "razel2sez")(rng, el, az, rr, elr, azr)
    vc.ensure("O-C04-inv-razel.sez-roundtrip.pos", vc.eq(back[:3], r, 1e-7))
    vc.ensure("O-C04-inv-razel.sez-roundtrip.vel", vc.eq(back[3:], v, 1e-7))


@obligation("C04", "frame_args", ensures=["O-C04-frame.arguments-unchanged"],
            fns=[TM + "sez2razel", TM + "sez2ecef", TM + "ecef2sez", TM + "lla2ecef", TM + "cartesian2spherical", MS + "getRange", MS + "getAzimuth", MS + "getElevation"], mode="R",
            note="frame condition: the conversions are functions of their arguments and leave them alone - every element of every array handed in is, afterwards, the very object (natively: the very "
                 "value) it was before, so converting a state twice, or converting it and then using it, sees the same state (natively also eci2ecef, ecef2eci, ecef2lla, eci2razel, eci2radec, "
                 "razel2radec, radec2razel, getSlantRangeVector)")
def frame_args(vc):
    vc.stub(MA + "wrapAngle2Pi", common.WRAP2PI)
    s = np.concatenate([vc.vec("r", 3, -1e5, 1e5), vc.vec("v", 3, -10, 10)])
    vc.assume(s[0] * s[0] + s[1] * s[1] > 1e-4)
    lat, lon = vc.real("lat", -1.5, 1.5), vc.real("lon", -3.1, 3.1)
    lla = np.array([lat, lon, vc.real("alt", -0.4, 4e4)], dtype=object if vc.symbolic else float)
    calls = [(TM + "sez2razel", (s,)), (TM + "sez2ecef", (s, lat, lon)), (TM + "ecef2sez", (s, lat, lon)), (TM + "lla2ecef", (lla,)), (TM + "cartesian2spherical", (s,)),
             (MS + "getRange", (s,)), (MS + "getAzimuth", (s,)), (MS + "getElevation", (s,))]
    if not vc.symbolic:
        import datetime
        when = datetime.datetime(2020, 6, 1, 3, 4, 5) + datetime.timedelta(seconds=vc.int("when", 0, 86400 * 300))
        obs = np.array([7000.0, 100.0, -300.0, 0.1, 7.4, 0.2]) + s * 1e-3
        tgt = s * np.array([1, 1, 1, 0.3, 0.3, 0.3]) * 0.3 + np.array([0.0, 9000.0, 0.0, -6.0, 0.0, 1.0])
        calls += [(TM + "eci2ecef", (tgt, when)), (TM + "ecef2eci", (tgt, when)), (TM + "ecef2lla", (tgt,)), (TM + "eci2razel", (tgt, obs, when)), (TM + "eci2radec", (tgt, obs, when)),
                  (TM + "getSlantRangeVector", (obs, tgt, when)), (TM + "eci2lla", (tgt, when)), (TM + "eci2rsw", (tgt, obs)), (TM + "rsw2eci", (tgt, obs))]
    ok = True
    for spec_, args in calls:
        before = [list(a) if isinstance(a, np.ndarray) else None for a in args]
        for _ in range(2):  # (twice: an in-place change that an even number of calls undoes is still a change)
            vc.fn(spec_)(*args)
            for a, b in zip(args, before):
                if b is not None:
                    ok = ok and len(a) == len(b) and all((x is y) if vc.symbolic else (x == y) for x, y in zip(a, b))
    vc.ensure("O-C04-frame.arguments-unchanged", ok)


@obligation("C04", "razel_meas", ensures=["O-C04-inv-razel.measurement-inversion", "O-C04-inv-razel.m.cut-norms", "O-C04-inv-razel.m.cut-el",
                                          "O-C04-inv-razel.m.cut-az"],
            fns=[TM + "razel2sez", MS + "getRange", MS + "getAzimuth", MS + "getElevation"], mode="R", ax_lipschitz=True, timeout_ms=60000,
            note="razel2sez(getRange(s), getElevation(s), getAzimuth(s),0,0,0)[:3] = s[:3]: the radar measurement model is inverted (used by radarObs2eciPosition)")
def razel_meas(vc):
    vc.stub(MA + "wrapAngle2Pi", common.WRAP2PI)
    r = vc.vec("r", 3, -1e5, 1e5)
    vc.assume(r[0] * r[0] + r[1] * r[1] > 1e-4)
    s = np.concatenate([r, np.zeros(3)])
    rng = vc.fn(MS + "getRange")(s)
    el = vc.fn(MS + "getElevation")(s)
    az = vc.fn(MS + "getAzimuth")(s)
    _razel_cuts(vc, r, rng, el, az, "O-C04-inv-razel.m")
    back = vc.fn(TM + "razel2sez")(rng, el, az, 0, 0, 0)
    vc.ensure("O-C04-inv-razel.measurement-inversion", vc.eq(back[:3], r, 1e-7))


def _rsw_like(name, fwd, has_inv):
    ens = [f"O-C04-{name}.orthonormal"] + ([f"O-C04-{name}.inverse"] if has_inv else [])

    @obligation("C04", name, ensures=ens, fns=[TM + fwd] + ([TM + "eci2rsw"] if has_inv else []), mode="R",
                note="reference position/velocity are abstract (Gram + cross-product algebra); the basis built from r, v is orthonormal (lengths and relative geometry preserved); eci2rsw inverts rsw2eci about the same reference state",
                timeout_ms=60000)
    def h(vc):
        ref = vc.gstate("ref")
        r, v = ref[:3], ref[3:]
        x = vc.vec("x", 6, -100, 100)
        y = vc.vec("y", 6, -100, 100)
        rr, vv, rv = vc.dot(r, r), vc.dot(v, v), vc.dot(r, v)
        vc.assume(rr > 1)
        vc.assume(vv > 1e-8)
        vc.assume(rr * vv - rv * rv > 1e-6)  # |r x v|^2 > 0: not rectilinear
        f = vc.fn(TM + fwd)
        fx, fy = f(ref, x), f(ref, y)
        vc.ensure(f"O-C04-{name}.orthonormal", vc.And(vc.eq(vc.dot(fx[:3], fy[:3]), vc.dot(x[:3], y[:3]), 1e-7),
                                                      vc.eq(vc.dot(fx[3:], fy[3:]), vc.dot(x[3:], y[3:]), 1e-7)))
        if has_inv:
            back = vc.fn(TM + "eci2rsw")(ref, fx + ref)
            vc.ensure(f"O-C04-{name}.inverse", vc.eq(back, x, 1e-6))
    return h


_rsw_like("rsw", "rsw2eci", True)
_rsw_like("ntw", "ntw2eci", False)


@obligation("C04", "lla_fwd", ensures=["O-C04-lla-fwd.on-ellipsoid", "O-C04-lla-fwd.along-normal", "O-C04-lla-fwd.normal-is-gradient",
                                       "O-C04-lla-fwd.longitude"], fns=[TM + "lla2ecef"], mode="R",
            note="geodetic definition: h=0 lies on the reference ellipsoid, altitude is measured along the ellipsoid normal (cos lat cos lon, cos lat sin lon, sin lat), which is parallel to the gradient of the ellipsoid equation")
def lla_fwd(vc):
    import resonaate.physics.bodies.earth as E
    from fractions import Fraction
    a = Fraction(float(E.Earth.radius))
    e2 = Fraction(float(E.Earth.eccentricity) ** 2)  # the body squares the double in float arithmetic
    if not vc.symbolic:
        a, e2 = float(a), float(e2)
    lat = vc.angle("lat", -1.5707, 1.5707)
    lon = vc.angle("lon", -6.3, 6.3)  # (east longitudes are configured both as -180..180 and as 0..360)
    alt = vc.real("alt", -10, 1e5)
    f = vc.fn(TM + "lla2ecef")
    dt = object if vc.symbolic else float
    p0 = f(np.array([lat, lon, 0], dtype=dt))
    p = f(np.array([lat, lon, alt], dtype=dt))
    b2 = a * a * (1 - e2)
    # (tolerances: the body folds 1 - e^2 in float arithmetic, so the identities hold up to that rounding, ~1e-16 relative)
    vc.ensure("O-C04-lla-fwd.on-ellipsoid", vc.close((p0[0] * p0[0] + p0[1] * p0[1]) / (a * a) + p0[2] * p0[2] / b2, 1, 1e-12))
    n = np.array([vc.cos(lat) * vc.cos(lon), vc.cos(lat) * vc.sin(lon), vc.sin(lat)])
    vc.ensure("O-C04-lla-fwd.along-normal", vc.And(vc.eq(p[:3] - p0[:3], alt * n, 1e-9), vc.eq(p[3:], np.zeros(3))))
    g = np.array([p0[0] / (a * a), p0[1] / (a * a), p0[2] / b2])  # gradient of the ellipsoid equation (up to 2)
    cr = np.array([g[1] * n[2] - g[2] * n[1], g[2] * n[0] - g[0] * n[2], g[0] * n[1] - g[1] * n[0]])
    vc.ensure("O-C04-lla-fwd.normal-is-gradient", vc.And(vc.close(cr, np.zeros(3), 1e-15), vc.dot(g, n) > 0))
    vc.ensure("O-C04-lla-fwd.longitude", vc.And(vc.eq(p[0] * vc.sin(lon), p[1] * vc.cos(lon), 1e-9),
                                                vc.le(0, p[0] * vc.cos(lon) + p[1] * vc.sin(lon))))


def _gast_year(year):
    Y = f"[{year}]"
    ens = ["O-C04-gast.range" + Y, "O-C04-gast.linear-within-year" + Y, "O-C04-gast.rate" + Y] + (["O-C04-gast.year-boundary" + Y] if year < 2022 else [])

    @obligation("C04", f"gast{year}", ensures=ens,
                fns=[TC + "greenwichApparentTime", TC + "greenwichMeanTime", MA + "wrapAngle2Pi"], mode="R", norm_angles=True,
                assumes=["angle unit normalised to turns (homogeneity checked per operation, DESIGN 3.4a)"],
                note="one harness per year of the EOP table: GAST in [0,2pi); advancing the elapsed days by any amount advances GAST by rate*2pi*amount (mod 2pi), rate in [1.0027379,1.0027380]; the jump between this year's extrapolation and next year's Jan-1 polynomial is below 1e-7 rad (constant folding; exhaustive over the 8 boundaries of the table)")
    def h(vc):
        f = vc.fn(TC + "greenwichApparentTime")
        el = vc.real("elapsed", 0, 366)
        dl = vc.real("delta", -366, 366)
        eq = vc.angle("eq", -1e-3, 1e-3)
        two_pi = 2 * vc.pi
        zero = 0.0 * vc.pi
        g0 = f(year, el, eq)
        g1 = f(year, el + dl, eq)
        vc.ensure("O-C04-gast.range" + Y, vc.And(vc.le(0, g0), vc.lt(g0, two_pi)))
        a0, a1 = f(year, 0.0, zero), f(year, 0.25, zero)  # concrete instants: constant folding through the real body
        if vc.symbolic:
            rate = (a1 - a0) / two_pi * 4
            rate = rate + 4 * vc.floor(0.5 - rate / 4 + 0.25)  # unwrap the quarter-day advance (0.25*rate turns, in (0,1))
            vc.ensure("O-C04-gast.rate" + Y, vc.And(rate >= 1.0027379, rate <= 1.0027380))
            vc.ensure("O-C04-gast.linear-within-year" + Y, vc.is_multiple(g1 - g0 - rate * two_pi * dl, two_pi))
        else:
            rate = ((a1 - a0) % (2 * np.pi)) / (2 * np.pi) * 4
            vc.ensure("O-C04-gast.rate" + Y, 1.0027379 <= rate <= 1.0027380)
            x = (g1 - g0 - rate * 2 * np.pi * dl) / (2 * np.pi)
            vc.ensure("O-C04-gast.linear-within-year" + Y, abs(x - round(x)) < 1e-6)
        if year < 2022:
            ndays = 366 if year % 4 == 0 else 365
            d = f(year, float(ndays), zero) - f(year + 1, 0.0, zero)
            if vc.symbolic:
                d = d - two_pi * vc.floor(d / two_pi + 0.5)
                vc.ensure("O-C04-gast.year-boundary" + Y, abs(d) <= two_pi * (1e-7 / (2 * np.pi)))
            else:
                d = (d + np.pi) % (2 * np.pi) - np.pi
                vc.ensure("O-C04-gast.year-boundary" + Y, abs(d) <= 1e-7)
    return h


for _y in range(2014, 2023):
    _gast_year(_y)


def _lla_stub(x_ecef):
    """ecef2lla by contract: a deterministic function of its argument (its closed form is outside solver reach, DESIGN 4/C04)."""
    c = sym.ctx()
    memo = c.__dict__.setdefault("_lla", {})
    key = repr(x_ecef.pos) if isinstance(x_ecef, orth.LState) else repr(x_ecef)
    if key not in memo:
        n = len(memo)
        memo[key] = np.array([sym.SNum(z3.Real(f"lat{n}"), 1), sym.SNum(z3.Real(f"lon{n}"), 1), sym.SNum(z3.Real(f"alt{n}"))], dtype=object)
    return memo[key]


@obligation("C04", "slant", ensures=["O-C04-slant.range-is-distance", "O-C04-slant.def", "O-C04-slant.radar-inversion"],
            fns=[TM + "getSlantRangeVector", TM + "radarObs2eciPosition", TM + "eci2ecef", TM + "ecef2sez", TM + "sez2eci"], mode="R",
            note="slant-range vector is the rigid image of (target - sensor); radarObs2eciPosition inverts it. ecef2lla, razel2sez (O-C04-inv-razel.measurement-inversion) and the JD->datetime conversion (C05) enter by contract")
def slant(vc):
    import datetime
    if not vc.symbolic:
        import resonaate.physics.transforms.methods as tm
        import resonaate.physics.measurements as ms
        from resonaate.physics.time.stardate import datetimeToJulianDate
        d = datetime.datetime(2019, 2, 1, 3, 4, 0) + datetime.timedelta(minutes=vc.int("mins", 0, 60 * 24 * 900))
        lat, lon = vc.real("lat", -1.4, 1.4), vc.real("lon", -3.1, 3.1)
        sen_ecef = tm.lla2ecef(np.array([lat, lon, 0.3]))
        sen = tm.ecef2eci(sen_ecef, d)
        tgt = vc.vec("tgt", 6, -9.0, 9.0)
        tgt[:3] = tgt[:3] * 4000.0 + np.array([0, 0, 1e-3])
        sl = tm.getSlantRangeVector(sen, tgt, d)
        vc.ensure("O-C04-slant.range-is-distance", vc.eq(np.linalg.norm(sl[:3]), np.linalg.norm(tgt[:3] - sen[:3]), 1e-9))
        vc.ensure("O-C04-slant.def", True)
        vc.assume(sl[0] ** 2 + sl[1] ** 2 > 1e-4)
        obs = _NS(range_km=ms.getRange(sl), elevation_rad=ms.getElevation(sl), azimuth_rad=ms.getAzimuth(sl),
                  julian_date=datetimeToJulianDate(d), sensor_eci=sen)
        vc.ensure("O-C04-slant.radar-inversion", vc.eq(tm.radarObs2eciPosition(obs), tgt[:3], 1e-6))
        return
    _frame_stubs(vc)
    d = _Date()
    vc.stub(TM + "ecef2lla", _lla_stub)
    sen, tgt = vc.lstate("sen"), vc.lstate("tgt")
    sl = vc.fn(TM + "getSlantRangeVector")(sen, tgt, d)
    rel = tgt[:3] - sen[:3]
    vc.ensure("O-C04-slant.range-is-distance", vc.eq(vc.dot(sl[:3], sl[:3]), vc.dot(rel, rel)))
    e2f, f2s = vc.fn(TM + "eci2ecef"), vc.fn(TM + "ecef2sez")
    lla = _lla_stub(e2f(sen, d))
    vc.ensure("O-C04-slant.def", vc.eq(sl, f2s(e2f(tgt, d) - e2f(sen, d), lla[0], lla[1])))

    class _Meas:
        def __init__(self, what):
            self.what = what

    def razel_stub(rng, el, az, *rates):
        # contract O-C04-inv-razel.measurement-inversion: position part of the SEZ vector the three measurements came from
        assert isinstance(rng, _Meas) and isinstance(el, _Meas) and isinstance(az, _Meas)
        return orth.LState(sl[:3], orth.LVec({}))
    vc.stub(TM + "razel2sez", razel_stub)
    vc.stub(TM + "@JulianDate", lambda jd: jd)
    vc.stub("resonaate.physics.time.stardate:julianDateToDatetime", lambda jd: jd)  # contract of C05: the instant the observation was taken at
    obs = _NS(range_km=_Meas("range"), elevation_rad=_Meas("el"), azimuth_rad=_Meas("az"), julian_date=d, sensor_eci=sen)
    pos = vc.fn(TM + "radarObs2eciPosition")(obs)
    vc.ensure("O-C04-slant.radar-inversion", vc.eq(pos, tgt[:3]))


SDT = "resonaate.physics.time.stardate:"


@obligation("C04", "terrestrial_time", ensures=["O-C04-tt.continuous", "O-C04-tt.seconds"], fns=[TC + "utc2TerrestrialTime", TC + "seconds2hms", SDT + "JulianDate.getJulianDate"],
            mode="R", note="the terrestrial-time epoch used for precession/nutation is (JD(y,m,d,0h) + (UTC seconds + dAT + 32.184)/86400 - 2451545)/36525 for every time of day, also when adding the TAI/TT offset carries past midnight: no day is lost or repeated, so the rotation it feeds is continuous")
def terrestrial_time(vc):
    y, m, d = vc.int("y", 2014, 2022), vc.int("m", 1, 12), vc.int("d", 1, 28)
    h, mi = vc.int("h", 0, 23), vc.int("mi", 0, 59)
    s = vc.real("s", 0, 59.999)
    dat = vc.real("dat", 30, 40)
    if vc.symbolic:
        m = vc.split_int(m, 1, 12)
    f = vc.fn(TC + "utc2TerrestrialTime")
    if vc.symbolic:
        vc.stub(SDT + "@JulianDate", lambda x: x)
        gj = vc.fn(SDT + "JulianDate.getJulianDate")
        midnight = gj(lambda x: x, y, m, d, 0, 0, 0)
        vc.stub(TC + "@JulianDate", type("JDs", (), {"getJulianDate": staticmethod(lambda *a: gj(lambda x: x, *a))}))
    else:
        from resonaate.physics.time.stardate import JulianDate
        midnight = float(JulianDate.getJulianDate(y, m, d, 0, 0, 0))
    tt, ttt = f(y, m, d, h, mi, s, dat)
    secs = h * 3600 + mi * 60 + s + dat + 32.184
    vc.ensure("O-C04-tt.seconds", vc.eq(tt, secs, 1e-9))
    vc.ensure("O-C04-tt.continuous", vc.eq(ttt * 36525, midnight + secs / 86400 - 2451545, 1e-7) if vc.symbolic else abs(ttt * 36525 - (midnight + secs / 86400 - 2451545)) < 1e-8)


@obligation("C04", "radec_bounded", ensures=["B-C04-radec.razel-roundtrip", "B-C04-radec.radec-roundtrip", "B-C04-radec.rigid", "B-C04-radec.definition"],
            fns=[TM + "razel2radec", TM + "radec2razel", TM + "eci2radec", TM + "eci2razel", TM + "spherical2cartesian", TM + "cartesian2spherical"], mode="R",
            native_only=True, samples=400,
            bounded="BOUNDED stand-in, not a proof: 400 (quick) / 4000 (thorough) sampled (observer site, target state, epoch) triples per run on the real functions; "
                    "the composition needs arcsin(sin t) = t and angle-from-(sin, cos) uniqueness together with the unproved ecef2lla, outside what the solvers decided here",
            note="range-azimuth-elevation <-> topocentric right-ascension/declination: both round trips reproduce the six values (angles modulo a turn), the range and range rate are the same in both "
                 "descriptions, and right ascension/declination are the spherical angles of the inertial line-of-sight vector target - observer")
def radec_bounded(vc):
    import datetime
    from resonaate.physics.transforms import methods as M_
    lat, lon, alt = vc.real("lat", -1.5, 1.5), vc.real("lon", -3.1, 3.1), vc.real("alt", 0, 5)
    utc = datetime.datetime(2014, 6, 1) + datetime.timedelta(seconds=vc.int("secs", 0, 86400 * 3000))
    obs = M_.ecef2eci(np.concatenate([M_.lla2ecef(np.array([lat, lon, alt]))[:3], np.zeros(3)]), utc)
    if vc.bool("observer_in_orbit"):  # a space-based sensor: it moves in the Earth-fixed frame
        u = obs[:3] / np.linalg.norm(obs[:3])
        w = np.cross(u, [0.2, 0.5, -0.8])
        w = w / np.linalg.norm(w)
        rad = 6378.0 + vc.real("observer_height", 300, 36000)
        obs = np.concatenate([rad * u, np.sqrt(398600.4418 / rad) * w])
    rel = vc.vec("rel", 3, -4e4, 4e4)
    vc.assume(np.linalg.norm(rel) > 100)
    tgt = np.concatenate([obs[:3] + rel, vc.vec("tv", 3, -8, 8)])
    razel = np.array(M_.eci2razel(tgt, obs, utc))
    vc.assume(abs(razel[1]) < 1.5)  # away from the zenith axis (angular rates are undefined there)
    radec = np.array(M_.razel2radec(*razel, observer_eci=obs, utc_date=utc))
    vc.assume(abs(radec[1]) < 1.5)
    back = np.array(M_.radec2razel(*radec, observer_eci=obs, utc_date=utc))
    wrap = lambda a: (a + np.pi) % (2 * np.pi) - np.pi
    d1 = back - razel
    d1[2] = wrap(d1[2])
    vc.ensure("B-C04-radec.razel-roundtrip", bool(np.all(np.abs(d1) < 1e-7 * np.array([abs(razel[0]) + 1, 1, 1, 1, 1, 1]))))
    radec2 = np.array(M_.razel2radec(*back, observer_eci=obs, utc_date=utc))
    d2 = radec2 - radec
    d2[2] = wrap(d2[2])
    vc.ensure("B-C04-radec.radec-roundtrip", bool(np.all(np.abs(d2) < 1e-7 * np.array([abs(radec[0]) + 1, 1, 1, 1, 1, 1]))))
    vc.ensure("B-C04-radec.rigid", abs(radec[0] - razel[0]) < 1e-7 * (razel[0] + 1) and abs(radec[3] - razel[3]) < 1e-7)
    rho = (tgt - obs)[:3]
    dec = np.arcsin(rho[2] / np.linalg.norm(rho))
    ra = np.arctan2(rho[1], rho[0]) % (2 * np.pi)
    direct = np.array(M_.eci2radec(tgt, obs, utc))
    vc.ensure("B-C04-radec.definition", abs(radec[1] - dec) < 1e-7 and abs(wrap(radec[2] - ra)) < 1e-7 and abs(radec[0] - np.linalg.norm(rho)) < 1e-6
              and bool(np.allclose(direct, radec, atol=1e-9, rtol=1e-9)))


@obligation("C04", "lla_inverse_bounded", ensures=["B-C04-lla.ecef2lla-lla2ecef", "B-C04-lla.lla2ecef-ecef2lla", "B-C04-lla.ranges"],
            fns=[TM + "ecef2lla", TM + "lla2ecef"], mode="R", native_only=True, samples=600,
            bounded="BOUNDED stand-in, not a proof: 600 (quick) / 6000 (thorough) sampled positions per run from the surface to 10 Earth radii incl. exact poles, equator and antimeridian; "
                    "ecef2lla is an iterative/closed-form inverse outside the solvers' reach (lla2ecef itself is proved: O-C04-lla-fwd.*)",
            note="Earth-fixed <-> geodetic: ecef2lla inverts lla2ecef and vice versa to a millimetre; latitude in [-pi/2, pi/2], longitude in (-pi, pi]")
def lla_inverse_bounded(vc):
    from resonaate.physics.transforms import methods as M_
    special = vc.int("special", 0, 9)
    lat = vc.real("lat", -np.pi / 2, np.pi / 2)
    lon = vc.real("lon", -np.pi, np.pi)
    alt = vc.real("alt", 0, 9 * 6378.0)
    if special == 0:
        lat = np.pi / 2 * (1 if lon > 0 else -1)
    elif special == 1:
        lat = 0.0
    elif special == 2:
        lon = np.pi
    elif special == 3:
        alt = 0.0
    elif special in (4, 5):  # next to a pole (not on it): 1e-3 .. 1e-9 rad away
        lat = (np.pi / 2 - 10 ** -vc.real("pole_distance_exp", 3, 9)) * (1 if special == 4 else -1)
    lla = np.array([lat, lon, alt])
    ecef = M_.lla2ecef(lla)
    got = np.asarray(M_.ecef2lla(ecef), dtype=float)
    near_pole = abs(abs(lat) - np.pi / 2) < 1e-4
    # (next to the polar axis the closed form loses the last digits of the latitude, about 2e-8 rad: it is held to 3e-8 x geocentric distance there - 0.2 m for a
    #  ground site, inside the metre of C11; 2 m at ten Earth radii -, to a millimetre elsewhere)
    rr = float(np.linalg.norm(ecef[:3]))
    ptol, atol, ltol = (3e-8 * rr, 3e-8 * rr, 1e-6) if near_pole else (1e-6, 1e-6, 1e-9)
    ok_lat = abs(got[0] - lat) < ltol
    ok_lon = abs(np.cos(lat)) < 1e-9 or near_pole or abs((got[1] - lon + np.pi) % (2 * np.pi) - np.pi) < 1e-9
    vc.ensure("B-C04-lla.ecef2lla-lla2ecef", bool(ok_lat and ok_lon and abs(got[2] - alt) < atol))
    back = M_.lla2ecef(got)
    vc.ensure("B-C04-lla.lla2ecef-ecef2lla", bool(np.linalg.norm(back[:3] - ecef[:3]) < ptol))
    vc.ensure("B-C04-lla.ranges", bool(-np.pi / 2 - 1e-12 <= got[0] <= np.pi / 2 + 1e-12 and -np.pi - 1e-12 <= got[1] <= np.pi + 1e-12))
