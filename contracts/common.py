"""Contract stubs shared between properties (each is *proved* from the callee's real body by the
obligation named in its docstring, and *assumed* at call sites of other functions under contract)."""
import z3
from pyvc import spec, sym
from pyvc.sym import SBool, SNum

M = "resonaate.physics.maths:"


def _pi():
    return sym.ctx().pi()


def _wrap2pi_post(w, a):
    """O-C16-wrap2pi.range + O-C16-wrap2pi.congruent + O-C16-wrap2pi.near"""
    k = spec.fresh_int("k2pi")
    two_pi = 2 * _pi()
    near = sym.And(sym.Implies(sym.And(a > -two_pi, a < 0), w == a + two_pi), sym.Implies(sym.And(a >= 0, a < two_pi), w == a))
    return sym.And(w >= 0, w < two_pi, w == a + two_pi * k, near)


def _wrappi_post(w, a):
    """O-C16-wrappi.range + O-C16-wrappi.congruent + O-C16-wrappi.near"""
    k = spec.fresh_int("kpi")
    pi = _pi()
    near = sym.And(sym.Implies(sym.And(a > -pi, a <= pi), w == a), sym.Implies(sym.And(a > pi, a <= 3 * pi), w == a - 2 * pi),
                   sym.Implies(sym.And(a > -3 * pi, a <= -pi), w == a + 2 * pi))
    return sym.And(w > -pi, w <= pi, w == a + 2 * pi * k, near)


WRAP2PI = spec.scalar_contract("wrapAngle2Pi", _wrap2pi_post, deg_out=1)
WRAPPI = spec.scalar_contract("wrapAngleNegPiPi", _wrappi_post, deg_out=1)
