"""C19 -- imported ephemerides/observations are used faithfully; the importer database stays read-only."""
import ast
import os
import numpy as np
import z3
from pyvc.harness import obligation
from pyvc import sym, extract
from pyvc.symcoll import SymDict

IM = "resonaate.dynamics.importer:"
IDB = "resonaate.data.importer_database:"
TA = "resonaate.agents.target_agent:"
SA = "resonaate.agents.sensing_agent:"
CE = "resonaate.tasking.engine.centralized_engine:"
SD = "resonaate.physics.time.stardate:"


class _NS:
    def __init__(self, **kw):
        self.__dict__.update(kw)


def _complete(n_rows, n_reg, tier):
    T = f"[rows{n_rows},reg{n_reg}]"

    @obligation("C19", f"complete{T}", ensures=[f"O-C19-complete.raises-iff-missing{T}", f"O-C19-complete.imported-once{T}", f"O-C19-complete.deregistered{T}"],
                fns=[IM + "EphemerisImporter.importEphemerides"], mode="Z", tier=tier,
                bounded=f"{n_rows} database rows, {n_reg} registered agents for the epoch; all agent ids symbolic integers (registered ids pairwise distinct, database ids arbitrary)",
                note="the run stops with MissingEphemerisError iff some registered agent has no row, however many unrelated agents the database holds; otherwise every registered agent imports exactly once, from a row carrying its own id, and is de-registered")
    def h(vc):
        row_ids = [vc.int(f"row{i}", 0, 10 ** 6) for i in range(n_rows)]
        reg_ids = [vc.int(f"reg{i}", 0, 10 ** 6) for i in range(n_reg)]
        if vc.symbolic:
            for i in range(n_reg):
                for j in range(i + 1, n_reg):
                    vc.assume(reg_ids[i] != reg_ids[j])
            for i in range(n_rows):  # one truth row per (agent, epoch): row ids distinct as well
                for j in range(i + 1, n_rows):
                    vc.assume(row_ids[i] != row_ids[j])
        else:
            vc.assume(len(set(reg_ids)) == n_reg and len(set(row_ids)) == n_rows)
        imported = []

        class Agent:
            def __init__(self, k):
                self.k = k

            def importState(self, ephem):
                imported.append((self.k, ephem))
        rows = [_NS(agent_id=r, tag=i) for i, r in enumerate(row_ids)]
        agents = [Agent(k) for k in range(n_reg)]
        when = _NS(isoformat=lambda timespec=None: "T")
        import resonaate.dynamics.importer as imp
        if vc.symbolic:
            vc.stub(IM + "@Query", lambda *a: _NS(join=lambda *b: _NS(filter=lambda *c: "QUERY")))
            vc.stub(IM + "@Epoch", _NS(timestampISO="ts"))
            regs = SymDict(list(zip(reg_ids, agents)))
            o = vc.new(IM + "EphemerisImporter", _registrants=regs, _importer_db=_NS(getData=lambda q: list(rows)), _logger=None)
        else:
            regs = dict(zip(reg_ids, agents))
            o = vc.new(IM + "EphemerisImporter", _registrants=regs, _importer_db=_NS(getData=lambda q: list(rows)), _logger=__import__("logging").getLogger("pyvc"))
        try:
            o.importEphemerides(when)
            raised = False
        except imp.MissingEphemerisError:
            raised = True
        missing = vc.Or(*[vc.And(*[reg_ids[k] != r for r in row_ids]) for k in range(n_reg)]) if n_reg else False
        vc.ensure(f"O-C19-complete.raises-iff-missing{T}", vc.iff(raised, missing))
        if not raised:
            ks = [k for k, _ in imported]
            once = sorted(ks) == list(range(n_reg))
            own = vc.And(*[e.agent_id == reg_ids[k] for k, e in imported]) if imported else True
            vc.ensure(f"O-C19-complete.imported-once{T}", vc.And(once, own))
            vc.ensure(f"O-C19-complete.deregistered{T}", len(o._registrants) == 0)
        else:
            vc.ensure(f"O-C19-complete.imported-once{T}", True)
            vc.ensure(f"O-C19-complete.deregistered{T}", True)
    return h


for _r, _g, _t in [(0, 1, "quick"), (1, 1, "quick"), (2, 1, "quick"), (2, 2, "quick"), (3, 2, "quick"), (3, 3, "thorough"), (4, 2, "thorough")]:
    _complete(_r, _g, _t)


@obligation("C19", "query", ensures=["O-C19-query.exact-epoch"], fns=[IM + "EphemerisImporter.importEphemerides"], mode="Z",
            note="the records handed out at a step are selected by EXACT equality of the epoch's ISO timestamp at microsecond resolution with the current epoch's: a record of a neighbouring "
                 "instant (another sub-second sample of a finer database) is never taken for the step's record, and a gap at the exact epoch is seen as a gap")
def query(vc):
    class Col:
        def __init__(self, name):
            self._name = name

        def __eq__(self, other):
            return ("==", self._name, other)

        __hash__ = None

        def __getattr__(self, op):  # any other comparison / string operator is recorded as such (and is not the exact match)
            return lambda *a, **k: (op, self._name, a)
    seen = {}

    class Q:
        def __init__(self, what):
            seen["select"] = what

        def join(self, other):
            seen["join"] = other
            return self

        def filter(self, *cond):
            seen["filter"] = cond
            return "QUERY"
    EpochStub = _NS(timestampISO=Col("timestampISO"))
    vc.install(IM + "@Query", Q)
    vc.install(IM + "@Epoch", EpochStub)
    when = _NS(isoformat=lambda timespec="auto": ("ISO", timespec))
    got = []
    o = vc.new(IM + "EphemerisImporter", _registrants={}, _importer_db=_NS(getData=lambda q: (got.append(q), [])[1]), _logger=__import__("logging").getLogger("pyvc"))
    o.importEphemerides(when)
    import resonaate.data.ephemeris as eph
    vc.ensure("O-C19-query.exact-epoch", got == ["QUERY"] and seen.get("filter") == (("==", "timestampISO", ("ISO", "microseconds")),) and seen.get("join") is EpochStub
              and list(seen.get("select")) == [eph.TruthEphemeris])


@obligation("C19", "state", ensures=["O-C19-state.target", "O-C19-state.sensor"], fns=[TA + "TargetAgent.importState", SA + "SensingAgent.importState"], mode="R",
            note="after importState the agent's truth state is exactly the record's ECI state and its clock is (record JD - start JD) * 86400 (exact in reals; in floats within 5e-5 s, see O-C05-scen)")
def state(vc):
    eci = vc.vec("eci", 6, -5e4, 5e4)
    jd, jd0 = vc.real("jd", 2450000, 2470000), vc.real("jd0", 2450000, 2470000)
    if not vc.symbolic:
        # native replay on the real agent classes (start inside the Earth-orientation table, record up to 30 days later)
        import datetime
        from resonaate.physics.time.stardate import JulianDate, ScenarioTime, datetimeToJulianDate
        from resonaate.agents.target_agent import TargetAgent
        from resonaate.agents.sensing_agent import SensingAgent
        start = datetime.datetime(2019, 1, 1) + datetime.timedelta(seconds=int((jd0 - 2450000) * 3))
        j0 = datetimeToJulianDate(start)
        j1 = JulianDate(float(j0) + (jd - 2450000) / 20000 * 30)
        rec = _NS(eci=list(eci), julian_date=float(j1))
        want_t = (float(j1) - float(j0)) * 86400
        for name, C in (("target", TargetAgent), ("sensor", SensingAgent)):
            # (vc.new: built without __init__, with the fields __init__ sets to a literal - caches, counters - available as __init__ leaves them)
            a = vc.new((TA + "TargetAgent") if C is TargetAgent else (SA + "SensingAgent"), julian_date_start=j0, datetime_start=start, _truth_state=None, _time=ScenarioTime(0.0))
            # history: the agent imported the record of the previous step (another state, an earlier epoch) and was asked for its epoch before this one arrives
            earlier = _NS(eci=list(np.asarray(eci)[::-1] * 0.5), julian_date=float(j1) - 300.0 / 86400)
            if earlier.julian_date > float(j0):
                a.importState(earlier)
                a.datetime_epoch
            a.importState(rec)
            ok = bool(np.array_equal(a.eci_state, eci)) and abs(float(a._time) - want_t) < 5e-5
            ok = ok and abs((a.datetime_epoch - start).total_seconds() - want_t) <= 0.5   # the epoch the agent reports is the record's (whole-second datetime)
            if C is SensingAgent:
                # the sensing agent converts its state to Earth-fixed / geodetic coordinates eagerly: at the RECORD's epoch, not the one it had before the import
                from resonaate.physics.transforms.methods import eci2ecef
                now = start + datetime.timedelta(seconds=want_t)
                ok = ok and bool(np.allclose(a.ecef_state, eci2ecef(np.array(eci), now), rtol=0, atol=1e-3 + 1e-7 * float(np.abs(eci).max())))
            vc.ensure(f"O-C19-state.{name}", ok)
        return
    JD = vc.float_class(SD + "JulianDate")
    ST = vc.float_class(SD + "ScenarioTime")
    for mod in (TA, SA):
        vc.stub(mod + "@JulianDate", JD)
    vc.stub(SD + "@ScenarioTime", ST)
    vc.stub(SD + "@JulianDate", JD)
    rec = _NS(eci=list(eci), julian_date=jd)
    t = vc.new(TA + "TargetAgent", julian_date_start=JD(jd0), _truth_state=None, _time=None)
    t.importState(rec)
    val = lambda x: x._pyvc_value() if hasattr(x, "_pyvc_value") else x
    vc.ensure("O-C19-state.target", vc.And(vc.eq(t._truth_state, eci), vc.eq(val(t._time), (jd - jd0) * 24 * 3600)))
    seen = {}
    vc.stub(SA + "@eci2ecef", lambda x, d: (seen.__setitem__("ecef", (x, d)), "ECEF")[1])
    vc.stub(SA + "@ecef2lla", lambda x: "LLA")
    # (the epoch the conversion uses is a function of the agent's clock AT THAT MOMENT: it must be the record's time, not the time the agent had before the import)
    C = vc.cls(SA + "SensingAgent", extra_methods={"datetime_epoch": property(lambda self: ("EPOCH-AT", self._time))})
    s = object.__new__(C)
    s.__dict__.update(julian_date_start=JD(jd0), _truth_state=None, _time="TIME-BEFORE-THE-IMPORT")
    s.importState(rec)
    vc.ensure("O-C19-state.sensor", vc.And(vc.eq(s._truth_state, eci), vc.eq(val(s._time), (jd - jd0) * 24 * 3600), s._ecef_state == "ECEF", s._lla_state == "LLA",
                                            seen["ecef"][1][0] == "EPOCH-AT" and seen["ecef"][1][1] is s._time))


def _calls_in(tree):
    out = set()
    for n in ast.walk(tree):
        if isinstance(n, ast.Call):
            f = n.func
            if isinstance(f, ast.Attribute):
                out.add(f.attr)
            elif isinstance(f, ast.Name):
                out.add(f.id)
    return out


@obligation("C19", "readonly", ensures=["O-C19-readonly.public-writes-raise", "O-C19-readonly.no-private-writer-reachable", "O-C19-readonly.only-getData"],
            fns=[IDB + "ImporterDatabase.insertData", IDB + "ImporterDatabase.deleteData", IDB + "ImporterDatabase.bulkSave"], mode="Z",
            note="the three public write methods raise unconditionally; syntactic call-graph frame over /repo/src re-read on every run: the private writers (_insertData, initDatabaseFromJSON, _loadJSONFile) are referenced only inside importer_database.py, and every use of an `_importer_db` attribute in the simulation code is a call of getData (or a truthiness test)",
            assumes=["SQLite opening the file read-write and SQLAlchemy session behaviour are outside any contract"])
def readonly(vc):
    import resonaate.data.importer_database as idb
    db = vc.new(IDB + "ImporterDatabase")
    ok = True
    for name, args in (("insertData", (1, 2)), ("deleteData", ("q",)), ("bulkSave", ([1],))):
        try:
            getattr(db, name)(*args)
            ok = False
        except NotImplementedError:
            pass
    vc.ensure("O-C19-readonly.public-writes-raise", ok)
    src = extract.REPO_SRC
    writers = {"_insertData", "initDatabaseFromJSON", "_loadJSONFile"}
    offenders, bad_uses = [], []
    for root, _, files in os.walk(os.path.join(src, "resonaate")):
        for fn in files:
            if not fn.endswith(".py"):
                continue
            path = os.path.join(root, fn)
            tree = ast.parse(open(path, "rb").read())
            rel = os.path.relpath(path, src)
            if not rel.endswith("data/importer_database.py"):
                for n in ast.walk(tree):
                    if isinstance(n, ast.Attribute) and n.attr in writers:
                        offenders.append(f"{rel}:{n.lineno}:{n.attr}")
                    if isinstance(n, ast.Name) and n.id in writers:
                        offenders.append(f"{rel}:{n.lineno}:{n.id}")
            # uses of <x>._importer_db
            parents = {}
            for p in ast.walk(tree):
                for ch in ast.iter_child_nodes(p):
                    parents[ch] = p
            for n in ast.walk(tree):
                if isinstance(n, ast.Attribute) and n.attr == "_importer_db":
                    p = parents.get(n)
                    if isinstance(n.ctx, ast.Store):
                        continue  # construction in __init__
                    if isinstance(p, ast.Attribute) and p.attr == "getData" and isinstance(parents.get(p), ast.Call):
                        continue
                    if isinstance(p, (ast.If, ast.BoolOp, ast.UnaryOp)):
                        continue  # truthiness test
                    bad_uses.append(f"{rel}:{n.lineno}")
    vc.ensure("O-C19-readonly.no-private-writer-reachable", not offenders, note=";".join(offenders))
    vc.ensure("O-C19-readonly.only-getData", not bad_uses, note=";".join(bad_uses))


from contracts import stepfwd as SF  # noqa: E402


@obligation("C19", "register", ensures=["O-C19-register.routing", "O-C19-register.import-at-new-epoch", "O-C19-register.no-importer"],
            fns=[SF.SC + "Scenario.stepForward", IM + "EphemerisImporter.registerAgent"], mode="Z",
            bounded="network of 2 targets and 2 sensors, every split into realtime / imported agents",
            note="in every step each imported (non-realtime) agent is registered with the importer exactly once and never propagated, each realtime agent is propagated exactly once and never registered; ephemerides are imported once, for the NEW epoch (after the clock tick), before the propagation jobs are joined; without an importer database the step raises")
def register(vc):
    import itertools
    ids = (1, 2, 10, 11)
    for k in range(len(ids) + 1):
        for non in itertools.combinations(ids, k):
            scn, log = SF.run_step(vc, nonrealtime=non, truth_only=True)
            reg = [e[1].simulation_id for e in SF.entries(log, "importer.register")]
            prop = [e[1][1].simulation_id for e in SF.entries(log, "propagate.enqueue")]
            vc.ensure("O-C19-register.routing", sorted(reg) == sorted(non) and sorted(prop) == sorted(set(ids) - set(non)))
            imp = SF.entries(log, "importer.import")
            ok = len(imp) == 1 and imp[0][1] == "DT1" and SF.idx(log, "ticToc") < SF.idx(log, "importer.import") < SF.idx(log, "propagate.join") \
                and all(SF.idx(log, "importer.register", i) < SF.idx(log, "importer.import") for i in range(len(reg)))
            vc.ensure("O-C19-register.import-at-new-epoch", ok)
    try:
        SF.run_step(vc, nonrealtime=(2,), importer=False, truth_only=True)
        raised = False
    except RuntimeError:
        raised = True
    vc.ensure("O-C19-register.no-importer", raised)
    # registerAgent itself: refuses realtime agents, stores by simulation id
    o = vc.new(IM + "EphemerisImporter", _registrants={})
    a = SF.Agent([], "T", 7, realtime=False)
    o.registerAgent(a)
    try:
        o.registerAgent(SF.Agent([], "T", 8, realtime=True))
        refused = False
    except RuntimeError:
        refused = True
    vc.ensure("O-C19-register.routing", o._registrants == {7: a} and refused)


@obligation("C19", "obs", ensures=["O-C19-obs.loaded", "O-C19-obs.saved", "O-C19-obs.reach-filter"],
            fns=[CE + "CentralizedTaskingEngine.loadImportedObservations", CE + "CentralizedTaskingEngine._attachObsMetadata", CE + "CentralizedTaskingEngine.assess",
                 "resonaate.tasking.engine.engine_base:TaskingEngine.saveObservations", SF.SC + "Scenario.stepForward"], mode="Z",
            bounded="4 stored observations (two of them from the same sensor position and target: one is a duplicate; a third from the same sensor position of another target), 2 targets",
            note="every stored observation of the epoch whose (sensor position, target) is first-seen is returned with its sensor's measurement model attached, saved by the engine, and handed to the update job of exactly its target's estimate; exact duplicates are dropped")
def obs(vc):
    mk = lambda tag, sid, tid, pos: _NS(tag=tag, sensor_id=sid, target_id=tid, pos_x_km=pos[0], pos_y_km=pos[1], pos_z_km=pos[2], measurement=None,
                                        makeDictionary=lambda: {"sensor_id": sid, "target_id": tid, "julian_date": 0})  # (a dict, as _DataMixin.makeDictionary returns)
    # ("c": the same sensor, hence the same sensor position, observed a DIFFERENT target at this epoch - not a duplicate)
    rows = [mk("a", 10, 1, (1.0, 2.0, 3.0)), mk("dup", 10, 1, (1.0, 2.0, 3.0)), mk("c", 10, 2, (1.0, 2.0, 3.0)), mk("b", 11, 2, (4.0, 5.0, 6.0))]
    queries = []
    vc.install(CE + "@Query", lambda *a: _NS(join=lambda *b: _NS(filter=lambda *c: (queries.append(c), "QUERY")[1])))
    vc.install(CE + "@Epoch", _NS(timestampISO=_NS(__eq__=None)))
    vc.install(CE + "@ray", _NS(get=lambda h: h))
    # the engine's sensor store holds the sensing AGENTS (Scenario.stepForward: ray.put(sensor_agent)); the measurement model lives on the agent's sensor
    sensors = {10: vc.new(SA + "SensingAgent", _sensors=_NS(measurement="M10")), 11: vc.new(SA + "SensingAgent", _sensors=_NS(measurement="M11"))}
    when = _NS(isoformat=lambda timespec=None: "ISO-NOW")
    eng = vc.new(CE + "CentralizedTaskingEngine", _importer_db=_NS(getData=lambda q: list(rows)), _sensor_store=sensors, _observations=[_NS(tag="observation-of-the-previous-epoch", sensor_id=10, target_id=1, julian_date=0.0, measurement=None)],
                 _saved_observations=[], _realtime_obs=False, target_list=[1, 2], sensor_list=[10, 11], _reward=_NS(metrics=[1]), logger=SF.NullLogger())
    out = eng.loadImportedObservations(when)
    vc.ensure("O-C19-obs.loaded", [o.tag for o in out] == ["a", "c", "b"] and out[0].measurement == "M10" and out[1].measurement == "M10" and out[2].measurement == "M11")
    eng.assess("PRIOR", when)
    ok_saved = [o.tag for o in eng._observations] == ["a", "c", "b"] and [o.tag for o in eng._saved_observations] == ["a", "c", "b"]
    # the same with simulated ("realtime") observations switched on as well: stored observations are used whenever an importer database is given
    vc.install(CE + "@handleRelevantEvents", lambda *a, **k: None)
    vc.install(CE + "@TaskingRewardRegistration", lambda *a: "reward-job")
    vc.install(CE + "@TaskExecutionRegistration", lambda *a: "exec-job")
    vc.install(CE + "@datetimeToJulianDate", lambda d: ("JD", d))
    ex = _NS(enqueueJob=lambda r: None, join=lambda: None)
    eng2 = vc.new(CE + "CentralizedTaskingEngine", _importer_db=_NS(getData=lambda q: list(rows)), _sensor_store=sensors, _observations=[], _saved_observations=[],
                  _realtime_obs=True, target_list=[1, 2], sensor_list=[10, 11], logger=SF.NullLogger(), sensor_changes={}, _estimate_store={1: "E1", 2: "E2"}, _target_store={},
                  _reward=_NS(metrics=[1], normalizeMetrics=lambda mm: mm, calculate=lambda mm: np.zeros(4)), _decision=_NS(calculate=lambda r, v: np.zeros((2, 2), dtype=bool)),
                  _reward_executor=ex, _task_exec_executor=ex, _database="DB", _unique_id=5, target_indices={1: 0, 2: 1}, _missed_observations=[], _saved_missed_observations=[])
    eng2.assess("PRIOR", when)
    ok_saved = ok_saved and [o.tag for o in eng2._observations] == ["a", "c", "b"] and [o.tag for o in eng2._saved_observations] == ["a", "c", "b"]
    vc.ensure("O-C19-obs.saved", ok_saved)
    # routing inside the step: observations of target k reach the update job of estimate k only
    oa, ob = _NS(tag="a", sensor_id=10, target_id=1), _NS(tag="b", sensor_id=11, target_id=2)
    scn, log = SF.run_step(vc, engines=lambda lg: {5: SF.Engine(lg, 5, {}, [oa, ob])})
    ups = SF.entries(log, "update.enqueue")
    got = {e[1][1].simulation_id: [o.tag for o in e[1][3]] for e in ups}
    vc.ensure("O-C19-obs.reach-filter", got == {1: ["a"], 2: ["b"]} and len(ups) == 2)


@obligation("C19", "realtime_flag", ensures=["O-C19-flag.target", "O-C19-flag.sensor"], fns=[TA + "TargetAgent.fromConfig", SA + "SensingAgent.fromConfig"], mode="Z",
            note="which agents take their truth from the importer is decided by the configured flags: a target agent is built realtime iff propagation.target_realtime_propagation, a sensing agent iff propagation.sensor_realtime_propagation (the two flags are independent symbolic booleans), with the configured id, the given dynamics and clock, and the initial state of its own configuration at the clock's epoch")
def realtime_flag(vc):
    import inspect
    t_rt, s_rt = vc.bool("target_realtime"), vc.bool("sensor_realtime")
    prop = _NS(target_realtime_propagation=t_rt, sensor_realtime_propagation=s_rt, station_keeping=False)
    clock = _NS(datetime_epoch="EPOCH", julian_date_start="JD0")
    plat = _NS(type="Spacecraft", visual_cross_section=1.0, mass=100.0, reflectivity=0.2)
    cfg = _NS(id=42, name="a", platform=plat, state=_NS(toECI=lambda when: ("ECI", when)), sensor="SENSORCFG")

    def run(modspec, clsname, key, patches):
        import importlib
        real = getattr(importlib.import_module(modspec[:-1]), clsname)
        sig = inspect.signature(real.__init__)
        got = {}

        class Fake:
            _createStationKeepers = staticmethod(lambda *a: "SK")

            def __new__(cls, *a, **k):
                got.update(sig.bind(None, *a, **k).arguments)
                return "AGENT"
        if vc.symbolic:
            f = vc.fn(modspec + clsname + ".fromConfig")
            for k, v in patches.items():
                vc.stub(modspec + "@" + k, v)
            out = f(Fake, **{key: cfg}, clock=clock, dynamics="DYN", prop_cfg=prop)
        else:
            import contextlib
            from unittest import mock
            with (mock.patch.multiple(modspec[:-1], **patches) if patches else contextlib.nullcontext()):
                out = real.fromConfig.__func__(Fake, **{key: cfg}, clock=clock, dynamics="DYN", prop_cfg=prop)
        return out, got
    out, got = run(TA, "TargetAgent", "tgt_cfg", {})
    vc.ensure("O-C19-flag.target", out == "AGENT" and got["realtime"] is t_rt and got["_id"] == 42 and got["dynamics"] == "DYN" and got["clock"] is clock
              and got["initial_state"] == ("ECI", "EPOCH"))
    out, got = run(SA, "SensingAgent", "sen_cfg", {"sensorFactory": lambda c: ("SENSOR", c)})
    vc.ensure("O-C19-flag.sensor", out == "AGENT" and got["realtime"] is s_rt and got["_id"] == 42 and got["dynamics"] == "DYN" and got["clock"] is clock
              and got["initial_state"] == ("ECI", "EPOCH") and got["sensors"] == ("SENSOR", "SENSORCFG"))


@obligation("C19", "obs_query_bounded", ensures=["B-C19-obs-query.every-epoch", "B-C19-obs-query.only-that-epoch"],
            fns=[CE + "CentralizedTaskingEngine.loadImportedObservations", "resonaate.data.data_interface:DataInterface.getData"], mode="Z", native_only=True, samples=40,
            bounded="BOUNDED stand-in, not a proof: 40 (quick) / 400 (thorough) sampled (start instant, step, number of epochs) triples per run against a real in-memory SQLite database "
                    "written the way a run writes it (epoch rows: the clock's Julian date and the ISO timestamp; observation rows keyed by that Julian date); what SQLAlchemy/SQLite do "
                    "with the query is outside any contract (the symbolic `obs` harness fixes which query is built)",
            note="for ANY start instant (not only noon/midnight, where the Julian date of a datetime and the clock's Julian date agree bit for bit) the real query of "
                 "loadImportedObservations returns, at every epoch of the run, exactly the observations stored for that epoch")
def obs_query_bounded(vc):
    import datetime
    from resonaate.data.resonaate_database import ResonaateDatabase
    from resonaate.data.agent import AgentModel
    from resonaate.data.epoch import Epoch
    from resonaate.data.observation import Observation
    from resonaate.physics.time.stardate import ScenarioTime, datetimeToJulianDate
    from resonaate.tasking.engine.centralized_engine import CentralizedTaskingEngine
    start = datetime.datetime(2019, 1, 1) + datetime.timedelta(seconds=vc.int("start_offset_s", 0, 86400 * 1000))
    dt = [1, 7, 30, 60, 300, 3600][vc.int("step_choice", 0, 5)]
    n = vc.int("epochs", 2, 12)
    jd0 = datetimeToJulianDate(start)
    db = ResonaateDatabase(db_path="sqlite://")
    db.insertData(AgentModel(unique_id=11, name="tgt"), AgentModel(unique_id=22, name="sen"))
    jds = []
    for k in range(n + 1):
        jd = ScenarioTime(float(k * dt)).convertToJulianDate(jd0)   # the clock's own expression (ScenarioClock.julian_date_epoch)
        when = start + datetime.timedelta(seconds=k * dt)
        jds.append((float(jd), when))
        db.insertData(Epoch(julian_date=float(jd), timestampISO=when.isoformat(timespec="microseconds")))
    from resonaate.physics.measurements import Measurement
    meas = Measurement.fromMeasurementLabels(["azimuth_rad", "elevation_rad"], np.eye(2) * 1e-8)
    for k, (jd, when) in enumerate(jds):
        db.insertData(Observation(julian_date=jd, target_id=11, sensor_id=22, sensor_type="Optical", sensor_eci=np.array([7000.0 + k, 1.0, 2.0, 0.0, 7.5, 0.0]), measurement=meas,
                                  azimuth_rad=0.1 * k, elevation_rad=0.2))
    eng = object.__new__(CentralizedTaskingEngine)
    eng.__dict__.update(_importer_db=db, logger=_NS(warning=lambda *a: None, debug=lambda *a: None, info=lambda *a: None, error=lambda *a: None))
    eng._attachObsMetadata = lambda obs: obs
    ok_all, ok_only = True, True
    for k, (jd, when) in enumerate(jds):
        got = eng.loadImportedObservations(when)
        ok_all = ok_all and len(got) >= 1 and any(abs(o.azimuth_rad - 0.1 * k) < 1e-12 for o in got)
        ok_only = ok_only and all(abs(o.azimuth_rad - 0.1 * k) < 1e-12 for o in got)
    vc.ensure("B-C19-obs-query.every-epoch", ok_all)
    vc.ensure("B-C19-obs-query.only-that-epoch", ok_only)
