"""C10 -- truth trajectories depend only on dynamics and initial states (frame / non-interference obligations)."""
import ast
import os
import numpy as np
from pyvc.harness import obligation
from pyvc import extract
from contracts import stepfwd as SF

AP = "resonaate.parallel.agent_propagation:"
SC = SF.SC
TRUTH = {"prunePropagateEvents", "datetime_epoch", "station_keeping", "simulation_id", "dynamics", "time", "dt_step", "eci_state", "propagate_event_queue"}
RAY = ["ray passes copies of agents/dynamics to workers; solve_ivp, numpy kernels and dict iteration order are deterministic"]


class _NS:
    def __init__(self, **kw):
        self.__dict__.update(kw)


class ReadRec:
    """registrant that records which attributes are read / written / called"""

    def __init__(self, **attrs):
        object.__setattr__(self, "_reads", [])
        object.__setattr__(self, "_writes", [])
        object.__setattr__(self, "_attrs", attrs)

    def __getattr__(self, k):
        if k.startswith("__"):
            raise AttributeError(k)
        self._reads.append(k)
        v = self._attrs.get(k)
        if v is None and k not in self._attrs:
            return lambda *a, **kw: None
        return v

    def __setattr__(self, k, v):
        self._writes.append(k)
        self._attrs[k] = v


@obligation("C10", "truth_job", ensures=["O-C10-truth-reads", "O-C10-own-agent", "O-C10-worker"],
            fns=[AP + "PropagateRegistration.generateSubmission", AP + "PropagateRegistration.processResults", AP + "asyncPropagate"], mode="Z", assumes=RAY,
            note="a truth propagation job is built from the agent's own truth attributes only (time, step, state, dynamics, station keeping, queued propagation events, epoch), the worker calls nothing but dynamics.propagate on exactly those values, and the result is written back to that agent's time and state only - no filter, tasking, sensor or output-cadence datum can reach a truth trajectory")
def truth_job(vc):
    sk = [_NS(reductions=None)]
    reg_ag = ReadRec(station_keeping=sk, simulation_id=7, dynamics="DYN", time=100, dt_step=60, eci_state="X", propagate_event_queue=["EV", "EV-already-fired"], datetime_epoch="NOW")
    # pruning REBINDS the queue (Agent.prunePropagateEvents assigns a new list): the job must carry the queue as it is after pruning
    reg_ag._attrs["prunePropagateEvents"] = lambda: reg_ag._attrs.__setitem__("propagate_event_queue", ["EV"])
    vc.install(AP + "@ReductionParams", _NS(build=lambda d: ("RED", d)))
    vc.install(AP + "@PropagateSubmission", lambda **kw: _NS(**kw))
    reg = vc.new(AP + "PropagateRegistration", _registrant=reg_ag)
    sub = reg.generateSubmission()
    ok = set(reg_ag._reads) <= TRUTH and reg_ag._writes == [] and sub.agent_id == 7 and sub.dynamics == "DYN" and sub.init_time == 100 and sub.final_time == 160 \
        and sub.init_eci == "X" and sub.station_keeping is sk and sub.scheduled_events == ["EV"] and sk[0].reductions == ("RED", "NOW") \
        and reg_ag._reads[0] == "prunePropagateEvents"
    vc.ensure("O-C10-truth-reads", ok)
    reg.processResults(_NS(final_time=160, final_eci="X1"))
    vc.ensure("O-C10-own-agent", reg_ag._writes == ["time", "eci_state"] and reg_ag._attrs["time"] == 160 and reg_ag._attrs["eci_state"] == "X1")
    calls = []
    dyn = _NS(propagate=lambda *a, **k: (calls.append((a, k)), "NEW")[1])
    vc.install(AP + "@PropagateResult", lambda **kw: _NS(**kw))
    f = vc.fn(AP + "asyncPropagate")
    res = f(_NS(agent_id=7, dynamics=dyn, init_time=100, final_time=160, init_eci="X", station_keeping=sk, scheduled_events=["EV"], error_flags="EF"))
    vc.ensure("O-C10-worker", calls == [((100, 160, "X"), {"station_keeping": sk, "scheduled_events": ["EV"], "error_flags": "EF"})] and res.final_eci == "NEW"
              and res.final_time == 160 and res.agent_id == 7)


@obligation("C10", "step_frames", ensures=["O-C10-truth-first", "O-C10-estimation-independent", "O-C10-no-truth-writes", "O-C10-other-agents", "O-C10-truth-events", "O-C10-current-agents"],
            fns=[SC + "Scenario.stepForward"], mode="Z", assumes=RAY, bounded="2-3 targets, 2 sensors, 2 engines",
            note="in a step every truth job is created and joined before any estimation or tasking code runs; the truth part of the step is the same sequence of operations with estimation/tasking on or off and whatever the engines return; the estimation/tasking part never assigns an attribute of a target agent and touches sensor agents only through updateInfo/pruneTimeBiasEvents (pointing state, not trajectory); adding another agent adds one job for it and leaves the other agents' jobs unchanged")
def step_frames(vc):
    o1 = _NS(tag="x", sensor_id=10, target_id=1)
    eng = lambda lg: {5: SF.Engine(lg, 5, {10: {"boresight": "b", "time_last_tasked": "t"}}, [o1]), 6: SF.Engine(lg, 6, {}, [])}
    _, full = SF.run_step(vc, engines=eng)
    _, truth = SF.run_step(vc, truth_only=True)
    _, noeng = SF.run_step(vc)
    import re
    norm = lambda e: re.sub(r"0x[0-9a-f]+", "0x", repr(e))
    cut = lambda lg: [norm(e) for e in lg[: SF.idx(lg, "propagate.join") + 1]]
    vc.ensure("O-C10-truth-first", SF.idx(full, "propagate.join") < min(SF.idx(full, n) for n in ("predict.enqueue", "engine.setHandles", "engine.assess", "update.enqueue", "updateInfo")))
    vc.ensure("O-C10-estimation-independent", cut(full) == cut(truth) == cut(noeng) and all(e[0] in ("flushEvents",) for e in truth[SF.idx(truth, "propagate.join") + 1:]))
    after = full[SF.idx(full, "propagate.join") + 1:]
    touched = [e for e in after if e[0] in ("updateInfo", "pruneTimeBias")]
    vc.ensure("O-C10-no-truth-writes", all(e[1] in (10, 11) for e in touched) and not any(e[0] == "agent.setattr" for e in full))
    _, three = SF.run_step(vc, targets=(1, 2, 3), estimates=(1, 2), truth_only=True)
    jobs2 = [norm(e) for e in SF.entries(truth, "propagate.enqueue")]
    jobs3 = [norm(e) for e in SF.entries(three, "propagate.enqueue")]
    vc.ensure("O-C10-other-agents", len(jobs3) == len(jobs2) + 1 and all(j in jobs3 for j in jobs2))
    # maneuver events reach the TRUTH agents whether or not estimation runs and whether or not the filter is told about them ("planned")
    def truth_deliveries(truth_only):
        lg = []
        evs = {"AGENT_PROPAGATION": [SF.Event(lg, "planned-maneuver", 2, planned=True), SF.Event(lg, "unplanned-maneuver", 1, planned=False), SF.Event(lg, "planned-2", 1, planned=True)]}
        SF.run_step(vc, events=evs, truth_only=truth_only)
        return [(e[1], repr(e[2])) for e in lg if repr(e[2]).startswith("T")]
    want = [("planned-maneuver", "T2"), ("unplanned-maneuver", "T1"), ("planned-2", "T1")]
    # consecutive steps on one scenario: every step builds its jobs for the agents registered NOW (an id that was removed and given to a new agent
    # between two steps propagates the new agent, and an agent that was removed is not propagated any more)
    scn2, lg2 = SF.run_step(vc, truth_only=True)
    n0 = len(lg2)
    old, fresh = scn2.target_agents[1], SF.Agent(lg2, "T", 1)
    scn2.target_agents[1] = fresh
    del scn2.target_agents[2]
    scn2.stepForward()
    later = [e[1][1] for e in lg2[n0:] if e[0] == "propagate.enqueue"]
    vc.ensure("O-C10-current-agents", any(a is fresh for a in later) and not any(a is old for a in later) and not any(getattr(a, "simulation_id", None) == 2 for a in later)
              and len(later) == 3)
    vc.ensure("O-C10-truth-events", sorted(truth_deliveries(True)) == sorted(want) and sorted(truth_deliveries(False)) == sorted(want))


def _attr_writes(fn_node):
    out = []
    for n in ast.walk(fn_node):
        tg = []
        if isinstance(n, ast.Assign):
            tg = n.targets
        elif isinstance(n, (ast.AugAssign, ast.AnnAssign)):
            tg = [n.target]
        for t in tg:
            for sub in ast.walk(t):
                if isinstance(sub, ast.Attribute) and isinstance(sub.ctx, ast.Store):
                    out.append(ast.unparse(sub))
                if isinstance(sub, ast.Subscript) and isinstance(sub.ctx, ast.Store) and isinstance(sub.value, ast.Attribute):
                    out.append(ast.unparse(sub.value) + "[...]")
    return out


@obligation("C10", "split_frames", ensures=["O-C10-split", "O-C10-output-readonly"], fns=[SC + "Scenario.propagateTo", SC + "Scenario.saveDatabaseOutput"], mode="Z",
            note="syntactic frame over the current source: propagateTo assigns no attribute at all (its only state is local, dead after the loop), so k steps in one call and in several calls execute the same sequence of stepForward bodies; saveDatabaseOutput assigns no attribute either and calls only getters on agents, so the output cadence cannot influence a trajectory")
def split_frames(vc):
    path = extract.module_path("resonaate.scenario.scenario")
    tree = ast.parse(open(path, "rb").read())
    cls = extract.find_def(tree, "Scenario")
    fns = {f.name: f for f in cls.body if isinstance(f, ast.FunctionDef)}
    vc.ensure("O-C10-split", _attr_writes(fns["propagateTo"]) == [])
    calls = set()
    for n in ast.walk(fns["saveDatabaseOutput"]):
        if isinstance(n, ast.Call) and isinstance(n.func, ast.Attribute):
            calls.add(n.func.attr)
    allowed = {"getData", "filter", "isoformat", "insertData", "getCurrentEphemeris", "values", "extend", "getDetectedManeuvers", "getCurrentObservations",
               "getCurrentMissedObservations", "getCurrentTasking", "getFilterSteps", "bulkSave", "_logObservations", "_logMissedObservations", "debug", "info",
               "warning", "items", "append", "keys", "add"}
    vc.ensure("O-C10-output-readonly", _attr_writes(fns["saveDatabaseOutput"]) == [] and calls <= allowed, note=str(sorted(calls - allowed)))


SB = "resonaate.scenario.scenario_builder:"


class Cfg:
    """configuration node that records every attribute assignment made by the code under contract; deepcopy yields an independent node"""

    def __init__(self, log, name, **kw):
        object.__setattr__(self, "_log", log)
        object.__setattr__(self, "_name", name)
        for k, v in kw.items():
            object.__setattr__(self, k, v)

    def __setattr__(self, k, v):
        self._log.append((self._name, k, v))
        object.__setattr__(self, k, v)

    def __deepcopy__(self, memo):
        return Cfg([], self._name + "(copy)", **{k: v for k, v in self.__dict__.items() if not k.startswith("_")})


def _config(log):
    return Cfg(log, "cfg", propagation=Cfg(log, "propagation", propagation_model="TRUTH_MODEL", integration_method="RK45", station_keeping=False,
                                          target_realtime_propagation=True, sensor_realtime_propagation=True, truth_simulation_only=False),
               geopotential=Cfg(log, "geopotential", model="egm96.txt", degree=4, order=4), perturbations=Cfg(log, "perturbations", third_bodies=[]),
               estimation=Cfg(log, "estimation", sequential_filter=Cfg(log, "sequential_filter", dynamics_model="FILTER_MODEL")),
               time=Cfg(log, "time"), noise=Cfg(log, "noise"), observation=Cfg(log, "observation", background=True, realtime_observation=True))


@obligation("C10", "config_frame", ensures=["O-C10-config.truth-dynamics", "O-C10-config.readonly", "O-C10-config.filter-dynamics"],
            fns=[SC + "Scenario._addTargetConf", SC + "Scenario._addSensorConf", SB + "ScenarioBuilder._initTargets", SB + "ScenarioBuilder._initEstimates", SB + "ScenarioBuilder._initSensors"],
            mode="Z", bounded="2 agents per constructor call; the order builder/run-time additions are called in is arbitrary because each call is shown to leave the shared settings unchanged",
            note="frame condition on the shared dynamics settings: every constructor of truth agents (builder and run-time additions) passes the configured propagation/geopotential/perturbation settings - with the configured truth model at the time of the call - to dynamicsFactory and to the agent, and none of these functions assigns any attribute of those shared settings (the filter's dynamics model goes into an independent copy); hence no estimation setting can reach the dynamics of any truth agent, however many agents were built or added before")
def config_frame(vc):
    import contextlib
    from unittest import mock
    with contextlib.ExitStack() as stack:
        def install(spec, f):
            if vc.symbolic:
                vc.stub(spec, f)
            else:  # native replay: the same collaborators patched into the real modules, the real compiled constructors run
                m, q = spec.split(":@")
                stack.enter_context(mock.patch(m + "." + q, f))
        _config_frame(vc, install)


def _config_frame(vc, install):
    log, calls = [], []
    cfg = _config(log)

    def dyn_factory(agent_cfg, prop, geo, pert, clock):
        calls.append(("dyn", agent_cfg.id, prop, prop.propagation_model, geo, pert, clock))
        return ("DYN", agent_cfg.id, prop.propagation_model)

    def agent_cls(kind):
        def fromConfig(**kw):
            calls.append((kind, kw))
            return _NS(simulation_id=(kw.get("tgt_cfg") or kw.get("sen_cfg")).id)
        return _NS(fromConfig=fromConfig)
    for m in (SC, SB):
        install(m + "@dynamicsFactory", dyn_factory)
        install(m + "@TargetAgent", agent_cls("target"))
        install(m + "@EstimateAgent", agent_cls("estimate"))
        install(m + "@SensingAgent", agent_cls("sensor"))
    eng = _NS(addTarget=lambda i: None, addSensor=lambda i: None)
    scn = vc.new(SC + "Scenario", scenario_config=cfg, clock="CLOCK", target_agents={}, _sensor_agents={}, _estimate_agents={}, _tasking_engines={1: eng}, logger=None)
    t = [_NS(id=i, sensor=Cfg([], "sensor")) for i in (1, 2, 3, 4)]
    logger = _NS(info=lambda *a: None)
    bld = vc.new(SB + "ScenarioBuilder", _config=cfg, clock="CLOCK", validated_target_configs={1: t[0], 2: t[1]}, validated_sensor_configs={3: t[2], 4: t[3]}, logger=logger)
    truth_ok, filt_ok = [], []

    def check(kind, ids):
        """truth agents of `kind` built for `ids` by the calls recorded since the last check"""
        dyn = [c for c in calls if c[0] == "dyn"]
        ag = [c for c in calls if c[0] == kind]
        truth_ok.append(len(ag) == len(ids) and all(
            a[1]["dynamics"] == ("DYN", i, "TRUTH_MODEL") and a[1]["prop_cfg"] is cfg.propagation and a[1]["prop_cfg"].propagation_model == "TRUTH_MODEL"
            and any(d[1] == i and d[2] is cfg.propagation and d[3] == "TRUTH_MODEL" and d[4] is cfg.geopotential and d[5] is cfg.perturbations for d in dyn)
            for a, i in zip(ag, ids)))
        est = [c for c in calls if c[0] == "estimate"]
        filt_ok.append(all(e[1]["dynamics"][2] == "FILTER_MODEL" and e[1]["estimation_cfg"] is cfg.estimation for e in est))
        del calls[:]
    # every order in which a truth constructor can follow an estimate constructor is covered by checking each call separately
    bld._initEstimates()
    check("target", [])
    bld._initTargets()
    check("target", [1, 2])
    bld._initSensors()
    check("sensor", [3, 4])
    scn._addTargetConf(_NS(id=7), 1)
    check("target", [7])
    scn._addTargetConf(_NS(id=8), 1)
    check("target", [8])
    scn._addSensorConf(_NS(id=9), 1)
    check("sensor", [9])
    vc.ensure("O-C10-config.truth-dynamics", all(truth_ok))
    vc.ensure("O-C10-config.filter-dynamics", all(filt_ok))
    shared = [w for w in log if w[0] in ("cfg", "propagation", "geopotential", "perturbations", "estimation", "sequential_filter", "time", "noise")]
    vc.ensure("O-C10-config.readonly", shared == [] and cfg.propagation.propagation_model == "TRUTH_MODEL", note=str(shared[:3]))


@obligation("C10", "time_config", ensures=["B-C10-timeconfig.independent-steps"], fns=["resonaate.scenario.config.time_config:TimeConfig"], mode="Z", native_only=True, samples=60,
            bounded="BOUNDED stand-in, not a proof (the validators run inside pydantic): 60 (quick) / 600 (thorough) sampled (physics step, output step, start, span) per run, output step smaller than, equal to and larger than the physics step",
            note="the validated time configuration keeps the physics step, the output step and both timestamps exactly as configured: the output cadence cannot change the step truth is integrated with")
def time_config(vc):
    import datetime
    from resonaate.scenario.config.time_config import TimeConfig
    phys, out = vc.int("physics_step", 2, 900), vc.int("output_step", 2, 3600)
    start = datetime.datetime(2020, 1, 1) + datetime.timedelta(seconds=vc.int("start_off", 0, 86400 * 700))
    stop = start + datetime.timedelta(seconds=vc.int("span", 1, 86400 * 3))
    cfg = TimeConfig(start_timestamp=start, stop_timestamp=stop, physics_step_sec=phys, output_step_sec=out)
    cfg2 = TimeConfig(start_timestamp=start.isoformat(), stop_timestamp=stop.isoformat(), physics_step_sec=phys, output_step_sec=phys)
    vc.ensure("B-C10-timeconfig.independent-steps", cfg.physics_step_sec == phys and cfg.output_step_sec == out and cfg.start_timestamp == start and cfg.stop_timestamp == stop
              and cfg2.physics_step_sec == phys and cfg2.start_timestamp == start and cfg2.stop_timestamp == stop)


@obligation("C10", "factory_bounded", ensures=["B-C10-factory.own-object", "B-C10-factory.own-parameters", "B-C10-factory.truth-unaffected"],
            fns=["resonaate.dynamics:dynamicsFactory", "resonaate.dynamics.special_perturbations:SpecialPerturbations.__init__"], mode="Z", native_only=True, samples=6,
            bounded="BOUNDED stand-in, not a proof (the configuration models run inside pydantic, the integrator inside scipy): 6 (quick) / 60 (thorough) sampled pairs of spacecraft per run with different "
                    "masses / cross sections / reflectivities, special perturbations with solar radiation pressure and third bodies, 5 minute propagation",
            note="every agent gets its OWN dynamics object with its own area-to-mass parameters: building the dynamics of a second agent (at start or through addTarget) changes neither the first agent's "
                 "dynamics object nor, bit for bit, the truth trajectory it integrates")
def factory_bounded(vc):
    import datetime
    from resonaate.dynamics import dynamicsFactory
    from resonaate.scenario.config.platform_config import SpacecraftConfig
    from resonaate.scenario.config import PropagationConfig, GeopotentialConfig, PerturbationsConfig
    from resonaate.physics.time.stardate import datetimeToJulianDate, ScenarioTime
    start = datetime.datetime(2021, 3, 30, 16, 0, 0)
    clock = _NS(julian_date_start=datetimeToJulianDate(start), datetime_start=start)
    mk = lambda k: _NS(platform=SpacecraftConfig(mass=vc.real(f"mass{k}", 50, 5000), visual_cross_section=vc.real(f"area{k}", 0.5, 120), reflectivity=vc.real(f"refl{k}", 0.05, 0.9)))
    a, b = mk(0), mk(1)
    prop = PropagationConfig(propagation_model="special_perturbations", integration_method="RK45")
    geo = GeopotentialConfig(model="egm96.txt", degree=2, order=0)
    pert = PerturbationsConfig(third_bodies=["sun", "moon"], solar_radiation_pressure=True, general_relativity=False)
    rad = vc.real("radius", 7000, 42000)
    x0 = np.array([rad, 0.0, 0.0, 0.0, (398600.4418 / rad) ** 0.5 * 0.8, (398600.4418 / rad) ** 0.5 * 0.6])
    alone = dynamicsFactory(a, prop, geo, pert, clock)
    ref = alone.propagate(ScenarioTime(0.0), ScenarioTime(300.0), x0.copy())
    snap = {k: repr(v) for k, v in vars(alone).items()}
    other = dynamicsFactory(b, prop, geo, pert, clock)
    other.propagate(ScenarioTime(0.0), ScenarioTime(300.0), x0[[1, 0, 2, 4, 3, 5]].copy())
    vc.ensure("B-C10-factory.own-object", other is not alone)
    vc.ensure("B-C10-factory.own-parameters", {k: repr(v) for k, v in vars(alone).items()} == snap)
    again = alone.propagate(ScenarioTime(0.0), ScenarioTime(300.0), x0.copy())
    vc.ensure("B-C10-factory.truth-unaffected", bool(np.array_equal(np.asarray(ref), np.asarray(again))))


def _fresh_worker(job_sequence, start, sp):
    """Play a parallel worker with a FRESH import of the resonaate package (= the module state of a new worker process): build the dynamics of each agent of
    `job_sequence` and run, per 60 s step, the agents' propagation jobs in that order.  Returns the raw bytes of every state of the LAST agent of the sequence."""
    import sys
    import importlib
    saved = {k: v for k, v in sys.modules.items() if k == "resonaate" or k.startswith("resonaate.")}
    for k in saved:
        del sys.modules[k]
    try:
        dyn_mod = importlib.import_module("resonaate.dynamics")
        cfg = importlib.import_module("resonaate.scenario.config")
        plat = importlib.import_module("resonaate.scenario.config.platform_config")
        sd = importlib.import_module("resonaate.physics.time.stardate")
        clock = _NS(julian_date_start=sd.datetimeToJulianDate(start), datetime_start=start)
        prop = cfg.PropagationConfig(propagation_model="special_perturbations", integration_method="RK45")
        geo = cfg.GeopotentialConfig(model="egm96.txt", degree=2, order=0)
        pert = cfg.PerturbationsConfig(third_bodies=["sun", "moon"], solar_radiation_pressure=True, general_relativity=False)
        agents = []
        for x0, (mass, area, refl) in job_sequence:
            d = dyn_mod.dynamicsFactory(_NS(platform=plat.SpacecraftConfig(mass=mass, visual_cross_section=area, reflectivity=refl)), prop, geo, pert, clock)
            agents.append([d, np.array(x0, dtype=float)])
        out = []
        for k in range(sp):
            for ag in agents:
                ag[1] = np.asarray(ag[0].propagate(sd.ScenarioTime(60.0 * k), sd.ScenarioTime(60.0 * (k + 1)), ag[1].copy()), dtype=float)
            out.append(agents[-1][1].tobytes())
        return out
    finally:
        for k in [k for k in sys.modules if k == "resonaate" or k.startswith("resonaate.")]:
            del sys.modules[k]
        sys.modules.update(saved)


@obligation("C10", "worker_history_bounded", ensures=["B-C10-worker.history-independent"],
            fns=["resonaate.dynamics:dynamicsFactory", "resonaate.dynamics.special_perturbations:SpecialPerturbations._differentialEquation"], mode="Z", native_only=True, samples=3,
            bounded="BOUNDED stand-in, not a proof (scipy's integrator and the ephemeris kernels are outside the extracted subset): 3 (quick) / 30 (thorough) sampled pairs (LEO target A, "
                    "MEO/GEO target B) per run, five 60 s steps, special perturbations with Sun and Moon and solar radiation pressure; each job sequence runs on a fresh import of the package",
            note="a propagation job's result is a function of its own submission: a worker that ran the jobs of another agent before each job of A returns, bit for bit, the states of A that a "
                 "worker running A's jobs alone returns (no result depends on what else was propagated, hence on the other agents, on estimation jobs or on completion order)")
def worker_history_bounded(vc):
    import datetime
    start = datetime.datetime(2021, 3, 30, 16, 0, 0) + datetime.timedelta(seconds=vc.int("start_off", 0, 86400 * 200))
    s = vc.real("scale_a", 0.98, 1.05)
    a = ([-2872.57438 * s, 3128.21583 * s, -5311.55207 * s, -5.250942201, -5.547484592, -0.428942173], (vc.real("mass_a", 100, 3000), vc.real("area_a", 1, 60), 0.21))
    r = vc.real("radius_b", 20000, 43000)
    v = (398600.4418 / r) ** 0.5
    b = ([0.64 * r, 0.76 * r, 0.11 * r, -0.75 * v, 0.65 * v, 0.1 * v], (vc.real("mass_b", 100, 3000), vc.real("area_b", 1, 60), 0.3))
    alone = _fresh_worker([a], start, 5)
    after_b = _fresh_worker([b, a], start, 5)
    vc.ensure("B-C10-worker.history-independent", alone == after_b)


@obligation("C10", "pickle_frame_bounded", ensures=["B-C10-ship.agent-unchanged"],
            fns=["resonaate.agents.target_agent:TargetAgent", "resonaate.agents.sensing_agent:SensingAgent", "resonaate.agents.estimate_agent:EstimateAgent"], mode="Z", native_only=True, samples=6,
            bounded="BOUNDED stand-in, not a proof: the three agent classes, instances built without __init__ carrying a station-keeping routine, a queued maneuver and a state; pickle and deepcopy",
            note="shipping an agent to a worker (ray.put pickles it; workers deep-copy filters) is a READ of the agent: afterwards every attribute of the live agent is the object it was, "
                 "lists keep their members - so whether estimation and tasking run (the only code that ships targets) cannot change the truth (what the copy must carry is the job-construction contract truth_job)")
def pickle_frame_bounded(vc):
    import copy
    import pickle
    from resonaate.agents.target_agent import TargetAgent
    from resonaate.agents.sensing_agent import SensingAgent
    from resonaate.agents.estimate_agent import EstimateAgent
    which = vc.int("agent_class", 0, 2)
    C = [TargetAgent, SensingAgent, EstimateAgent][which]
    a = object.__new__(C)
    keeper, burn = {"routine": "GEO-EW", "longitude": 1.25}, {"impulse": [0.0, 0.001, 0.0], "time": 300.0}
    attrs = dict(_simulation_id=11, _name="a", _truth_state=np.arange(6.0), _eci_state=np.arange(6.0), _time=60.0, _station_keeping=[keeper], station_keeping=[keeper],
                 _propagate_event_queue=[burn], propagate_event_queue=[burn], _dynamics={"model": "sp"}, _realtime=True, _initial_state=np.arange(6.0))
    for k, v in attrs.items():
        try:
            object.__setattr__(a, k, v)
        except AttributeError:   # a read-only property of this class: its backing field (also in the list) carries the value
            pass
    before = {k: (id(v), list(v) if isinstance(v, list) else None) for k, v in a.__dict__.items()}
    shipped = pickle.loads(pickle.dumps(a))
    cloned = copy.deepcopy(a)
    after = {k: (id(v), list(v) if isinstance(v, list) else None) for k, v in a.__dict__.items()}
    vc.ensure("B-C10-ship.agent-unchanged", before == after and a.__dict__.get("_station_keeping") == [keeper] and a.__dict__.get("_propagate_event_queue") == [burn])
