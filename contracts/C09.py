"""C09 -- the output database is complete, duplicate-free and referentially consistent (the part contracts can decide).

Decided here: what `saveDatabaseOutput` hands to the database (which rows, how many of each, for which agent and epoch, in how many
transactions), when `propagateTo` calls it, how rows are built from the values the simulation holds (state, covariance, ids, epoch),
the commit/rollback discipline of the session scope, and - shared with C05/C01 - the epoch rows of the clock.
Assumed (listed in the evidence): SQLAlchemy persists what it is handed and reads it back, SQLite transactions are atomic.
"""
import contextlib
import itertools
import numpy as np
from pyvc.harness import obligation, share

SC = "resonaate.scenario.scenario:"
DI = "resonaate.data.data_interface:"
EPH = "resonaate.data.ephemeris:"
TA = "resonaate.agents.target_agent:"
SA = "resonaate.agents.sensing_agent:"
EA = "resonaate.agents.estimate_agent:"
ORM = ["SQLAlchemy declarative constructor sets one attribute per keyword argument; Session.add_all / bulk_save_objects persist exactly the given objects; "
       "Session.commit makes the whole unit of work durable or raises, Session.rollback/close discard it (SQLite transaction atomicity)"]


class _NS:
    def __init__(self, **kw):
        self.__dict__.update(kw)


class Row:
    """stand-in for an ORM row class: records the keyword arguments as attributes (the declarative-constructor contract)"""

    def __init__(self, **kw):
        self.__dict__.update(kw)


class _JD(float):
    """the clock's current Julian date"""


# (deliberately NOT the conversion of the datetime below, from which it differs in the last bits like the real clock's value does for most start instants)
JD_NOW = _JD(2459304.1666681)
_is_now = lambda x: isinstance(x, float) and float(x) == float(JD_NOW)  # bit-for-bit the clock's value, whatever float type carries it


def _scenario(vc, install, log, truth_only, save_steps, epoch_exists, detected):
    mk_row = lambda kind, i: _NS(kind=kind, agent=i)
    tas = {i: _NS(simulation_id=i, getCurrentEphemeris=lambda i=i: mk_row("truth", i)) for i in (1, 2, 3)}
    sas = {i: _NS(simulation_id=i, getCurrentEphemeris=lambda i=i: mk_row("truth", i)) for i in (10, 11)}
    eas = {i: _NS(simulation_id=i, maneuver_detected=detected[k], getCurrentEphemeris=lambda i=i: mk_row("estimate", i),
                  getDetectedManeuvers=lambda i=i: [mk_row("maneuver", i)], getFilterSteps=lambda i=i: [mk_row("filter_step", i), mk_row("filter_step", i)])
           for k, i in enumerate((1, 2))}

    def engine(e):
        return _NS(getCurrentObservations=lambda: [mk_row("obs", (e, 0)), mk_row("obs", (e, 1))] if e == 5 else [],
                   getCurrentMissedObservations=lambda: [mk_row("miss", (e, 0))],
                   getCurrentTasking=lambda jd: (log.append(("tasking-asked", e, jd)), [mk_row("task", (e, 0)), mk_row("task", (e, 1))])[1])
    engs = {5: engine(5), 6: engine(6)}

    class Filt:
        def __init__(self, what, cond):
            self.what, self.cond = what, cond

    class QueryStub:
        def __init__(self, what):
            self.what = what

        def filter(self, cond):
            return Filt(self.what, cond)

    class Col:
        def __init__(self, name):
            self.name = name

        def __eq__(self, other):
            return ("==", self.name, other)

        __hash__ = None

    EpochCls = type("Epoch", (Row,), {"timestampISO": Col("timestampISO"), "julian_date": Col("julian_date")})
    install(SC + "@Query", QueryStub)
    install(SC + "@Epoch", EpochCls)

    def get_data(q, multi=True):
        log.append(("getData", q.what, q.cond, multi))
        return "EXISTING" if epoch_exists else None
    db = _NS(getData=get_data, insertData=lambda *rows: log.append(("insertData", rows)), bulkSave=lambda data: log.append(("bulkSave", list(data))))
    # a real datetime (16:00:00.123456 - not a short binary fraction of a day) next to the clock's own Julian date: the epoch row must carry the CLOCK's value (the one every
    # other row of the step carries), not a second conversion of the datetime that agrees only to ~1e-5 s
    when = __import__("datetime").datetime(2021, 3, 30, 16, 0, 0, 123456)
    clock = _NS(datetime_epoch=when, julian_date_epoch=JD_NOW)
    cfg = _NS(propagation=_NS(truth_simulation_only=truth_only))
    scn = vc.new(SC + "Scenario", estimation_config=_NS(sequential_filter=_NS(save_filter_steps=save_steps)), database=db, clock=clock, target_agents=tas, _sensor_agents=sas, _estimate_agents=eas, _tasking_engines=engs,
                 scenario_config=cfg, logger=_NS(debug=lambda *a: None, info=lambda *a: None))
    scn.__dict__.update(_logObservations=lambda obs: None, _logMissedObservations=lambda m: None)
    return scn, EpochCls


@obligation("C09", "output", ensures=["O-C09-epoch.insert-iff-missing", "O-C09-rows.one-truth-per-agent", "O-C09-rows.one-estimate-per-target",
                                       "O-C09-rows.engine-records-once", "O-C09-rows.maneuvers-and-steps", "O-C09-atomic.single-bulk-save"],
            fns=[SC + "Scenario.saveDatabaseOutput"], mode="Z", assumes=ORM, xcheck=2, bounded="3 targets, 2 sensors, 2 estimates, 2 engines; every combination of the four switches and detection flags",
            note="one call of saveDatabaseOutput: looks the current epoch up by its ISO timestamp and inserts an Epoch row (current Julian date, same timestamp) iff none exists; hands ONE list to ONE bulkSave "
                 "(the step's rows go to the database in a single transaction) holding exactly one truth row per target and per sensor, exactly one estimate row per estimate agent unless truth-only, "
                 "each engine's observations, missed observations and tasks (asked for the current epoch) exactly once, detected maneuvers of exactly the estimates that flag one, filter steps iff configured; nothing else is written")
def output(vc):
    from unittest import mock
    with contextlib.ExitStack() as stack:
        def install(spec, f):
            if vc.symbolic:
                vc.stub(spec, f)
            else:  # native replay: the same collaborators patched into the real module, the real compiled method runs
                m, q = spec.split(":@")
                stack.enter_context(mock.patch(m + "." + q, f))
        _output(vc, install)


def _output(vc, install):
    oks = {k: [] for k in ("epoch", "truth", "est", "eng", "man", "atomic")}
    for truth_only, save_steps, epoch_exists, d0, d1 in itertools.product((False, True), repeat=5):
        log = []
        scn, EpochCls = _scenario(vc, install, log, truth_only, save_steps, epoch_exists, (d0, d1))
        scn.saveDatabaseOutput()
        gets = [e for e in log if e[0] == "getData"]
        ins = [e for e in log if e[0] == "insertData"]
        bulk = [e for e in log if e[0] == "bulkSave"]
        iso = "2021-03-30T16:00:00.123456"
        ok = len(gets) == 1 and gets[0][1] is EpochCls and gets[0][2] == ("==", "timestampISO", iso) and gets[0][3] is False
        if epoch_exists:
            ok = ok and ins == []
        else:
            ok = ok and len(ins) == 1 and len(ins[0][1]) == 1 and isinstance(ins[0][1][0], EpochCls) and _is_now(ins[0][1][0].julian_date) and ins[0][1][0].timestampISO == iso
        oks["epoch"].append(ok)
        oks["atomic"].append(len(bulk) == 1 and (not ins or log.index(ins[0]) < log.index(bulk[0])))
        rows = bulk[0][1] if bulk else []
        cnt = lambda kind: sorted((r.agent for r in rows if r.kind == kind), key=repr)
        oks["truth"].append(cnt("truth") == sorted([1, 2, 3, 10, 11], key=repr))
        oks["est"].append(cnt("estimate") == ([] if truth_only else [1, 2]))
        exp_obs = [] if truth_only else sorted([(5, 0), (5, 1)], key=repr)
        exp_miss = [] if truth_only else sorted([(5, 0), (6, 0)], key=repr)
        exp_task = [] if truth_only else sorted([(5, 0), (5, 1), (6, 0), (6, 1)], key=repr)
        asked = [e for e in log if e[0] == "tasking-asked"]
        oks["eng"].append(cnt("obs") == exp_obs and cnt("miss") == exp_miss and cnt("task") == exp_task and all(_is_now(a[2]) for a in asked)
                          and len(asked) == (0 if truth_only else 2))
        exp_man = [] if truth_only else [i for i, d in ((1, d0), (2, d1)) if d]
        exp_steps = [1, 1, 2, 2] if save_steps else []
        oks["man"].append(cnt("maneuver") == exp_man and cnt("filter_step") == exp_steps
                          and len(rows) == 5 + len(cnt("estimate")) + len(exp_obs) + len(exp_miss) + len(exp_task) + len(exp_man) + len(exp_steps))
    vc.ensure("O-C09-epoch.insert-iff-missing", all(oks["epoch"]))
    vc.ensure("O-C09-rows.one-truth-per-agent", all(oks["truth"]))
    vc.ensure("O-C09-rows.one-estimate-per-target", all(oks["est"]))
    vc.ensure("O-C09-rows.engine-records-once", all(oks["eng"]))
    vc.ensure("O-C09-rows.maneuvers-and-steps", all(oks["man"]))
    vc.ensure("O-C09-atomic.single-bulk-save", all(oks["atomic"]))


@obligation("C09", "rows", ensures=["O-C09-row.truth-values", "O-C09-row.estimate-values", "O-C09-row.covariance-readback", "O-C09-row.agent-and-epoch"],
            fns=[EPH + "TruthEphemeris.fromECIVector", EPH + "_EphemerisMixin.eci", EPH + "EstimateEphemeris.fromCovarianceMatrix", EPH + "EstimateEphemeris.covariance",
                 TA + "TargetAgent.getCurrentEphemeris", SA + "SensingAgent.getCurrentEphemeris", EA + "EstimateAgent.getCurrentEphemeris"], mode="R", assumes=ORM,
            note="the row built for an agent carries that agent's id, the agent's current epoch (the same Julian-date expression the clock uses for the Epoch row) and - component by component - the state "
                 "the simulation holds; an estimate row additionally carries the filter's source and all 36 covariance entries, and reading `eci` / `covariance` back from the row returns exactly the vectors/matrix that went in")
def rows(vc):
    x = vc.vec("x", 6, -1e5, 1e5)
    P = vc.mat("P", 6, 6, -1e3, 1e3)
    aid = vc.int("agent_id", 0, 10 ** 6)
    jd = vc.real("jd", 2450000, 2470000)
    if vc.symbolic:
        truth_from = vc.fn(EPH + "TruthEphemeris.fromECIVector")
        est_from = vc.fn(EPH + "EstimateEphemeris.fromCovarianceMatrix")
        eci_get = vc.fn(EPH + "_EphemerisMixin.eci")
        cov_get = vc.fn(EPH + "EstimateEphemeris.covariance")
        TruthStub = _NS(fromECIVector=lambda **kw: truth_from(Row, **kw))
        EstStub = _NS(fromCovarianceMatrix=lambda **kw: est_from(Row, **kw))
        vc.stub(TA + "@TruthEphemeris", TruthStub)
        vc.stub(SA + "@TruthEphemeris", TruthStub)
        vc.stub(EA + "@EstimateEphemeris", EstStub)
        mk = lambda spec, **kw: vc.new(spec, **kw)
        # the agent's epoch is its own time converted with its own start date (Agent.julian_date_epoch)
        time = _NS(convertToJulianDate=lambda start: jd if start == "JD0" else None)
        tgt = mk(TA + "TargetAgent", _id=aid, _time=time, julian_date_start="JD0", _truth_state=x)
        sen = mk(SA + "SensingAgent", _id=aid, _time=time, julian_date_start="JD0", _truth_state=x)
        est = mk(EA + "EstimateAgent", _id=aid, _time=time, julian_date_start="JD0", _state_estimate=x, _error_covariance=P, _filter=_NS(source="SRC"))
        rt, rs, re = tgt.getCurrentEphemeris(), sen.getCurrentEphemeris(), est.getCurrentEphemeris()
        ecis = [eci_get(r) for r in (rt, rs, re)]
        cov = cov_get(re)
    else:
        from resonaate.data.ephemeris import TruthEphemeris, EstimateEphemeris
        rt = TruthEphemeris.fromECIVector(agent_id=aid, julian_date=jd, eci=x.tolist())
        rs = TruthEphemeris.fromECIVector(agent_id=aid, julian_date=jd, eci=x.tolist())
        re = EstimateEphemeris.fromCovarianceMatrix(agent_id=aid, julian_date=jd, source="SRC", eci=x.tolist(), covariance=P.tolist())
        ecis = [r.eci for r in (rt, rs, re)]
        cov = re.covariance
    names = ["pos_x_km", "pos_y_km", "pos_z_km", "vel_x_km_p_sec", "vel_y_km_p_sec", "vel_z_km_p_sec"]
    vc.ensure("O-C09-row.truth-values", vc.And(*[vc.eq(getattr(r, n), x[k]) for r in (rt, rs) for k, n in enumerate(names)], *[vc.eq(e[k], x[k]) for e in ecis[:2] for k in range(6)]))
    vc.ensure("O-C09-row.estimate-values", vc.And(*[vc.eq(getattr(re, n), x[k]) for k, n in enumerate(names)], *[vc.eq(ecis[2][k], x[k]) for k in range(6)], re.source == "SRC",
                                                  *[vc.eq(getattr(re, f"covar_{i}{j}"), P[i, j]) for i in range(6) for j in range(6)]))
    vc.ensure("O-C09-row.covariance-readback", vc.And(len(cov) == 6, all(len(r) == 6 for r in cov), *[vc.eq(cov[i][j], P[i, j]) for i in range(6) for j in range(6)]))
    vc.ensure("O-C09-row.agent-and-epoch", vc.And(*[vc.And(vc.eq(r.agent_id, aid), vc.eq(r.julian_date, jd)) for r in (rt, rs, re)]))


@obligation("C09", "session", ensures=["O-C09-session.commit-on-success", "O-C09-session.no-commit-on-error", "O-C09-session.bulk-save-one-scope"],
            fns=[DI + "DataInterface._getSessionScope", DI + "DataInterface.bulkSave", DI + "DataInterface.insertData"], mode="Z", assumes=ORM, xcheck=2,
            note="a session scope commits exactly once iff its body finishes without an exception, and always closes the session; when the body raises (database error or anything else) nothing is committed, a database error is "
                 "rolled back explicitly and every exception propagates; bulkSave hands all its rows to one bulk_save_objects call inside one scope and insertData all its rows to one add_all inside one scope "
                 "- so a step's rows are committed all together or not at all (given the transaction contract of the database)")
def session(vc):
    from sqlalchemy.exc import SQLAlchemyError
    BIG = ["r1", "r2", "r3"] + [f"row{i}" for i in range(20000)]  # a step with many rows is still ONE unit of work

    def run(fail):
        """returns (calls on the session, exception type that escaped or None)"""
        calls = []

        class Sess:
            def commit(self):
                calls.append("commit")

            def rollback(self):
                calls.append("rollback")

            def close(self):
                calls.append("close")

            def bulk_save_objects(self, data):
                calls.append(("bulk", list(data)))
                if fail is not None:
                    raise fail("boom")

            def add_all(self, data):
                calls.append(("add_all", list(data)))
                if fail is not None:
                    raise fail("boom")
        made = []

        def factory(**kw):
            made.append(kw)
            return Sess()
        if vc.symbolic:
            scope = contextlib.contextmanager(vc.fn(DI + "DataInterface._getSessionScope"))
            vc.stub(DI + "DataInterface._getSessionScope", scope)
            vc.stub(DI + "@format_exc", lambda: "tb")
            vc.stub(DI + "@isinstance", lambda o, t: True if (isinstance(o, str) and o.startswith("r")) else isinstance(o, t))
            db = vc.new(DI + "DataInterface", session_factory=factory, logger=_NS(error=lambda *a: None), VALID_DATA_TYPES={})
            save, insert = db.bulkSave, db.insertData
        else:
            from resonaate.data.resonaate_database import ResonaateDatabase
            db = object.__new__(ResonaateDatabase)
            db.__dict__.update(session_factory=factory, logger=_NS(error=lambda *a: None))
            save = db.bulkSave
            insert = None
        out = []
        for f, args in ((save, (BIG,)), (insert, ("r1", "r2"))):
            if f is None:
                continue
            del calls[:]
            try:
                f(*args)
                esc = None
            except Exception as e:  # noqa: BLE001
                esc = type(e)
            out.append((list(calls), esc, len(made)))
        return out
    ok_success = all(c == [(k, rows_), "commit", "close"] and esc is None
                     for (c, esc, _), (k, rows_) in zip(run(None), (("bulk", BIG), ("add_all", ["r1", "r2"]))))
    vc.ensure("O-C09-session.commit-on-success", ok_success)
    ok_fail = True
    for exc in (SQLAlchemyError, KeyError):
        for (c, esc, _), k in zip(run(exc), ("bulk", "add_all")):
            ok_fail = ok_fail and "commit" not in c and c[-1] == "close" and esc is exc and c[0][0] == k and (exc is not SQLAlchemyError or "rollback" in c)
    vc.ensure("O-C09-session.no-commit-on-error", ok_fail)
    res = run(None)
    vc.ensure("O-C09-session.bulk-save-one-scope", all(sum(1 for x in c if isinstance(x, tuple)) == 1 and c.count("commit") == 1 for c, _, _ in res)
              and [n for _, _, n in res] == list(range(1, len(res) + 1)))


@obligation("C09", "cadence", ensures=["O-C09-cadence.output-epochs", "O-C09-cadence.once-per-epoch"], fns=[SC + "Scenario.propagateTo"], mode="Z", xcheck=2,
            bounded="physics steps 30/60/100 s x output steps {1, 2, 3, 1.5} x physics step and 45 s, 1..6 steps per call, the clock starting at 0..3 steps, one and two consecutive calls",
            note="BOUNDED grid: propagateTo saves the output after exactly those steps whose clock time is a whole multiple of the output step - once per such epoch, never for another - whether the span is simulated by one call or by two consecutive calls")
def cadence(vc):
    oks1, oks2 = [], []
    for dt in (30, 60, 100):
        for out in (dt, 2 * dt, 3 * dt, 1.5 * dt, 45):
            for k0 in range(0, 4):
                for n in range(1, 7):
                    for split in (None, n // 2):
                        if split == 0:
                            continue
                        saved = []
                        clock = _NS(time=float(k0 * dt), julian_date_start="JD0", julian_date_epoch="JD")

                        def step(clock=clock, dt=dt):
                            clock.time = clock.time + dt
                        cfg = _NS(propagation=_NS(truth_simulation_only=True), time=_NS(physics_step_sec=float(dt), output_step_sec=float(out)))
                        if vc.symbolic:
                            scn = vc.new(SC + "Scenario", clock=clock, scenario_config=cfg, logger=_NS(info=lambda *a: None, error=lambda *a: None))
                        else:
                            from resonaate.scenario.scenario import Scenario
                            scn = object.__new__(Scenario)
                            scn.__dict__.update(clock=clock, scenario_config=cfg, logger=_NS(info=lambda *a: None, error=lambda *a: None))
                        scn.stepForward = step
                        scn.saveDatabaseOutput = lambda clock=clock, saved=saved: saved.append(clock.time)
                        for m in ([n] if split is None else [split, n - split]):
                            target = _NS(convertToScenarioTime=lambda start, clock=clock, m=m, dt=dt: clock.time + m * dt)
                            scn.propagateTo(target)
                        times = [float((k0 + i) * dt) for i in range(1, n + 1)]
                        want = [t for t in times if t % out == 0]
                        oks1.append(saved == want)
                        oks2.append(len(saved) == len(set(saved)) and clock.time == times[-1])
    vc.ensure("O-C09-cadence.output-epochs", all(oks1))
    vc.ensure("O-C09-cadence.once-per-epoch", all(oks2))


# epoch rows: inserted by the clock with timestamps start + k*dt and strictly increasing Julian dates (C05), consecutive epochs strictly increasing for
# every step count (C01) - re-checked in this property's own run
from contracts import C05 as _C05, C01 as _C01  # noqa: E402,F401
share("C05", "epochs", "C09")
share("C05", "clock_config", "C09")  # (the configured span - whole days included - is what the clock pre-inserts epochs for)
share("C01", "mono", "C09")

# detected maneuvers are stored once: the update job's result REPLACES the agent's pending list (C08 frame obligation), re-checked in this property's own run
from contracts import C08 as _C08  # noqa: E402,F401
share("C08", "frames", "C09")


@obligation("C09", "atomic_bounded", ensures=["B-C09-atomic.all-or-nothing", "B-C09-atomic.retry-has-no-duplicates"],
            fns=[DI + "DataInterface.bulkSave", DI + "DataInterface._getSessionScope", DI + "DataInterface.__init__"], mode="Z", native_only=True, samples=12,
            bounded="BOUNDED stand-in, not a proof: 12 (quick) / 120 (thorough) step-sized row lists per run against a real in-memory SQLite database opened by the real DataInterface "
                    "constructor; what SQLAlchemy / SQLite do inside a transaction is outside any contract (the session-scope logic itself is proved: O-C09-scope.*)",
            note="a step's rows are committed all together or not at all, on the engine the real constructor configures: when one row of the list handed to bulkSave violates a constraint the "
                 "call raises and NONE of the list's rows is in the database afterwards; saving the corrected list then leaves each row exactly once")
def atomic_bounded(vc):
    from sqlalchemy.orm import Query
    from resonaate.data.resonaate_database import ResonaateDatabase
    from resonaate.data.agent import AgentModel
    from resonaate.data.epoch import Epoch
    from resonaate.data.ephemeris import TruthEphemeris
    n = vc.int("truth_rows", 1, 6)
    db = ResonaateDatabase(db_path="sqlite://")
    db.insertData(Epoch(julian_date=2459000.5, timestampISO="2020-05-31T00:00:00.000000"), *[AgentModel(unique_id=100 + k, name=f"a{k}") for k in range(n)])
    rows = lambda: [TruthEphemeris.fromECIVector(agent_id=100 + k, julian_date=2459000.5, eci=[7000.0 + k, 0.0, 0.0, 0.0, 7.5, 0.0]) for k in range(n)]
    bad = AgentModel(unique_id=100, name="already-there")   # violates the primary key of `agents`: the step's list cannot be stored
    raised = False
    try:
        db.bulkSave(rows() + [bad])
    except Exception:  # noqa: BLE001
        raised = True
    left = len(db.getData(Query(TruthEphemeris)))
    vc.ensure("B-C09-atomic.all-or-nothing", raised and left == 0)
    db.bulkSave(rows())
    vc.ensure("B-C09-atomic.retry-has-no-duplicates", len(db.getData(Query(TruthEphemeris))) == n)
