"""C08 -- tasking bookkeeping is exact and independent of the order parallel jobs finish."""
import itertools
import numpy as np
import z3
from pyvc.harness import obligation
from pyvc import sym
from contracts import stepfwd as SF

PA = "resonaate.parallel:"
TE = "resonaate.parallel.tasking_execution:"
TR = "resonaate.parallel.tasking_reward_generation:"
EB = "resonaate.tasking.engine.engine_base:"
CE = "resonaate.tasking.engine.centralized_engine:"
RAY = ["ray.put/get are the identity on values; ray.wait returns one finished job and the rest, in an arbitrary order; each job's result is delivered exactly once"]


class _NS:
    def __init__(self, **kw):
        self.__dict__.update(kw)


def _join(n):
    T = f"[{n}jobs]"

    @obligation("C08", f"join{T}", ensures=[f"O-C08-join.once{T}", f"O-C08-join.own-result{T}", f"O-C08-join.drained{T}"], fns=[PA + "JobExecutor.join", PA + "JobExecutor.enqueueJob"],
                mode="Z", assumes=RAY, bounded=f"{n} jobs, EVERY completion order (ray.wait picks any unfinished job: one path per order)",
                note="join() processes every enqueued job exactly once, hands each registration its own job's result, and leaves no unfinished job or mapping entry, whatever order the jobs complete in")
    def h(vc):
        processed = []

        class Reg:
            def __init__(self, k):
                self.k = k

            def generateSubmission(self):
                return ("sub", self.k)

            def processResults(self, res):
                processed.append((self.k, res))

        def wait(jobs):
            jobs = list(jobs)
            if not vc.symbolic:  # native replay: a randomly drawn completion order
                i = vc.int(f"done-of-{len(jobs)}", 0, 10 ** 6) % len(jobs)
                return [jobs[i]], jobs[:i] + jobs[i + 1:]
            sel = sym.SNum(sym.ctx().fresh("done", "int"))
            sym.ctx().assume(sym.And(sel >= 0, sel < len(jobs)))
            for i in range(len(jobs)):
                if sel == i:  # any unfinished job may be the one that finished
                    return [jobs[i]], jobs[:i] + jobs[i + 1:]
            raise sym.PathAbort()
        vc.install(PA + "@ray", _NS(wait=wait, get=lambda ref: ("result-of", ref)))
        remote = _NS(remote=lambda sub: ("ref", sub))
        if vc.symbolic:
            C = vc.cls(PA + "JobExecutor", extra_methods={"getRemoteFunc": classmethod(lambda cls: remote)})
        else:
            C = type("JobExecutorUnderTest", (vc.fn(PA + "JobExecutor"),), {"getRemoteFunc": classmethod(lambda cls: remote)})
        ex = object.__new__(C)
        ex.__dict__.update(_unfinished_jobs=[], _result_reg_mapping={})
        for k in range(n):
            ex.enqueueJob(Reg(k))
        ex.join()
        vc.ensure(f"O-C08-join.once{T}", sorted(k for k, _ in processed) == list(range(n)))
        vc.ensure(f"O-C08-join.own-result{T}", all(res == ("result-of", ("ref", ("sub", k))) for k, res in processed))
        vc.ensure(f"O-C08-join.drained{T}", ex._unfinished_jobs == [] and ex._result_reg_mapping == {})
    return h


for _n in (1, 2, 3, 4):
    _join(_n)


# the stand-ins for observation / miss records carry the sensor-position columns of the real rows; every sensor here sits on ONE site (co-located
# sensors share their coordinates bit for bit), so nothing may identify a record by "target seen from this position"
_SITE = dict(pos_x_km=6378.137, pos_y_km=0.25, pos_z_km=-12.5, vel_x_km_p_sec=0.0, vel_y_km_p_sec=0.465, vel_z_km_p_sec=0.0, julian_date=2459000.5)


def _engine(vc, **kw):
    base = dict(_observations=[], _saved_observations=[], _missed_observations=[], _saved_missed_observations=[], sensor_changes={})
    base.update(kw)
    return vc.new(CE + "CentralizedTaskingEngine", **base)


@obligation("C08", "misses", ensures=["O-C08-miss-exact"], fns=[EB + "TaskingEngine.saveMissedObservations", EB + "TaskingEngine.getCurrentMissedObservations"], mode="Z",
            bounded="batches of 0..3 miss records (record contents arbitrary)",
            note="saving the misses of one job adds each of them exactly once to the engine's records and to the rows handed to the database; reading the current misses returns them once and clears them")
def misses(vc):
    for n in range(4):
        # (another sensor observed target 100 in the same step: that does not make this pair's miss go away)
        ms = [_NS(**_SITE, tag=i, target_id=100 + i % 2, sensor_id=10 + i) for i in range(n)]
        old = [_NS(**_SITE, tag="old", target_id=100, sensor_id=9)]
        eng = _engine(vc, _missed_observations=list(old), _saved_missed_observations=list(old), _observations=[_NS(**_SITE, tag="seen", target_id=100, sensor_id=8)])
        eng.saveMissedObservations(list(ms))
        ok = [m.tag for m in eng._missed_observations] == ["old"] + list(range(n)) and [m.tag for m in eng._saved_missed_observations] == ["old"] + list(range(n))
        cur = eng.getCurrentMissedObservations()
        ok = ok and [m.tag for m in cur] == ["old"] + list(range(n)) and eng._saved_missed_observations == []
        vc.ensure("O-C08-miss-exact", ok)


@obligation("C08", "taskexec", ensures=["O-C08-commute.task-execution", "O-C08-pointing.all-jobs-kept", "O-C08-process.exact"],
            fns=[TE + "TaskExecutionRegistration.processResults", EB + "TaskingEngine.saveObservations", EB + "TaskingEngine.saveMissedObservations",
                 EB + "TaskingEngine.updateFromAsyncTaskExecution"], mode="Z", assumes=RAY,
            bounded="2 and 3 task-execution jobs with 1-2 sensors each, every processing order",
            note="processing the results of several task-execution jobs in any order leaves the same observations, misses (as multisets) and the same sensor pointing changes: every tasked sensor of EVERY job keeps its new boresight and last-tasked time, each record is stored exactly once")
def taskexec(vc):
    def result(j, sensors):
        return _NS(target_id=100 + j, observations=[_NS(**_SITE, tag=f"o{j}.{s}", target_id=100 + j, sensor_id=s) for s in sensors],
                   missed_observations=[_NS(**_SITE, tag=f"m{j}.{s}", target_id=100 + j, sensor_id=s + 50) for s in sensors],
                   sensor_info_list=[{"sensor_id": s, "boresight": f"b{j}.{s}", "time_last_tasked": f"t{j}.{s}"} for s in sensors])
    for jobs in ([(0, [10]), (1, [11])], [(0, [10, 12]), (1, [11])], [(0, [10]), (1, [11]), (2, [12, 13])]):
        views = []
        for order in itertools.permutations(range(len(jobs))):
            eng = _engine(vc)
            for k in order:
                j, sensors = jobs[k]
                reg = vc.new(TE + "TaskExecutionRegistration", _registrant=eng)
                reg.processResults(result(j, sensors))
            views.append((sorted(o.tag for o in eng._observations), sorted(m.tag for m in eng._missed_observations),
                          sorted(o.tag for o in eng._saved_observations), sorted(m.tag for m in eng._saved_missed_observations),
                          dict(eng.sensor_changes)))
        vc.ensure("O-C08-commute.task-execution", all(v == views[0] for v in views))
        all_sensors = [s for _, ss in jobs for s in ss]
        exp_changes = {s: {"boresight": f"b{j}.{s}", "time_last_tasked": f"t{j}.{s}"} for j, ss in jobs for s in ss}
        vc.ensure("O-C08-pointing.all-jobs-kept", all(v[4] == exp_changes for v in views))
        exp_obs = sorted(f"o{j}.{s}" for j, ss in jobs for s in ss)
        exp_miss = sorted(f"m{j}.{s}" for j, ss in jobs for s in ss)
        vc.ensure("O-C08-process.exact", all(v[0] == exp_obs and v[1] == exp_miss and v[2] == exp_obs and v[3] == exp_miss for v in views))


@obligation("C08", "shared_sensor", ensures=["O-C08-pointing.shared-sensor-order-independent", "O-C08-commute.shared-sensor-records"],
            fns=[TE + "TaskExecutionRegistration.processResults", EB + "TaskingEngine.updateFromAsyncTaskExecution"], mode="Z", assumes=RAY,
            bounded="one sensor tasked to two targets in one step (the all-visible policy allows it): two jobs, both processing orders",
            note="a sensor that is tasked to two targets in one step appears in two task-execution jobs, each of which slews its own copy; the records are the same in both "
                 "completion orders, and so must be the pointing state the sensor is left with")
def shared_sensor(vc):
    def result(j):
        return _NS(target_id=100 + j, observations=[_NS(**_SITE, tag=f"o{j}", target_id=100 + j, sensor_id=10)], missed_observations=[],
                   sensor_info_list=[{"sensor_id": 10, "boresight": f"towards-target-{100 + j}", "time_last_tasked": "now"}])
    views = []
    for order in ((0, 1), (1, 0)):
        eng = _engine(vc)
        for j in order:
            vc.new(TE + "TaskExecutionRegistration", _registrant=eng).processResults(result(j))
        views.append((sorted(o.tag for o in eng._observations), sorted(o.tag for o in eng._saved_observations), dict(eng.sensor_changes)))
    vc.ensure("O-C08-commute.shared-sensor-records", views[0][:2] == views[1][:2] == (["o0", "o1"], ["o0", "o1"]))
    vc.ensure("O-C08-pointing.shared-sensor-order-independent", views[0][2] == views[1][2])


class Rec:
    """registrant stand-in that records every attribute write and method call"""

    def __init__(self, name, **attrs):
        object.__setattr__(self, "_log", [])
        object.__setattr__(self, "_name", name)
        for k, v in attrs.items():
            object.__setattr__(self, k, v)

    def __setattr__(self, k, v):
        self._log.append(("set", k, v))
        object.__setattr__(self, k, v)

    def __getattr__(self, k):
        if k.startswith("__"):
            raise AttributeError(k)

        def method(*a, **kw):
            self._log.append(("call", k, a))
        return method


EU = "resonaate.parallel.estimate_update:"
EP = "resonaate.parallel.estimate_prediction:"
AP = "resonaate.parallel.agent_propagation:"


@obligation("C08", "frames", ensures=["O-C08-frame.update", "O-C08-frame.predict", "O-C08-frame.propagate", "O-C08-frame.reward", "O-C08-commute.reward"],
            fns=[EU + "EstUpdateRegistration.processResults", EP + "EstPredictRegistration.processResults", AP + "PropagateRegistration.processResults",
                 TR + "TaskingRewardRegistration.processResults"], mode="Z", assumes=RAY,
            note="each job's result is written to its own registrant only (the listed attributes / calls, nothing else), and reward results fill exactly the row of their own target, so results of different jobs never interfere and any processing order gives the same state")
def frames(vc):
    a = Rec("A", _detected_maneuvers=["detection-waiting-for-the-next-output"])  # (the worker's copy already carried it: the result list REPLACES the agent's)
    reg = vc.new(EU + "EstUpdateRegistration", _registrant=a)
    res = _NS(updated_filter="F", observed="OBS", iod_start_time="IOD", detected_maneuvers=["dm"])
    reg.processResults(res)
    vc.ensure("O-C08-frame.update", a._log == [("call", "_resetFilter", ("F",)), ("call", "_finalizeUpdate", ("OBS",)), ("set", "iod_start_time", "IOD"),
                                               ("set", "_detected_maneuvers", ["dm"])] and a._detected_maneuvers == ["dm"])
    b = Rec("B", nominal_filter="NF")
    applied = []
    reg = vc.new(EP + "EstPredictRegistration", _registrant=b)
    reg.processResults(_NS(apply=lambda f: applied.append(f), time="T", pred_x="X", pred_p="P"))
    vc.ensure("O-C08-frame.predict", applied == ["NF"] and b._log == [("set", "time", "T"), ("set", "state_estimate", "X"), ("set", "error_covariance", "P")])
    c = Rec("C")
    reg = vc.new(AP + "PropagateRegistration", _registrant=c)
    reg.processResults(_NS(final_time="TF", final_eci="ECI"))
    vc.ensure("O-C08-frame.propagate", c._log == [("set", "time", "TF"), ("set", "eci_state", "ECI")])
    # reward rows: 3 targets x 2 sensors, results of targets 12 and 10 in both orders
    views = []
    for order in ((0, 1), (1, 0)):
        eng = _NS(target_list=[10, 11, 12], visibility_matrix=np.zeros((3, 2), dtype=bool), metric_matrix=np.zeros((3, 2, 2)))
        results = [_NS(estimate_id=12, visibility=np.array([True, False]), metric_matrix=np.array([[1.0, 2.0], [3.0, 4.0]])),
                   _NS(estimate_id=10, visibility=np.array([False, True]), metric_matrix=np.array([[5.0, 6.0], [7.0, 8.0]]))]
        for k in order:
            vc.new(TR + "TaskingRewardRegistration", _registrant=eng).processResults(results[k])
        views.append((eng.visibility_matrix.copy(), eng.metric_matrix.copy()))
    v = views[0]
    vc.ensure("O-C08-frame.reward", bool((v[0] == np.array([[False, True], [False, False], [True, False]])).all()) and bool((v[1][1] == 0).all())
              and bool((v[1][2] == np.array([[1.0, 2.0], [3.0, 4.0]])).all()) and bool((v[1][0] == np.array([[5.0, 6.0], [7.0, 8.0]])).all()))
    vc.ensure("O-C08-commute.reward", bool((views[0][0] == views[1][0]).all()) and bool((views[0][1] == views[1][1]).all()))


@obligation("C08", "assess_jobs", ensures=["O-C08-one-record.submissions", "O-C08-reset", "O-C08-reset.keeps-unwritten"], fns=[CE + "CentralizedTaskingEngine.assess"], mode="Z",
            bounded="3 targets x 2 sensors, every decision matrix (symbolic booleans: one path per matrix)",
            note="for every decision matrix each tasked (target, sensor) pair appears in exactly one task-execution submission - the one of its target, listing exactly that target's tasked sensors - and untasked targets get none; the per-step observation list and the sensor pointing changes are reset before any job result is processed")
def assess_jobs(vc):
    nt, ns = 3, 2
    tl, sl = [10, 11, 12], [1, 2]
    D = np.empty((nt, ns), dtype=object)
    for i in range(nt):
        for j in range(ns):
            D[i, j] = vc.bool(f"D[{i},{j}]")
    jobs, order = [], []
    vc.install(CE + "@TaskExecutionRegistration", lambda eng, est, tstore, sensors: ("job", est, list(sensors)))
    rjobs = []
    vc.install(CE + "@TaskingRewardRegistration", lambda eng_, est, rew, handles: (rjobs.append((est, list(handles))), ("reward", est))[1])
    vc.install(CE + "@handleRelevantEvents", lambda *a, **k: order.append("events"))
    vc.install(CE + "@datetimeToJulianDate", lambda d: d)
    C = vc.cls(CE + "CentralizedTaskingEngine")
    eng = object.__new__(C)
    stale_obs, stale_changes = ["stale"], {"stale": 1}

    def gen(self):
        order.append("generateTasking")
        self.decision_matrix = D
    eng.__dict__.update(_observations=stale_obs, sensor_changes=stale_changes, target_list=tl, sensor_list=sl, _reward=_NS(metrics=[1]), _realtime_obs=True,
                        # (the scenario-wide store lists sensors in the order they were created - here NOT the id order - and also holds a sensor of another engine)
                        _sensor_store={2: "S2", 7: "S7-other-engine", 1: "S1"}, _estimate_store={10: "E10", 11: "E11", 12: "E12"}, _target_store={"t": 1}, reward="R",
                        _reward_executor=_NS(enqueueJob=lambda r: None, join=lambda: order.append("reward.join")),
                        _task_exec_executor=_NS(enqueueJob=lambda r: jobs.append(r), join=lambda: order.append(("exec.join", list(eng._observations), dict(eng.sensor_changes)))),
                        _database="DB", logger=SF.NullLogger(), _unique_id=5, _importer_db=None, target_indices={10: 0, 11: 1, 12: 2}, sensor_indices={1: 0, 2: 1},
                        calculateRewards=lambda: order.append("calculateRewards"), generateTasking=lambda: gen(eng),
                        # records of EARLIER steps that have not been written to the database yet (output step > physics step) are waiting in these queues
                        _saved_observations=["obs-of-earlier-step"], _saved_missed_observations=["miss-of-earlier-step"], _missed_observations=["miss-of-earlier-step"])
    eng.assess("PRIOR", "NOW")
    ok = []
    for i, tid in enumerate(tl):
        mine = [j for j in jobs if j[1] == f"E{tid}"]
        tasked = [f"S{sl[k]}" for k in range(ns) if bool(D[i, k])]  # (decided on this path)
        ok.append((len(mine) == 1 and mine[0][2] == tasked) if tasked else len(mine) == 0)
    vc.ensure("O-C08-one-record.submissions", all(ok) and len(jobs) == sum(1 for i in range(nt) if any(bool(D[i, k]) for k in range(ns))))
    joined = [o for o in order if isinstance(o, tuple) and o[0] == "exec.join"]
    vc.ensure("O-C08-reset", len(joined) == 1 and joined[0][1] == [] and joined[0][2] == {} and order.index("calculateRewards") < order.index("generateTasking"))
    # column j of every matrix belongs to sensor_list[j]: the reward jobs are handed the sensor handles in exactly that order
    vc.ensure("O-C08-one-record.submissions", [j[0] for j in rjobs] == ["E10", "E11", "E12"] and all(j[1] == ["S1", "S2"] for j in rjobs))
    vc.ensure("O-C08-reset.keeps-unwritten", eng._saved_observations[:1] == ["obs-of-earlier-step"] and eng._saved_missed_observations[:1] == ["miss-of-earlier-step"])


@obligation("C08", "step_routing", ensures=["O-C08-pointing.applied", "O-C08-routing.observations", "O-C08-routing.one-update-per-estimate"],
            fns=[SF.SC + "Scenario.stepForward", "resonaate.agents.sensing_agent:SensingAgent.updateInfo"], mode="Z",
            bounded="2 targets, 2 sensors, 2 engines",
            note="after every engine's assess the step applies exactly that engine's sensor pointing changes (each sensor gets its own boresight / last-tasked time), routes each observation to its target's list only, and creates exactly one update job per estimate carrying exactly its observations")
def step_routing(vc):
    o1, o2, o3 = _NS(**_SITE, tag="x", sensor_id=10, target_id=1), _NS(**_SITE, tag="y", sensor_id=11, target_id=2), _NS(**_SITE, tag="z", sensor_id=11, target_id=1)
    ch5 = {10: {"boresight": "b10", "time_last_tasked": "t10"}}
    ch6 = {11: {"boresight": "b11", "time_last_tasked": "t11"}}
    scn, log = SF.run_step(vc, engines=lambda lg: {5: SF.Engine(lg, 5, ch5, [o1]), 6: SF.Engine(lg, 6, ch6, [o2, o3])})
    ups = SF.entries(log, "updateInfo")
    vc.ensure("O-C08-pointing.applied", [(e[1], e[2]) for e in ups] == [(10, ch5[10]), (11, ch6[11])]
              and SF.idx(log, "engine.assess", 0) < SF.idx(log, "updateInfo", 0) < SF.idx(log, "engine.assess", 1) < SF.idx(log, "updateInfo", 1))
    jobs = SF.entries(log, "update.enqueue")
    got = {e[1][1].simulation_id: [o.tag for o in e[1][3]] for e in jobs}
    vc.ensure("O-C08-routing.observations", got == {1: ["x", "z"], 2: ["y"]})
    vc.ensure("O-C08-routing.one-update-per-estimate", sorted(e[1][1].simulation_id for e in jobs) == [1, 2] and all(e[1][2] == ("handle", e[1][1]) for e in jobs))
    # updateInfo itself
    sens = _NS(boresight=np.array([1.0, 0.0, 0.0]), time_last_tasked=0.0)
    a = vc.new("resonaate.agents.sensing_agent:SensingAgent", _sensors=sens)
    newb = np.array([0.0, 0.6, 0.8])
    a.updateInfo({"boresight": newb.copy(), "time_last_tasked": 60.0})
    ok = bool(np.array_equal(sens.boresight, newb)) and sens.time_last_tasked == 60.0
    # a sensor tasked again to a target that has not moved in its frame (a ground radar on a geostationary satellite): same pointing, NEW last-tasked time
    bore = np.array([0.3, -0.4, 0.8660254037844386])
    sens2 = _NS(boresight=bore.copy(), time_last_tasked=60.0)
    a2 = vc.new("resonaate.agents.sensing_agent:SensingAgent", _sensors=sens2)
    a2.updateInfo({"boresight": bore.copy(), "time_last_tasked": 120.0})
    ok = ok and sens2.time_last_tasked == 120.0 and bool(np.array_equal(sens2.boresight, bore))
    vc.ensure("O-C08-pointing.applied", ok)


# "after the step every tasked sensor's pointing direction and last-tasked time reflect that tasking": the per-sensor part of that
# (collectObservations: boresight and time_last_tasked change iff the sensor slews, whatever the outcome of the attempt) is the C02 contract,
# re-checked in this property's own run
from pyvc.harness import share as _share, REGISTRY as _REG  # noqa: E402
from contracts import C02 as _C02  # noqa: E402,F401
for _h in list(_REG["C02"]):
    if _h.name.startswith("collect") or _h.name == "execute":  # (execute: one record set and one pointing record per tasked sensor of a job)
        _share("C02", _h.name, "C08")
