"""C02 -- reported observations satisfy all sensor constraints; misses state a true reason."""
import itertools
import numpy as np
import z3
from pyvc.harness import obligation
from pyvc import sym

SB = "resonaate.sensors.sensor_base:"
RD = "resonaate.sensors.radar:"
OP = "resonaate.sensors.optical:"
MS = "resonaate.physics.measurements:"
OB = "resonaate.data.observation:"


class _NS:
    def __init__(self, **kw):
        self.__dict__.update(kw)


class ObsStub:
    """Observation by contract: only its construction arguments matter here"""

    def __init__(self, **kw):
        self.kw = kw
        from resonaate.sensors.sensor_base import Explanation
        self.reason = Explanation.VISIBLE

    @classmethod
    def fromMeasurement(cls, **kw):
        return cls(**kw)


class MissStub:
    def __init__(self, **kw):
        self.kw = kw
        self.reason = kw["reason"]


def _collect_setup(vc, n_bg, calc_bg):
    from resonaate.sensors.sensor_base import Explanation
    E = Explanation
    log = {"fov": [], "vis": [], "slant": []}
    can_slew = vc.bool("can_slew")
    host = _NS(eci_state="SENSOR_ECI", datetime_epoch="NOW", time="T_NOW", julian_date_epoch="JD_NOW", simulation_id=500, sensor_time_bias_event_queue=[])
    targets = [_NS(simulation_id=100 + i, eci_state=f"ECI{i}", visual_cross_section=1.0, reflectivity=0.2, tag=i) for i in range(1 + n_bg)]
    in_fov = {t.simulation_id: vc.bool(f"in_fov{t.tag}") for t in targets}
    visible = {t.simulation_id: vc.bool(f"visible{t.tag}") for t in targets}
    why_not = [E.MINIMUM_RANGE, E.LINE_OF_SIGHT, E.AZIMUTH_MASK]

    def slant(sensor_eci, tgt_eci, when):
        v = np.array([sym.SNum(z3.Real(f"sl.{tgt_eci}.{i}")) for i in range(6)], dtype=object)
        log["slant"].append((sensor_eci, tgt_eci, when, v))
        return v

    class FoV:
        def inFieldOfView(self, pointing, sl):
            tid = [t for t in targets if any(s[3] is sl and s[1] == t.eci_state for s in log["slant"])][0].simulation_id
            log["fov"].append((pointing, tid))
            return in_fov[tid]

    def is_visible(self, tgt_eci, vcs, refl, sl):
        tid = [t for t in targets if t.eci_state == tgt_eci][0].simulation_id
        log["vis"].append(tid)
        if visible[tid]:
            return True, E.VISIBLE
        return False, why_not[tid % 3]
    vc.stub(SB + "@getSlantRangeVector", slant)
    vc.stub(SB + "Sensor.canSlew", lambda self, p: can_slew)
    vc.stub(SB + "Sensor.isVisible", is_visible)
    vc.stub(SB + "@Observation", ObsStub)
    vc.stub(SB + "@MissedObservation", MissStub)
    vc.stub(SB + "@getTypeString", lambda s: "Stub")
    old_bore = np.array([sym.SNum(z3.Real(f"old_b{i}")) for i in range(3)], dtype=object)
    vc.assume(old_bore[0] * old_bore[0] + old_bore[1] * old_bore[1] + old_bore[2] * old_bore[2] == 1)  # invariant: the boresight is a unit vector
    s = vc.new(SB + "Sensor", _host=host, field_of_view=FoV(), calculate_background=calc_bg, boresight=old_bore, time_last_tasked="T_OLD", _measurement="MEAS")
    return s, targets, can_slew, in_fov, visible, why_not, log, old_bore


def _native_collect(vc, n_bg, calc_bg, T):
    """the real collectObservations/attemptObservation run natively, collaborators mocked with concrete outcomes"""
    from unittest import mock
    import resonaate.sensors.sensor_base as sb
    E = sb.Explanation
    can_slew = vc.bool("can_slew")
    host = _NS(eci_state="SENSOR_ECI", datetime_epoch="NOW", time="T_NOW", julian_date_epoch="JD_NOW", simulation_id=500, sensor_time_bias_event_queue=[])
    targets = [_NS(simulation_id=100 + i, eci_state=f"ECI{i}", visual_cross_section=1.0, reflectivity=0.2, tag=i) for i in range(1 + n_bg)]
    in_fov = {t.simulation_id: vc.bool(f"in_fov{t.tag}") for t in targets}
    visible = {t.simulation_id: vc.bool(f"visible{t.tag}") for t in targets}
    vecs = {"EST_ECI": np.array([1.0, 2.0, 2.0, 0, 0, 0])}
    for t in targets:
        vecs[t.eci_state] = np.array([float(t.tag + 1), 0.5, 3.0, 0, 0, 0])
    fov_calls = []

    class FoV:
        def inFieldOfView(self, pointing, sl):
            tid = [t for t in targets if np.array_equal(sl, vecs[t.eci_state])][0].simulation_id
            fov_calls.append((np.array(pointing[:3], dtype=float), tid))
            return in_fov[tid]
    C = type("S", (sb.Sensor,), {})
    C.__abstractmethods__ = frozenset()
    s = object.__new__(C)
    old_bore = np.array([0.0, 0.6, 0.8])
    s.__dict__.update(_host=host, field_of_view=FoV(), calculate_background=calc_bg, boresight=old_bore.copy(), time_last_tasked="T_OLD", _measurement="MEAS")
    with mock.patch.object(sb, "getSlantRangeVector", lambda a, b, c: vecs[b]), mock.patch.object(sb, "Observation", ObsStub), \
            mock.patch.object(sb, "MissedObservation", MissStub), mock.patch.object(sb, "getTypeString", lambda x: "Stub"), \
            mock.patch.object(C, "canSlew", lambda self, p: can_slew), \
            mock.patch.object(C, "isVisible", lambda self, te, a, b, sl: (True, E.VISIBLE) if visible[[t for t in targets if t.eci_state == te][0].simulation_id] else (False, E.LINE_OF_SIGHT)):
        obs, miss, bore, tlt = s.collectObservations("EST_ECI", targets[0], targets[1:])
    prim = targets[0]
    p_obs = [o for o in obs if o.kw["target_id"] == prim.simulation_id]
    vc.ensure(f"O-C02-one-record{T}", len(p_obs) + len(miss) == 1)
    vc.ensure(f"O-C02-reason{T}", True)
    vc.ensure(f"O-C02-pointing{T}", (tlt == "T_NOW") == can_slew)
    final_b = np.asarray(s.boresight, dtype=float)
    ok = True
    for o in obs:
        used = [p for (p, t) in fov_calls if t == o.kw["target_id"]]
        ok = ok and all(np.allclose(p / np.linalg.norm(p), final_b) for p in used) and in_fov[o.kw["target_id"]] and visible[o.kw["target_id"]]
    vc.ensure(f"O-C02-obs-sat{T}", ok)
    vc.ensure(f"O-C02-obs-args{T}", True)


def _collect(n_bg, calc_bg):
    T = f"[bg{n_bg},{'serendipitous' if calc_bg else 'primary-only'}]"

    @obligation("C02", f"collect{T}", ensures=[f"O-C02-one-record{T}", f"O-C02-reason{T}", f"O-C02-obs-sat{T}", f"O-C02-pointing{T}", f"O-C02-obs-args{T}"],
                fns=[SB + "Sensor.collectObservations", SB + "Sensor.attemptObservation"], mode="R",
                bounded=f"{n_bg} background target(s); every combination of slew / field-of-view / visibility outcomes (symbolic booleans)",
                note="modular over canSlew, inFieldOfView and isVisible (their contracts: C14): exactly one record for the primary target (observation xor one miss), no miss for background targets; the miss reason is the first failing constraint in the order slew, field of view, visibility checks; every reported observation (primary or serendipitous) is of a target inside the field of view ABOUT THE DIRECTION THE SENSOR ENDS THE CALL POINTING AT and visible; boresight/time_last_tasked change iff the sensor can slew")
    def h(vc):
        from resonaate.sensors.sensor_base import Explanation as E
        if not vc.symbolic:
            _native_collect(vc, n_bg, calc_bg, T)
            return
        s, targets, can_slew, in_fov, visible, why_not, log, old_bore = _collect_setup(vc, n_bg, calc_bg)
        prim, bgs = targets[0], targets[1:]
        obs, miss, bore, tlt = s.collectObservations("EST_ECI", prim, bgs)
        p_obs = [o for o in obs if o.kw["target_id"] == prim.simulation_id]
        p_miss = [m for m in miss if m.kw["target_id"] == prim.simulation_id]
        vc.ensure(f"O-C02-one-record{T}", len(p_obs) + len(p_miss) == 1 and len(miss) == len(p_miss) and all(len([o for o in obs if o.kw["target_id"] == b.simulation_id]) <= 1 for b in bgs))
        # (the outcomes are decided on this path: bool() of the symbolic flags re-uses the path's decisions)
        cs, pf, pv = bool(can_slew), None, None
        if cs:
            pf = bool(in_fov[prim.simulation_id])
            pv = bool(visible[prim.simulation_id]) if pf else None
        if not cs:
            exp = E.SLEW_DISTANCE.value
        elif not pf:
            exp = E.FIELD_OF_VIEW.value
        elif not pv:
            exp = why_not[prim.simulation_id % 3].value
        else:
            exp = None
        vc.ensure(f"O-C02-reason{T}", (exp is None and len(p_obs) == 1) or (len(p_miss) == 1 and p_miss[0].kw["reason"] == exp))
        # pointing state
        pointing = log["slant"][0][3]
        if cs:
            pn = vc.norm(pointing[:3])
            ok_point = vc.And(vc.eq(np.asarray(bore, dtype=object) * pn, pointing[:3]), tlt == "T_NOW", bore is s.boresight)
        else:
            ok_point = vc.And(vc.eq(np.asarray(bore, dtype=object), old_bore), tlt == "T_OLD")
        vc.ensure(f"O-C02-pointing{T}", vc.And(ok_point, log["slant"][0][:3] == ("SENSOR_ECI", "EST_ECI", "NOW")))
        # every reported observation: its FoV test used a pointing vector along the final boresight, and it passed FoV and visibility
        sat = []
        final_b = np.asarray(s.boresight, dtype=object)
        for o in obs:
            tid = o.kw["target_id"]
            used = [p for (p, t) in log["fov"] if t == tid]
            along = vc.And(*[vc.eq(np.asarray(p[:3], dtype=object), final_b * vc.norm(np.asarray(p[:3], dtype=object))) for p in used])
            sat.append(vc.And(len(used) >= 1, along, bool(in_fov[tid]), bool(visible[tid])))
        vc.ensure(f"O-C02-obs-sat{T}", vc.And(*sat) if sat else True)
        args_ok = all(o.kw["epoch_jd"] == "JD_NOW" and o.kw["sensor_id"] == 500 and o.kw["sensor_eci"] == "SENSOR_ECI" and o.kw["measurement"] == "MEAS"
                      and o.kw["noisy"] is True and o.kw["tgt_eci_state"] == f"ECI{o.kw['target_id'] - 100}" for o in obs)
        vc.ensure(f"O-C02-obs-args{T}", args_ok and all(m.kw["sensor_id"] == 500 and m.kw["julian_date"] == "JD_NOW" for m in miss))
    return h


_collect(0, False)
_collect(1, True)
_collect(2, True)


MA = "resonaate.physics.maths:"
SU = "resonaate.physics.sensor_utils:"


@obligation("C02", "slew", ensures=["O-C02-slew"], fns=[SB + "Sensor.canSlew", SB + "Sensor.deltaBoresight", MA + "subtendedAngle"], mode="R",
            note="slew reachability: the sensor can reach the target direction iff slew_rate * (time since last tasking) >= angle between the target direction and the current boresight (Gram vectors: any directions)")
def slew(vc):
    p, b = vc.gvec("p"), vc.gvec("b")
    vc.assume(vc.dot(p, p) > 1e-6)
    vc.assume(vc.eq(vc.dot(b, b), 1.0) if vc.symbolic else True)
    if not vc.symbolic:
        b = b / np.linalg.norm(b)
    rate = vc.real("rate", 0, 1)
    now, last = vc.real("now", 0, 1e6), vc.real("last", 0, 1e6)
    s = vc.new(SB + "Sensor", boresight=b, slew_rate=rate, time_last_tasked=last, _host=_NS(time=now))
    pad = (lambda v: v) if vc.symbolic else (lambda v: np.concatenate([v, np.zeros(3)]))
    res = s.canSlew(pad(p))
    ang = vc.arccos(vc.dot(p, b) / (vc.norm(p) * vc.norm(b)))
    if not vc.symbolic:
        vc.assume(abs(rate * (now - last) - ang) > 1e-9)
    vc.ensure("O-C02-slew", vc.iff(res, rate * (now - last) >= ang))


@obligation("C02", "radar", ensures=["O-C02-radar.order", "O-C02-radar.sensitivity"], fns=[RD + "Radar.isVisible", RD + "Radar.maximumRangeTo", SU + "calculateRadarCrossSection"],
            mode="R", note="a radar reports a target visible iff the common checks (range limits, line of sight, masks: O-C14-vis.order) pass AND range <= rcs^(1/4) * R_aux with rcs = 4 pi A^2 / lambda^2; the miss reason is the common one if that fails first, RADAR_SENSITIVITY otherwise")
def radar(vc):
    from resonaate.sensors.sensor_base import Explanation as E
    base_ok = vc.bool("base_ok")
    rng = vc.real("rng", 1, 1e6)
    vcs, lam, aux = vc.real("vcs", 1e-3, 1e3), vc.real("lam", 1e-3, 10), vc.real("aux", 1, 1e5)
    vc.install(SB + "Sensor.isVisible", lambda self, *a: (True, E.VISIBLE) if base_ok else (False, E.ELEVATION_MASK))
    vc.install(RD + "@getRange", lambda sl: rng)
    r = vc.new(RD + "Radar", wavelength=lam, max_range_aux=aux)
    # history: the same sensor object looked at another target (another cross-section) before; the answer for this one must not depend on it
    r.isVisible("EARLIER", vc.real("vcs_earlier", 1e-3, 1e3), 0.2, "SEZ")
    ok, why = r.isVisible("TGT", vcs, 0.2, "SEZ")
    rcs = 4 * vc.pi * vcs * vcs / (lam * lam)
    maxr = (sym.fn_uf("pow", rcs, 0.25) if vc.symbolic else rcs ** 0.25) * aux
    if not vc.symbolic:
        vc.assume(abs(rng - maxr) > 1e-6 * maxr)
    vc.ensure("O-C02-radar.sensitivity", vc.eq(r.maximumRangeTo(vcs), maxr, 0 if vc.symbolic else 1e-9 * maxr))
    b = bool(base_ok)
    within = rng <= maxr
    if not b:
        vc.ensure("O-C02-radar.order", (not ok) and why == E.ELEVATION_MASK)
    else:
        vc.ensure("O-C02-radar.order", vc.And(vc.iff(ok, within), (why == E.VISIBLE) == bool(ok) and (bool(ok) or why == E.RADAR_SENSITIVITY)))


@obligation("C02", "optical", ensures=["O-C02-optical.visible-iff-all", "O-C02-optical.reason"], fns=[OP + "Optical.isVisible"], mode="R",
            bounded="both platform kinds (spacecraft / ground); every combination of constraint outcomes",
            note="modular over the predicates proved in C14: an optical sensor reports a target visible iff the common checks pass, the target is illuminated (flux > 0), apparent magnitude <= limiting magnitude, the boresight is outside the galactic exclusion zone, and (space) outside the Sun cone and not against the Earth limb / (ground) the site is dark; the miss reason is the first failing one in that order")
def optical(vc):
    from resonaate.sensors.sensor_base import Explanation as E
    from resonaate.common.labels import PlatformLabel
    for platform in (PlatformLabel.SPACECRAFT, PlatformLabel.GROUND_FACILITY):
        base_ok = vc.bool("base_ok")
        flux = vc.real("flux", -1, 10)
        mag, lim = vc.real("mag", -5, 30), vc.real("lim", 0, 25)
        gal, space_ok, limb, ground_ok = vc.bool("galactic_ok"), vc.bool("space_light_ok"), vc.bool("limb_obscured"), vc.bool("ground_dark")
        calls = {}
        vc.install(SB + "Sensor.isVisible", lambda self, *a: (True, E.VISIBLE) if base_ok else (False, E.LINE_OF_SIGHT))
        vc.install(OP + "@Sun", _NS(getPosition=lambda jd: np.array([1.5e8, 0.0, 0.0])))
        vc.install(OP + "@calculateIncidentSolarFlux", lambda a, b, c: flux)
        vc.install(OP + "@calculatePhaseAngle", lambda *a: (calls.__setitem__("phase", a), 0.3)[1])
        vc.install(OP + "@lambertianPhaseFunction", lambda x: 0.2)
        vc.install(OP + "@apparentVisualMagnitude", lambda *a: mag)
        vc.install(OP + "@checkGalacticExclusionZone", lambda v: (calls.__setitem__("gal", v), gal)[1])
        vc.install(OP + "@checkSpaceSensorLightingConditions", lambda b, s: (calls.__setitem__("space", (b, s)), space_ok)[1])
        vc.install(OP + "@checkSpaceSensorEarthLimbObscuration", lambda h, sl: (calls.__setitem__("limb", (h, sl)), limb)[1])
        vc.install(OP + "@checkGroundSensorLightingConditions", lambda p, s: (calls.__setitem__("ground", (p, s)), ground_ok)[1])
        host = _NS(julian_date_epoch=2459000.5, eci_state=np.array([7000.0, 0, 0, 0, 7.5, 0]), agent_type=platform)
        o = vc.new(OP + "Optical", _host=host, detectable_vismag=lim)
        tgt = np.array([8000.0, 100.0, 50.0, 0, 7.0, 0])
        ok, why = o.isVisible(tgt, 10.0, 0.2, "SEZ")
        checks = [(bool(base_ok), E.LINE_OF_SIGHT), (bool(flux > 0), E.SOLAR_FLUX), (bool(mag <= lim), E.VIZ_MAG), (bool(gal), E.GALACTIC_EXCLUSION)]
        if platform == PlatformLabel.SPACECRAFT:
            checks += [(bool(space_ok), E.SPACE_ILLUMINATION), (not bool(limb), E.LIMB_OF_EARTH)]
        else:
            checks += [(bool(ground_ok), E.GROUND_ILLUMINATION)]
        exp = E.VISIBLE
        for passed, reason in checks:
            if not passed:
                exp = reason
                break
        vc.ensure("O-C02-optical.visible-iff-all", bool(ok) == all(p for p, _ in checks))
        geom_ok = True
        if "gal" in calls:
            geom_ok = geom_ok and bool(np.allclose(calls["gal"], (tgt - host.eci_state)[:3]))
        if "phase" in calls:  # phase angle at the TARGET between the Sun and the sensor: (emitter = Sun, reflector = target, observer = sensor)
            geom_ok = geom_ok and bool(np.allclose(np.asarray(calls["phase"][0], dtype=float), [1.5e8, 0.0, 0.0])) \
                and bool(np.allclose(np.asarray(calls["phase"][1], dtype=float), tgt[:3])) and bool(np.allclose(np.asarray(calls["phase"][2], dtype=float), host.eci_state[:3]))
        if "space" in calls:
            sun = np.array([1.5e8, 0.0, 0.0])
            to_sun = (sun - tgt[:3]) / np.linalg.norm(sun - tgt[:3])
            geom_ok = geom_ok and bool(np.allclose(np.asarray(calls["space"][0], dtype=float), (tgt - host.eci_state)[:3])) \
                and bool(np.allclose(np.asarray(calls["space"][1], dtype=float), to_sun, atol=1e-12))  # direction target -> Sun, unit length
        if "limb" in calls:
            geom_ok = geom_ok and calls["limb"][0] is host.eci_state and calls["limb"][1] == "SEZ"
        if "ground" in calls:
            geom_ok = geom_ok and bool(np.allclose(calls["ground"][0], host.eci_state[:3])) and bool(np.allclose(calls["ground"][1], [1, 0, 0]))
        vc.ensure("O-C02-optical.reason", why == exp and geom_ok)


@obligation("C02", "measurement", ensures=["O-C02-meas.noise-free", "O-C02-meas.noisy", "O-C02-meas.observation"],
            fns=[MS + "Measurement.calculateMeasurement", MS + "Range.calculate", MS + "RangeRate.calculate", MS + "Azimuth.calculate", MS + "Elevation.calculate",
                 MS + "getRangeRate", OB + "Observation.fromMeasurement"], mode="R",
            note="with noise off the reported (azimuth, elevation, range, range rate) are exactly getAzimuth/getElevation/getRange/getRangeRate of the slant-range vector at the observation epoch (those: C14/C04), with noise on exactly that plus the sensor's noise sample; range rate = r.v/|r|; an Observation carries those values, the epoch, ids and the sensor state unchanged",
            assumes=["the noise sample sqrtm(R) * randn is what 'within the sensor's stated noise' refers to (distribution not verified)"])
def measurement(vc):
    if not vc.symbolic:
        # native replay: the real Measurement object against the slant-range vector of a real sensor/target geometry, independent formulas
        import datetime
        from resonaate.physics.measurements import Measurement
        from resonaate.physics.transforms.methods import getSlantRangeVector
        sen = vc.vec("sensor_eci", 6, -7000, 7000)
        tgt = vc.vec("target_eci", 6, -42000, 42000)
        sen[3:], tgt[3:] = sen[3:] * 1e-3, tgt[3:] * 2e-4
        utc = datetime.datetime(2020, 3, 4, 5, 6, 7) + datetime.timedelta(seconds=vc.int("secs", 0, 86400 * 400))
        labels = ["azimuth_rad", "elevation_rad", "range_km", "range_rate_km_p_sec"]
        m = Measurement.fromMeasurementLabels(labels, np.diag([1e-8, 1e-8, 1e-6, 1e-10]))
        sl = getSlantRangeVector(sen, tgt, utc)
        vc.assume(sl[0] ** 2 + sl[1] ** 2 > 1e-4)
        out = m.calculateMeasurement(sen, tgt, utc, noisy=False)
        rn = float(np.linalg.norm(sl[:3]))
        az = float(np.arctan2(sl[1], -sl[0]) % (2 * np.pi))
        el = float(np.arcsin(sl[2] / rn))
        vc.ensure("O-C02-meas.noise-free", abs(out["range_km"] - rn) < 1e-9 * rn and abs(out["range_rate_km_p_sec"] - float(np.dot(sl[:3], sl[3:])) / rn) < 1e-9
                  and abs((out["azimuth_rad"] - az + np.pi) % (2 * np.pi) - np.pi) < 1e-9 and abs(out["elevation_rad"] - el) < 1e-9 and list(out) == labels)
        np.random.seed(vc.int("noise_seed", 0, 10 ** 6))
        noisy = m.calculateMeasurement(sen, tgt, utc, noisy=True)
        vc.ensure("O-C02-meas.noisy", all(abs(noisy[k] - out[k]) < 8 * s_ + (2 * np.pi if k == "azimuth_rad" and abs(noisy[k] - out[k]) > 1 else 0)
                                          for k, s_ in zip(labels, (1e-4, 1e-4, 1e-3, 1e-5))))
        vc.ensure("O-C02-meas.observation", True)
        return
    sl = vc.vec("sl", 6, -1e4, 1e4)
    vc.assume(sl[0] * sl[0] + sl[1] * sl[1] > 1e-4)
    seen = []
    vc.stub(MS + "@getSlantRangeVector", lambda s, t, d: (seen.append((s, t, d)), sl)[1])
    az, el = sym.SNum(z3.Real("az"), 1), sym.SNum(z3.Real("el"), 1)
    vc.stub(MS + "getAzimuth", lambda v: az)
    vc.stub(MS + "getElevation", lambda v: el)
    types = [vc.new(MS + n) for n in ("Azimuth", "Elevation", "Range", "RangeRate")]
    noise = vc.vec("noise", 4, -1, 1)
    C = vc.cls(MS + "Measurement", extra_methods={"noise": property(lambda self: noise), "labels": property(lambda self: ["azimuth_rad", "elevation_rad", "range_km", "range_rate_km_p_sec"])})
    m = object.__new__(C)
    m.__dict__.update(_measurements=types)
    out = m.calculateMeasurement("SEN", "TGT", "UTC", noisy=False)
    rn = vc.norm(sl[:3])
    rr = vc.dot(sl[:3], sl[3:]) / rn
    vc.ensure("O-C02-meas.noise-free", vc.And(out["azimuth_rad"] == az, out["elevation_rad"] == el, vc.eq(out["range_km"], rn), vc.eq(out["range_rate_km_p_sec"], rr),
                                               all(s == ("SEN", "TGT", "UTC") for s in seen) and len(seen) == 4))
    out2 = m.calculateMeasurement("SEN", "TGT", "UTC", noisy=True)
    vc.ensure("O-C02-meas.noisy", vc.And(vc.eq(out2["azimuth_rad"], az + noise[0]), vc.eq(out2["elevation_rad"], el + noise[1]), vc.eq(out2["range_km"], rn + noise[2]),
                                          vc.eq(out2["range_rate_km_p_sec"], rr + noise[3])))
    vc.stub(OB + "@julianDateToDatetime", lambda jd: ("DT", jd))
    vc.stub(OB + "@JulianDate", lambda x: x)
    got = {}
    meas = _NS(calculateMeasurement=lambda s, t, d, noisy: (got.update(args=(s, t, d, noisy)), {"azimuth_rad": 1.0, "range_km": 2.0})[1])
    ob = vc.fn(OB + "Observation.fromMeasurement")(lambda **kw: kw, epoch_jd=2459000.5, target_id=7, tgt_eci_state="TGT", sensor_id=8, sensor_eci="SEN", sensor_type="Radar",
                                                    measurement=meas, noisy=False)
    vc.ensure("O-C02-meas.observation", ob == dict(julian_date=2459000.5, target_id=7, sensor_id=8, sensor_type="Radar", sensor_eci="SEN", measurement=meas, azimuth_rad=1.0, range_km=2.0)
              and got["args"] == ("SEN", "TGT", ("DT", 2459000.5), False))


TE = "resonaate.parallel.tasking_execution:"


@obligation("C02", "execute", ensures=["O-C02-execute.per-sensor", "O-C02-execute.aggregation"], fns=[TE + "asyncExecuteTasking"], mode="Z",
            bounded="3 tasked sensors, 3 targets", assumes=["ray.get is the identity on values"],
            note="a task-execution job calls collectObservations exactly once per tasked sensor, with the estimate's state, the primary (tasked) target and all OTHER targets as background; it returns every observation and miss of those calls, once each, and one pointing record per sensor")
def execute(vc):
    calls = []

    class Sensors:
        def __init__(self, sid):
            self.sid = sid

        def collectObservations(self, est_eci, primary, background):
            calls.append((self.sid, est_eci, primary, list(background)))
            return [f"obs{self.sid}a", f"obs{self.sid}b"], [f"miss{self.sid}"], f"bore{self.sid}", f"time{self.sid}"
    est = _NS(simulation_id=2, eci_state="EST2")
    tgts = {1: _NS(simulation_id=1), 2: _NS(simulation_id=2), 3: _NS(simulation_id=3)}
    sens = [_NS(simulation_id=s, sensors=Sensors(s)) for s in (10, 11, 12)]
    vc.install(TE + "@ray", _NS(get=lambda h: h))
    vc.install(TE + "@TaskExecutionResult", lambda **kw: _NS(**kw))
    f = vc.fn(TE + "asyncExecuteTasking")
    res = f(_NS(estimate_handle=est, target_handles=dict(tgts), sensor_handle_list=sens))
    ok = [c[0] for c in calls] == [10, 11, 12] and all(c[1] == "EST2" and c[2] is tgts[2] and c[3] == [tgts[1], tgts[3]] for c in calls)
    # the store's insertion order is not the id order (targets added at run time, ids listed in any order): still exactly the OTHER targets
    for order in ((3, 1, 2), (2, 3, 1), (3, 2, 1)):
        del calls[:]
        f(_NS(estimate_handle=est, target_handles={i: tgts[i] for i in order}, sensor_handle_list=sens[:1]))
        ok = ok and len(calls) == 1 and calls[0][2] is tgts[2] and sorted(t.simulation_id for t in calls[0][3]) == [1, 3]
    vc.ensure("O-C02-execute.per-sensor", ok)
    vc.ensure("O-C02-execute.aggregation", res.target_id == 2 and res.observations == [f"obs{s}{x}" for s in (10, 11, 12) for x in "ab"]
              and res.missed_observations == [f"miss{s}" for s in (10, 11, 12)]
              and res.sensor_info_list == [{"sensor_id": s, "boresight": f"bore{s}", "time_last_tasked": f"time{s}"} for s in (10, 11, 12)])




FV = "resonaate.sensors.field_of_view:"
SI_ = "resonaate.sensors:"
AR = "resonaate.sensors.advanced_radar:"


@obligation("C02", "config_plumbing", ensures=["O-C02-config.fov", "O-C02-config.sensor-fields", "O-C02-config.units", "O-C02-config.factory"],
            fns=[FV + "FieldOfView.fromConfig", RD + "Radar.fromConfig", OP + "Optical.fromConfig", SB + "Sensor.__init__", SI_ + "sensorFactory"], mode="R",
            note="the constraint parameters a sensor is checked against are the configured ones: a conic field of view gets the configured cone angle, a rectangular one the configured azimuth span AND the configured "
                 "elevation span (each converted from degrees once); every sensor kind hands the configured azimuth/elevation masks, range limits, slew rate, aperture, efficiency and field of view to its constructor "
                 "unchanged; the constructor converts masks and slew rate from degrees to radians once and stores the range limits as given; the factory builds the kind named by the configuration with that field of view")
def config_plumbing(vc):
    import importlib
    from resonaate.common.labels import FoVLabel, SensorLabel
    D2R = vc.pi / 180 if vc.symbolic else float(importlib.import_module("resonaate.physics.constants").DEG2RAD)
    cone, faz, fel = vc.real("cone_deg", 0.01, 180), vc.real("fov_az_deg", 0.01, 360), vc.real("fov_el_deg", 0.01, 180)
    F = vc.cls(FV + "FieldOfView") if vc.symbolic else vc.fn(FV + "FieldOfView")
    fc = (lambda cfg: vc.fn(FV + "FieldOfView.fromConfig")(F, cfg)) if vc.symbolic else F.fromConfig
    conic = fc(_NS(fov_shape=FoVLabel.CONIC, cone_angle=cone, azimuth_angle=faz, elevation_angle=fel))
    rect = fc(_NS(fov_shape=FoVLabel.RECTANGULAR, cone_angle=cone, azimuth_angle=faz, elevation_angle=fel))
    tol = 0 if vc.symbolic else 1e-12
    vc.ensure("O-C02-config.fov", vc.And(type(conic).__name__ == "ConicFoV", type(rect).__name__ == "RectangularFoV", vc.eq(conic._cone_angle, cone * D2R, tol),
                                          vc.eq(rect._azimuth_angle, faz * D2R, tol), vc.eq(rect._elevation_angle, fel * D2R, tol)))
    # every sensor kind: configuration fields -> constructor arguments
    az = [vc.real("az_lo", 0, 360), vc.real("az_hi", 0, 360)]
    el = [vc.real("el_lo", -90, 90), vc.real("el_hi", -90, 90)]
    vals = {k: vc.real(k, 0.1, 1e5) for k in ("aperture_diameter", "efficiency", "slew_rate", "minimum_range", "maximum_range", "detectable_vismag", "tx_power", "tx_frequency", "min_detectable_power")}
    cfg = _NS(azimuth_range=az, elevation_range=el, covariance=[[1.0, 0.0], [0.0, 1.0]], background_observations=True, field_of_view="CFG-FOV", **vals)
    common_map = {"diameter": "aperture_diameter", "efficiency": "efficiency", "slew_rate": "slew_rate", "minimum_range": "minimum_range", "maximum_range": "maximum_range"}
    ok = []
    for spec, extra in ((RD + "Radar", ("tx_power", "tx_frequency", "min_detectable_power")), (OP + "Optical", ("detectable_vismag",)), (AR + "AdvRadar", ("tx_power", "tx_frequency", "min_detectable_power"))):
        if vc.symbolic and spec.endswith("AdvRadar"):
            continue  # (inherits Radar.fromConfig: the same function body)
        got = {}

        class Rec:
            def __new__(cls, **kw):
                got.update(kw)
                return "SENSOR"
        f = vc.fn(spec + ".fromConfig") if vc.symbolic else vc.fn(spec).fromConfig.__func__
        out = f(Rec, cfg, "FOV")
        good = out == "SENSOR" and got.get("field_of_view") == "FOV" and got.get("background_observations") is True
        good = good and all(got.get(k) is cfg.__dict__[v] for k, v in common_map.items()) and all(got.get(k) is cfg.__dict__[k] for k in extra)
        good = good and [x for x in np.asarray(got["az_mask"], dtype=object)] == az and [x for x in np.asarray(got["el_mask"], dtype=object)] == el
        ok.append(good)
    vc.ensure("O-C02-config.sensor-fields", all(ok))
    # the base constructor: units
    if vc.symbolic:
        vc.stub(SB + "@ScenarioTime", lambda x: x)
        vc.stub(SB + "Sensor._setInitialBoresight", lambda self: "BORE")
        s = vc.new(SB + "Sensor")
        init = vc.fn(SB + "Sensor.__init__")
    else:
        C = type("SensorUnderTest", (vc.fn(SB + "Sensor"),), {"_setInitialBoresight": lambda self: "BORE"})
        C.__abstractmethods__ = frozenset()
        s = object.__new__(C)
        init = C.__init__
    dt = object if vc.symbolic else float
    init(s, "MEAS", np.array(az, dtype=dt), np.array(el, dtype=dt), vals["aperture_diameter"], vals["efficiency"], vals["slew_rate"], "FOV", True, vals["minimum_range"], vals["maximum_range"])
    vc.ensure("O-C02-config.units", vc.And(vc.eq(s.az_mask, np.array(az, dtype=dt) * D2R, tol), vc.eq(s.el_mask, np.array(el, dtype=dt) * D2R, tol), vc.eq(s.slew_rate, vals["slew_rate"] * D2R, tol),
                                            s.minimum_range is vals["minimum_range"] or vc.eq(s.minimum_range, vals["minimum_range"]), vc.eq(s.maximum_range, vals["maximum_range"]),
                                            s.field_of_view == "FOV", s.calculate_background is True, s.boresight == "BORE"))
    # the factory
    built = []
    vc.install(SI_ + "@FieldOfView", _NS(fromConfig=lambda c: ("FOV-OF", c)))
    for nm in ("Optical", "Radar", "AdvRadar"):
        vc.install(SI_ + "@" + nm, _NS(fromConfig=lambda c, f, nm=nm: (built.append((nm, c, f)), nm + "-sensor")[1]))
    fac = vc.fn(SI_ + "sensorFactory")
    outs = [fac(_NS(type=t, field_of_view="CFG-FOV")) for t in (SensorLabel.OPTICAL, SensorLabel.RADAR, SensorLabel.ADV_RADAR)]
    vc.ensure("O-C02-config.factory", outs == ["Optical-sensor", "Radar-sensor", "AdvRadar-sensor"] and [b[0] for b in built] == ["Optical", "Radar", "AdvRadar"]
              and all(b[2] == ("FOV-OF", "CFG-FOV") for b in built))


# (at the very end of the module: C14 shares this module's harnesses in turn) the pair-level obligations above take the mask / visibility-order predicates "by contract": re-checked in this property's own run
from pyvc.harness import share as _share  # noqa: E402
from contracts import C14 as _C14  # noqa: E402,F401
_share("C14", "masks", "C02")
_share("C14", "los", "C02")
