"""C11 -- ground facilities stay fixed at their configured geodetic location."""
import numpy as np
import z3
from pyvc.harness import obligation
from pyvc import sym, orth
from contracts import C04, C05

TR = "resonaate.dynamics.terrestrial:"
DY = "resonaate.dynamics:"
TM = C04.TM
SD = C05.SD
CFG = "resonaate.scenario.config.state_config:"


class _NS:
    def __init__(self, **kw):
        self.__dict__.update(kw)


class _Instant:
    """opaque UTC instant: start + seconds (datetime arithmetic by contract: exact)"""

    def __init__(self, base, secs=0):
        self.base, self.secs = base, secs

    def __add__(self, td):
        s = td.seconds if hasattr(td, "seconds") else td
        return _Instant.get(self.base, self.secs + s)

    _memo = {}

    @staticmethod
    def get(base, secs):
        key = (base, sym.term(secs).sexpr())
        c = sym.ctx()
        memo = c.__dict__.setdefault("_instants", {})
        if key not in memo:
            memo[key] = _Instant(base, secs)
        return memo[key]


@obligation("C11", "start", ensures=["O-C11-start", "O-C11-start.cal-pre"], fns=[TR + "Terrestrial.__init__", SD + "julianDateToDatetime"], mode="F",
            assumes=C05.FASSUME, note="the facility's start instant equals the scenario start for every whole-second start 1901-2099 (getJulianDate/getCalendarDate by their proved contracts)")
def start(vc):
    vc.fmode(True)
    y, m, d = C05._ymd(vc, split=False)
    h, mi, s = C05._hms(vc)
    if vc.symbolic:
        vc.stub(SD + "@datetime", C05.SymDT)
        vc.stub(SD + "@timedelta", lambda seconds=0: seconds)
        jd = C05.jd_stub(None, y, m, d, h, mi, s)

        class _J:
            pass
        j = _J()
        _J.calendar_date = property(lambda self: _cal_stub_c11(jd))
        o = vc.new(TR + "Terrestrial")
        vc.fn(TR + "Terrestrial.__init__")(o, j, "x_ecef")
        vc.ensure("O-C11-start", vc.And(o.datetime_start.valid, o.datetime_start.T == C05.T_of(vc, y, m, d, h, mi, s), o.x_ecef == "x_ecef",
                                         o.julian_date_start is j))
    else:
        import datetime
        from resonaate.physics.time.stardate import datetimeToJulianDate
        from resonaate.dynamics.terrestrial import Terrestrial
        t0 = datetime.datetime(y, m, d, h, mi, s)
        o = Terrestrial(datetimeToJulianDate(t0), np.zeros(6))
        vc.ensure("O-C11-start", o.datetime_start == t0)
        vc.ensure("O-C11-start.cal-pre", True)


def _rename(x):
    return x


# the cal_stub emits its precondition under the name used by C05; map it to this property's obligation name
_orig_cal_stub = C05.cal_stub


def _cal_stub_c11(jd):
    c = sym.ctx()
    before = len(c.obls)
    out = _orig_cal_stub(jd)
    for o in c.obls[before:]:
        if o.name == "O-C05-roundtrip.cal-pre":
            o.name = "O-C11-start.cal-pre"
    return out


C05_cal_for_c11 = _cal_stub_c11


@obligation("C11", "fixed", ensures=["O-C11-fixed.position", "O-C11-fixed.velocity", "O-C11-fixed.raises"],
            fns=[TR + "Terrestrial.propagate", TM + "ecef2eci", TM + "eci2ecef"], mode="R",
            note="for every elapsed time t >= t0 the propagated inertial state converts back to the stored Earth-fixed position with zero Earth-fixed velocity, i.e. the inertial velocity is PNR (omega x r_pef); orthogonal-word algebra with ReductionParams.build by contract")
def fixed(vc):
    import datetime
    t0 = vc.real("t0", 0, 1e7)
    tf = vc.real("tf", 0, 1e7)
    if vc.symbolic:
        C04._frame_stubs(vc)
        vc.stub(TR + "@timedelta", lambda seconds=0: _NS(seconds=seconds))
        site = orth.LState(vc.lvec("site"), orth.LVec({}))
        o = vc.new(TR + "Terrestrial", datetime_start=_Instant("start", 0), x_ecef=site, julian_date_start=None)
        f = vc.fn(TR + "Terrestrial.propagate")
        if bool(tf < t0):
            try:
                f(o, t0, tf, None)
                raised = False
            except ValueError:
                raised = True
            vc.ensure("O-C11-fixed.raises", raised)
            return
        eci = f(o, t0, tf, None)
        when = o.datetime_start + _NS(seconds=tf)
        back = vc.fn(TM + "eci2ecef")(eci, when)
        vc.ensure("O-C11-fixed.position", vc.eq(back[:3], site[:3]))
        red = C04.ReductionStub.build(when)
        om = np.array([0, 0, 7.292115146706979e-5 * (1 - red.lod / 86400.0)], dtype=object)
        expect_v = red.rot_pnr @ (orth.skew_of(om) @ (red.rot_w @ site[:3]))
        vc.ensure("O-C11-fixed.velocity", vc.And(vc.eq(back[3:], orth.LVec({})), vc.eq(eci[3:], expect_v)))
        vc.ensure("O-C11-fixed.raises", True)
    else:
        from resonaate.dynamics.terrestrial import Terrestrial
        from resonaate.physics.time.stardate import datetimeToJulianDate
        import resonaate.physics.transforms.methods as tm
        start = datetime.datetime(2018, 3, 4, 5, 6, 7) + datetime.timedelta(seconds=vc.int("off", 0, 86400 * 900))
        lla = np.array([vc.real("lat", -1.5, 1.5), vc.real("lon", -3.1, 3.1), vc.real("alt", -0.5, 5)])
        x = tm.lla2ecef(lla)
        o = Terrestrial(datetimeToJulianDate(start), x)
        vc.assume(tf >= t0)
        tf = float(int(tf))
        eci = o.propagate(t0, tf, None)
        back = tm.eci2ecef(eci, start + datetime.timedelta(seconds=tf))
        vc.ensure("O-C11-fixed.position", bool(np.linalg.norm(back[:3] - x[:3]) < 1e-6))  # < 1 mm
        vc.ensure("O-C11-fixed.velocity", bool(np.linalg.norm(back[3:]) < 1e-9))
        vc.ensure("O-C11-fixed.raises", True)


@obligation("C11", "config", ensures=["O-C11-config"], fns=[DY + "dynamicsFactory", CFG + "LLAStateConfig.toECI", TM + "ecef2eci", TM + "eci2ecef"],
            mode="R", note="the Earth-fixed state stored for a ground facility equals lla2ecef(configured latitude, longitude, altitude) (lla2ecef itself: O-C04-lla-fwd.*), and the dynamics start at the clock's Julian date")
def config(vc):
    if not vc.symbolic:
        # native replay: the real factory with a real clock that has been advanced k steps (facility added mid-run)
        import datetime
        from resonaate.scenario.config.state_config import LLAStateConfig
        from resonaate.scenario.config.platform_config import GroundFacilityConfig
        from resonaate.scenario.clock import ScenarioClock
        from resonaate.dynamics import dynamicsFactory
        from resonaate.physics.transforms.methods import lla2ecef
        lat, lon, alt = vc.real("lat", -89, 89), vc.real("lon", -179, 179), vc.real("alt", -0.5, 9)  # (sites below the ellipsoid exist: Dead Sea -0.43 km)
        k = vc.int("steps_before", 0, 50)
        from resonaate.physics.time.stardate import ScenarioTime, datetimeToJulianDate
        start = datetime.datetime(2021, 3, 30, 16, 55, 7) + datetime.timedelta(seconds=vc.int("start_off", 0, 86400 * 300))
        clock = object.__new__(ScenarioClock)  # (the constructor only adds database rows for the epochs)
        clock.__dict__.update(datetime_start=start, julian_date_start=datetimeToJulianDate(start), time=ScenarioTime(0), dt_step=ScenarioTime(60.0))
        for _ in range(k):
            clock.ticToc()
        # ONE parsed site description, used first for a run that starts at another instant (a sweep over start times re-uses the parsed configuration; Scenario.addSensor asks the
        # same object at the run's start and at the current epoch): the second facility must not inherit anything from the first
        site_cfg = _NS(platform=GroundFacilityConfig(), state=LLAStateConfig(latitude=lat, longitude=lon, altitude=alt))
        other = object.__new__(ScenarioClock)
        other_start = start + datetime.timedelta(seconds=vc.int("other_start_off", 600, 86400))
        other.__dict__.update(datetime_start=other_start, julian_date_start=datetimeToJulianDate(other_start), time=ScenarioTime(0), dt_step=ScenarioTime(60.0))
        dynamicsFactory(site_cfg, None, None, None, other)
        dyn = dynamicsFactory(site_cfg, None, None, None, clock)
        want = lla2ecef(np.array([np.radians(lat), np.radians(lon), alt]))
        ecef = np.asarray(dyn.x_ecef, dtype=float)
        vc.ensure("O-C11-config", bool(np.linalg.norm(ecef[:3] - want[:3]) < 1e-6 and np.linalg.norm(ecef[3:]) < 1e-9))
        return
    C04._frame_stubs(vc)
    site = orth.LState(vc.lvec("site"), orth.LVec({}))
    seen = {}

    def lla_stub(x):
        seen["lla"] = x
        return site
    vc.stub(TM + "lla2ecef", lla_stub)
    import resonaate.scenario.config.platform_config as pc
    lat, lon, alt = vc.real("lat", -90, 90), vc.real("lon", -180, 180), vc.real("alt", -0.5, 9)
    LLA = vc.cls(CFG + "LLAStateConfig")
    st = object.__new__(LLA)
    st.__dict__.update(latitude=lat, longitude=lon, altitude=alt)
    plat = object.__new__(pc.GroundFacilityConfig)
    agent_cfg = _NS(platform=plat, state=st)
    when = _Instant("start", 0)
    # the clock may be anywhere in the run (a facility added at run time): the current epoch is a different instant from the start
    clock = _NS(julian_date_start="JD0", datetime_start=when, datetime_epoch=_Instant("epoch", 0), julian_date_epoch="JDNOW", time=vc.real("t_now", 0, 1e7))
    made = {}
    vc.stub(DY + "@Terrestrial", lambda jd, x: made.update(jd=jd, x=x) or "dyn")
    out = vc.fn(DY + "dynamicsFactory")(agent_cfg, None, None, None, clock)
    lla = seen["lla"]
    vc.ensure("O-C11-config", vc.And(out == "dyn", made["jd"] == "JD0", vc.eq(made["x"], site),
                                      vc.eq(lla[0], lat * vc.pi / 180), vc.eq(lla[1], lon * vc.pi / 180), vc.eq(lla[2], alt)))


# the facility's start instant and stored position rest on the calendar decomposition (C05 cal / roundtrip) and on lla2ecef (C04 lla_fwd): those contracts are
# re-checked in this property's own run
from pyvc.harness import share as _share  # noqa: E402
_share("C05", "cal", "C11")
_share("C05", "roundtrip", "C11")
_share("C04", "lla_fwd", "C11")


# the facility's own report of where it is (SensingAgent.lla_state / ecef_state, refreshed eagerly by the eci_state setter at the agent's CURRENT epoch) stays on the
# configured site only if the clock is written before the state - after a propagation result (C10 truth_job: writes are [time, eci_state] in that order) and after an
# import (C19 state: the conversion uses the record's epoch); both re-checked in this property's own run
from contracts import C10 as _C10, C19 as _C19  # noqa: E402,F401
_share("C10", "truth_job", "C11")
_share("C19", "state", "C11")
