"""Containers keyed by symbolic integers (agent ids, ...): library contracts of set / dict for the operations the
extracted code performs.  Elements carry a guard (are they present?); equality of keys is decided symbolically, and
whenever Python needs a definite answer (truthiness, iteration) the path explorer splits."""
from __future__ import annotations

import z3

from . import sym
from .sym import SBool, SNum, Unsupported


def _eq(a, b):
    r = (a == b)
    return r if isinstance(r, SBool) else bool(r)


def _and(*xs):
    return sym.And(*xs)


def _or(xs):
    xs = list(xs)
    return sym.Or(*xs) if xs else False


def _not(x):
    return sym.Not(x)


class SymSet:
    def __init__(self, items=()):
        self.items = []  # (guard, element)
        for it in items:
            self.add(it)

    def add(self, e, guard=True):
        self.items.append((guard, e))

    def _contains(self, x):
        return _or(_and(g, _eq(x, e)) for g, e in self.items)

    def __contains__(self, x):
        return bool(self._contains(x))  # path split

    def __sub__(self, other):
        other = SymSet._coerce(other)
        out = SymSet()
        for g, e in self.items:
            out.add(e, _and(g, _not(other._contains(e))))
        return out

    def __or__(self, other):
        out = SymSet()
        out.items = list(self.items) + list(SymSet._coerce(other).items)
        return out

    @staticmethod
    def _coerce(o):
        return o if isinstance(o, SymSet) else SymSet(list(o))

    def __rsub__(self, other):
        return SymSet._coerce(other) - self

    def update(self, other):
        for e in other:
            self.add(e)

    def __eq__(self, other):
        a, b = list(self), list(SymSet._coerce(other))
        return len(a) == len(b) and all(any(bool(_eq(x, y)) for y in b) for x in a)

    __hash__ = None

    def __bool__(self):
        return bool(_or(g for g, _ in self.items))

    def __iter__(self):
        seen = []
        for g, e in self.items:
            if bool(g) and not any(bool(_eq(e, s)) for s in seen):  # path splits: present and not a duplicate
                seen.append(e)
                yield e

    def __len__(self):
        return sum(1 for _ in self)

    def __repr__(self):
        return "SymSet(%d guarded items)" % len(self.items)


def b_set(it=()):
    it = list(it)
    if sym._CTX is not None:
        return SymSet(it)  # duplicates are removed lazily (iteration / len)
    try:
        return set(it)
    except Unsupported:
        return SymSet(it)


class SymDict:
    """dict with (possibly symbolic, pairwise distinct) integer keys"""

    def __init__(self, pairs=()):
        self.pairs = list(pairs)  # (key, value), keys pairwise distinct (precondition stated by the harness)
        self.log = []

    def _find(self, k):
        for i, (kk, v) in enumerate(self.pairs):
            if bool(_eq(k, kk)):  # path split
                return i
        return None

    def __contains__(self, k):
        return self._find(k) is not None

    def __getitem__(self, k):
        i = self._find(k)
        if i is None:
            raise KeyError(k)
        return self.pairs[i][1]

    def __setitem__(self, k, v):
        i = self._find(k)
        if i is None:
            self.pairs.append((k, v))
        else:
            self.pairs[i] = (k, v)

    def __delitem__(self, k):
        i = self._find(k)
        if i is None:
            raise KeyError(k)
        self.log.append(("del", self.pairs[i][0]))
        del self.pairs[i]

    def __len__(self):
        return len(self.pairs)

    def __bool__(self):
        return bool(self.pairs)

    def __iter__(self):
        return iter([k for k, _ in self.pairs])

    def keys(self):
        return SymSet([k for k, _ in self.pairs])

    def values(self):
        return [v for _, v in self.pairs]

    def items(self):
        return list(self.pairs)

    def get(self, k, default=None):
        i = self._find(k)
        return default if i is None else self.pairs[i][1]
