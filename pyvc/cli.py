"""pyvc command line:  check <property> [--tier quick|thorough]   |   replay <file>

exit codes: 0 all obligations discharged (known findings printed, not counted)
            1 >= 1 obligation refuted            -> VIOLATION property=<id> replay=<path>
            2 undecided (unknown / unsupported / vacuous / cross-check could not run)
            3 checker crash or encoder cross-check mismatch
"""
from __future__ import annotations

import argparse
import importlib
import json
import multiprocessing as mp
import os
import sys
import time
import traceback

ROOT = os.path.dirname(os.path.dirname(os.path.abspath(__file__)))


def _load(prop):
    from . import harness
    importlib.import_module(f"contracts.{prop}")
    return harness.REGISTRY.get(prop, [])


def _work(args):
    prop, idx, tier, seed = args
    try:
        import z3
        z3.set_param("smt.random_seed", seed % 1000)
        from . import harness
        hs = _load(prop)
        h = hs[idx]
        if tier == "thorough" and "thorough_opts" in h.opts:
            h.opts.update(h.opts["thorough_opts"])
        if h.opts.get("native_only"):
            # bounded stand-in (never counted as proved): the contract is only run natively on sampled inputs of the real code
            r = {"harness": h.name, "status": "ok", "paths": 0, "functions": {}, "lemmas": [], "uf": [], "stubbed": [], "shims": [],
                 "obligations": {n_: {"instances": 0, "unsat": 0, "sat": 0, "unknown": 0, "vacuous": 0, "backends": {}, "seconds": 0.0, "models": [], "notes": []}
                                 for n_ in h.ensures}}
            for spec in h.fns:
                r["functions"][spec] = {"bounded_native_only": True}
        else:
            r = harness.run_symbolic(h, tier)
        # contract cross-check on the real code (native execution)
        n = h.opts.get("xcheck", 25 if tier == "quick" else 400)
        if h.opts.get("native_only"):
            n = h.opts.get("samples", 300) * (1 if tier == "quick" else 10)
        t0 = time.time()
        try:
            ran, fails, errors = harness.run_concrete(h, None, seed, n)
        except BaseException:
            ran, fails, errors = 0, [], [(traceback.format_exc(), {})]
        first = {}
        for a, b in fails:
            first.setdefault(a, b)
        r["xcheck"] = {"tried": n, "ran": ran, "fails": [(a, b) for a, b in list(first.items())[:40]], "n_fails": len(fails),
                       "errors": [(a, b) for a, b in errors[:3]], "n_errors": len(errors), "seconds": time.time() - t0}
        # replay of refuted obligations
        for name, rec in r["obligations"].items():
            if rec["sat"] == 0:
                continue
            rec["replay"] = _replay_search(h, name, rec, seed, fails)
        return r
    except BaseException:
        return {"harness": f"{prop}#{idx}", "status": "crash", "error": traceback.format_exc(), "obligations": {}}


def _replay_search(h, name, rec, seed, xfails):
    """Find a concrete failing input on the real code for a refuted obligation."""
    from . import harness
    for m in rec["models"]:
        mv = m.get("model")
        if not mv:
            continue
        vals = {k: v for k, v in mv.items() if isinstance(v, (int, float, bool))}
        try:
            ran, fails, errors = harness.run_concrete(h, vals, seed, 1)
        except BaseException:
            continue
        for n2, inp in fails:
            if n2 == name:
                return {"confirmed": True, "source": "solver-model", "inputs": inp}
        if name.endswith(".noraise") and harness.LAST_REAL_ERRORS:
            return {"confirmed": True, "source": "solver-model", "inputs": harness.LAST_REAL_ERRORS[0][1], "raised": harness.LAST_REAL_ERRORS[0][0]}
    for n2, inp in xfails:
        if n2 == name:
            return {"confirmed": True, "source": "cross-check-sample", "inputs": inp}
    try:
        ran, fails, errors = harness.run_concrete(h, None, seed + 1, h.opts.get("replay_search", 3000))
    except BaseException:
        fails = []
    for n2, inp in fails:
        if n2 == name:
            return {"confirmed": True, "source": "random-search", "inputs": inp}
    if name.endswith(".noraise") and harness.LAST_REAL_ERRORS:  # the real code raised, natively, on a sampled input of the harness
        return {"confirmed": True, "source": "random-search", "inputs": harness.LAST_REAL_ERRORS[0][1], "raised": harness.LAST_REAL_ERRORS[0][0]}
    return {"confirmed": False, "source": "none", "inputs": None}


def cmd_check(prop, tier, jobs):
    t0 = time.time()
    seed = int(os.environ.get("VERIF_SEED", "0") or 0)
    sys.path.insert(0, ROOT)
    hs = _load(prop)
    if not hs:
        print(f"no contracts registered for {prop}")
        return 3
    todo = [i for i, h in enumerate(hs) if h.tier == "quick" or tier == "thorough"]
    only = os.environ.get("PYVC_ONLY")  # development aid: run the harnesses whose name contains one of these (never used by registered commands)
    if only:
        todo = [i for i in todo if any(o in hs[i].name for o in only.split(","))]
    with mp.get_context("fork").Pool(min(jobs, max(1, len(todo)))) as pool:
        results = pool.map(_work, [(prop, i, tier, seed) for i in todo], chunksize=1)
    kf = json.load(open(os.path.join(ROOT, "known_findings.json"))) if os.path.exists(os.path.join(ROOT, "known_findings.json")) else {"findings": []}
    known = {f["obligation"]: f for f in kf["findings"] if f["property"] == prop and f.get("status") == "known"}
    n_obl = n_dis = 0
    violations, undecided, crashes, known_hit = [], [], [], []
    samples, functions, lemmas, backends = [], {}, set(), {}
    solver_s = 0.0
    paths = 0
    xran = xfail = 0
    bounded = []
    ufs, shims_used, stubbed = set(), set(), set()
    for i, r in zip(todo, results):
        h = hs[i]
        if r.get("status") == "crash":
            crashes.append((h.name, r.get("error", "")))
            continue
        functions.update(r.get("functions", {}))
        lemmas.update(r.get("lemmas", []))
        ufs.update(r.get("uf", []))
        stubbed.update(r.get("stubbed", []))
        shims_used.update(r.get("shims", []))
        paths += r.get("paths", 0)
        xc = r.get("xcheck", {})
        xran += xc.get("ran", 0)
        if h.opts.get("bounded") and not h.opts.get("native_only"):
            bounded.append({"harness": h.name, "bound": h.opts["bounded"]})
        if h.opts.get("native_only"):
            fails_by = {}
            for f in xc.get("fails", []):
                fails_by.setdefault(f[0], f[1])
            item = {"harness": h.name, "kind": "bounded stand-in: native sampled check of the real code, NOT a proof", "bound": h.opts.get("bounded", ""),
                    "samples_run": xc.get("ran", 0), "functions": h.fns, "obligations": [n_ for n_ in h.ensures if not n_.endswith(".noraise")], "failed": sorted(fails_by)}
            bounded.append(item)
            for name, inp in fails_by.items():
                rec = r["obligations"].get(name) or {"models": [], "notes": [], "instances": 0, "sat": 1}
                rec["replay"] = {"confirmed": True, "source": "bounded native check", "inputs": inp}
                rec.setdefault("models", [])
                rec.setdefault("notes", [])
                rec.setdefault("instances", 0)
                rec.setdefault("sat", 1)
                if name in known:
                    known_hit.append((name, known[name]))
                else:
                    violations.append((h, name, rec, r))
            if xc.get("n_errors"):
                undecided.append((h.name, "*", "bounded native check raised", xc["errors"][:1]))
            elif xc.get("ran", 0) == 0:
                undecided.append((h.name, "*", "bounded native check vacuous", ["no native sample satisfied the harness's assumptions"]))
            continue
        for name in h.ensures:
            rec = r["obligations"][name]
            n_obl += 1
            solver_s += rec["seconds"]
            for b, k in rec["backends"].items():
                backends[b] = backends.get(b, 0) + k
            verdict = "discharged"
            if rec["sat"] > 0:
                verdict = "refuted"
            elif rec["unknown"] > 0 or r.get("unsupported") or r.get("errors"):
                verdict = "undecided"
            elif name.endswith(".noraise") and rec["instances"] == rec["unsat"] + rec["vacuous"]:
                verdict = "discharged"  # no feasible path of the explored code raises
            elif rec["instances"] == 0 or rec["unsat"] == 0:
                verdict = "vacuous"
            xf = [f for f in xc.get("fails", []) if f[0] == name]
            if verdict in ("undecided", "vacuous") and xf:
                # the solvers left it open, but the native run of the same contract on the real code fails: a concrete counterexample
                verdict = "refuted"
                rec["replay"] = {"confirmed": True, "source": "native-cross-check (solvers returned unknown for this obligation)", "inputs": xf[0][1]}
            if verdict == "discharged" and xf:
                # proved under assumed callee contracts / library contracts, yet the contract fails natively on the
                # real code: a concrete counterexample exists, so this is reported as a violation of the obligation
                verdict = "refuted"
                rec["replay"] = {"confirmed": True, "source": "native-cross-check (obligation discharged symbolically: an assumed callee/library contract does not hold on the real code, or the encoder is unsound)", "inputs": xf[0][1]}
                xfail += 1
            if verdict == "discharged":
                n_dis += 1
            elif verdict == "refuted":
                if name in known:
                    # a recorded finding is reported on its own (KNOWN-FINDING line, coverage.known_findings_matched): it is neither a discharged obligation nor
                    # one this run claims to have decided anew, so it is not counted under obligations/discharged
                    known_hit.append((name, known[name]))
                    n_obl -= 1
                else:
                    violations.append((h, name, rec, r))
            else:
                undecided.append((h.name, name, verdict, (r.get("unsupported") or r.get("errors") or rec["notes"])[:2]))
            if len(samples) < 40:
                samples.append({"obligation": name, "harness": h.name, "mode": h.mode, "functions": h.fns,
                                "path_instances": rec["instances"], "verdict": verdict, "backends": rec["backends"],
                                "seconds": round(rec["seconds"], 3), "note": h.note})
        if xc.get("n_errors"):
            undecided.append((h.name, "*", "cross-check raised", xc["errors"][:1]))
        if xc.get("tried", 0) > 0 and xc.get("ran", 0) == 0 and not xc.get("n_errors"):
            undecided.append((h.name, "*", "cross-check vacuous", ["no native sample satisfied the harness's assumptions"]))
    rc = 0
    for name, f in known_hit:
        print(f"KNOWN-FINDING: property={prop} obligation={name} {f['what']}")
    os.makedirs(os.path.join(ROOT, "replays", prop), exist_ok=True)
    for h, name, rec, r in violations:
        rp = rec.get("replay") or {"confirmed": False, "inputs": None, "source": "none"}
        path = os.path.join("replays", prop, name.replace("/", "_") + ".json")
        json.dump({"property": prop, "obligation": name, "harness": h.name, "functions": r.get("functions"),
                   "confirmed_on_real_code": rp["confirmed"], "witness_source": rp["source"], "inputs": rp["inputs"],
                   "solver": rec["models"], "notes": rec.get("notes"), "path_instances": rec["instances"], "refuted_instances": rec["sat"],
                   "replay_cmd": f".venv/bin/python -m pyvc.cli replay {path}"},
                  open(os.path.join(ROOT, path), "w"), indent=1, default=str)
        tail = "" if rp["confirmed"] else " no-failing-input-found"
        print(f"VIOLATION property={prop} replay={path} obligation={name}{tail}")
        rc = 1
    for hn, name, verdict, why in undecided:
        print(f"UNDECIDED property={prop} harness={hn} obligation={name} {verdict} {why}")
    for hn, err in crashes:
        print(f"CRASH property={prop} harness={hn}\n{err}")
    if rc == 0 and undecided:
        rc = 2
    if crashes:
        rc = 3 if rc == 0 or rc == 2 else rc
    from .evidence import write_evidence
    write_evidence(ROOT, prop, tier, seed, time.time() - t0, n_obl, n_dis, samples, functions, sorted(lemmas), backends,
                   solver_s, paths, xran, len(violations), [k for k, _ in known_hit], bounded, hs, undecided,
                   {"uf": sorted(ufs), "shims": sorted(shims_used), "stubbed": sorted(stubbed)})
    print(f"{prop}: obligations={n_obl} discharged={n_dis} known-findings={len(known_hit)} violations={len(violations)} "
          f"undecided={len(undecided)} paths={paths} xcheck-runs={xran} solver={solver_s:.1f}s wall={time.time()-t0:.1f}s")
    return rc


def cmd_replay(path):
    sys.path.insert(0, ROOT)
    from . import harness
    d = json.load(open(path if os.path.isabs(path) else os.path.join(ROOT, path)))
    hs = _load(d["property"])
    h = [x for x in hs if x.name == d["harness"]][0]
    if not d.get("inputs"):
        print("no concrete failing input was recorded for", d["obligation"], "(no-failing-input-found); solver output:")
        print(json.dumps(d["solver"], indent=1))
        return 0
    ran, fails, errors = harness.run_concrete(h, d["inputs"], 0, 1)
    print("inputs:", d["inputs"])
    print("failing ensures on the real code:", [f[0] for f in fails], "errors:", errors)
    return 1 if any(f[0] == d["obligation"] for f in fails) else 0


def main(argv=None):
    ap = argparse.ArgumentParser()
    sub = ap.add_subparsers(dest="cmd", required=True)
    c = sub.add_parser("check")
    c.add_argument("prop")
    c.add_argument("--tier", default=os.environ.get("VERIF_TIER", "quick"))
    c.add_argument("--jobs", type=int, default=int(os.environ.get("PYVC_JOBS", "16")))
    r = sub.add_parser("replay")
    r.add_argument("path")
    a = ap.parse_args(argv)
    if a.cmd == "check":
        try:
            return cmd_check(a.prop, a.tier if a.tier in ("quick", "thorough") else "quick", a.jobs)
        except SystemExit:
            raise
        except BaseException:
            traceback.print_exc()
            return 3
    return cmd_replay(a.path)


if __name__ == "__main__":
    sys.exit(main())
