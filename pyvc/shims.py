"""Library contracts (trusted) for the non-ufunc numpy/scipy/builtin functions the real code calls.

A shim is installed in the *globals of the extracted function* in place of the library object it
shadows (matched by identity, so `from numpy import sum as np_sum` is covered).  On concrete
arguments every shim falls through to the real library function.
"""
from __future__ import annotations

import builtins
import math

import numpy as np
import scipy.linalg
import z3

from . import orth, sym
from .sym import GVec, SBool, SNum, Unsupported, ctx


def has_sym(x):
    if isinstance(x, (SNum, SBool, GVec)):
        return True
    if isinstance(x, np.ndarray):
        return x.dtype == object and any(isinstance(e, (SNum, SBool)) for e in x.flat)
    if isinstance(x, (list, tuple)):
        return any(has_sym(e) for e in x)
    return False


def _obj(a):
    if isinstance(a, np.ndarray) and a.dtype == object:
        return a
    return np.array(a, dtype=object)


def s_array(obj, dtype=None, *a, **kw):
    if isinstance(obj, (orth.LState, orth.LVec, GVec)):
        return obj
    if isinstance(obj, (list, tuple)) and len(obj) == 3 and all(isinstance(e, GVec) for e in obj):
        return sym.GFrame(obj)
    if has_sym(obj):
        if isinstance(obj, (SNum, SBool)):
            return obj
        return _to_obj_array(obj)
    return np.array(obj, _UNSHIM.get(dtype, dtype), *a, **kw)


def _to_obj_array(obj):
    # nested lists of scalars / 1-d arrays -> object ndarray of the right shape
    def shape_of(o):
        if isinstance(o, np.ndarray):
            return o.shape
        if isinstance(o, (list, tuple)):
            if not o:
                return (0,)
            return (len(o),) + shape_of(o[0])
        return ()

    shp = shape_of(obj)
    out = np.empty(shp, dtype=object)

    def fill(o, idx):
        if isinstance(o, np.ndarray):
            if o.shape == ():
                out[idx] = o.item()
            else:
                for i in range(o.shape[0]):
                    fill(o[i], idx + (i,))
        elif isinstance(o, (list, tuple)):
            for i, e in enumerate(o):
                fill(e, idx + (i,))
        else:
            out[idx] = o

    fill(obj, ())
    return out


def s_asarray(obj, dtype=None, *a, **kw):
    if isinstance(obj, np.ndarray) and obj.dtype == object:
        return obj
    return s_array(obj, dtype)


def _sym_alloc(fill):
    def f(shape, dtype=None, *a, **kw):
        if sym._CTX is None:
            return getattr(np, fill)(shape, _UNSHIM.get(dtype, dtype), *a, **kw)
        out = np.empty(shape, dtype=object)
        out[...] = 0 if fill == "zeros" else (1 if fill == "ones" else 0)
        if _UNSHIM.get(dtype, dtype) in (bool, np.bool_):
            out[...] = fill == "ones"
        return out
    return f


s_zeros = _sym_alloc("zeros")
s_ones = _sym_alloc("ones")
s_empty = _sym_alloc("empty")


def s_full(shape, fill_value, dtype=None, *a, **kw):
    if sym._CTX is None:
        return np.full(shape, fill_value, dtype, *a, **kw)
    out = np.empty(shape, dtype=object)
    out[...] = fill_value
    return out


def s_zeros_like(a, *x, **kw):
    return s_zeros(np.shape(a))


def s_ones_like(a, *x, **kw):
    return s_ones(np.shape(a))


def s_empty_like(a, *x, **kw):
    return s_zeros(np.shape(a))


def s_eye(n, *a, **kw):
    if sym._CTX is None:
        return np.eye(n, *a, **kw)
    out = s_zeros((n, n))
    for i in range(n):
        out[i, i] = 1
    return out


def s_dot(a, b):
    if isinstance(a, (orth.LMat, orth.LVec)) or isinstance(b, (orth.LVec, orth.LMat)):
        return _ldot_or_mul(a, b)
    if isinstance(a, GVec) or isinstance(b, GVec):
        return sym.gdot(a, b)
    if has_sym(a) or has_sym(b):
        return np.dot(_obj(a), _obj(b))
    return np.dot(a, b)


def _ldot_or_mul(a, b):
    if isinstance(a, orth.LVec) and isinstance(b, orth.LVec):
        return orth.ldot(a, b)
    if isinstance(a, orth.LMat):
        return a._mul(b)
    raise Unsupported("concrete matrix applied to an abstract vector")


def s_vdot(a, b):
    if isinstance(a, orth.LVec) and isinstance(b, orth.LVec):
        return orth.ldot(a, b)
    if isinstance(a, GVec) or isinstance(b, GVec):
        return sym.gdot(a, b)
    if has_sym(a) or has_sym(b):
        return np.dot(_obj(a).ravel(), _obj(b).ravel())
    return np.vdot(a, b)


def s_matmul(a, b):
    if isinstance(a, sym.GFrame):
        return a.apply(b)
    if isinstance(a, (orth.LMat, orth.LVec)) or isinstance(b, (orth.LVec, orth.LMat)):
        return _ldot_or_mul(a, b)
    if has_sym(a) or has_sym(b):
        return np.dot(_obj(a), _obj(b))
    return np.matmul(a, b)


def s_norm(a, *args, **kw):
    if isinstance(a, orth.LVec):
        return sym.fn_sqrt(orth.ldot(a, a))
    if isinstance(a, GVec):
        return sym.gnorm(a)
    if has_sym(a):
        if args or kw:
            raise Unsupported("norm(ord/axis) on symbolic array")
        a = _obj(a).ravel()
        return sym.fn_sqrt(np.dot(a, a))
    return scipy.linalg.norm(a, *args, **kw)


def s_cross(a, b):
    if isinstance(a, GVec) and isinstance(b, GVec):
        return sym.gcross(a, b)
    if isinstance(b, orth.LVec):
        return orth.skew_of(a)._mul(b)
    if isinstance(a, orth.LVec):
        return -(orth.skew_of(b)._mul(a))
    if has_sym(a) or has_sym(b):
        a, b = _obj(a), _obj(b)
        return np.array([a[1] * b[2] - a[2] * b[1], a[2] * b[0] - a[0] * b[2], a[0] * b[1] - a[1] * b[0]], dtype=object)
    return np.cross(a, b)


def s_concatenate(arrs, axis=0, **kw):
    arrs = list(arrs)
    if len(arrs) == 2 and all(isinstance(a, (orth.LVec, GVec)) for a in arrs):
        return orth.LState(arrs[0], arrs[1])
    if any(has_sym(a) for a in arrs):
        return np.concatenate([_obj(a) for a in arrs], axis=axis, **kw)
    return np.concatenate(arrs, axis=axis, **kw)


def s_clip(a, lo, hi):
    if has_sym(a) or has_sym(lo) or has_sym(hi):
        f = lambda e: sym.Ite(sym.sbool(e < lo), lo, sym.Ite(sym.sbool(e > hi), hi, e))
        return sym._elementwise(f, a)
    return np.clip(a, lo, hi)


def s_around(a, decimals=0, *x, **kw):
    if has_sym(a):
        if decimals != 0:
            raise Unsupported("around(decimals!=0) on symbolic")
        return sym._elementwise(sym.fn_round_half_even, a)
    return np.around(a, decimals, *x, **kw)


def s_where(*args):
    if len(args) == 3:
        c, a, b = args
        if has_sym(c) or has_sym(a) or has_sym(b):
            return sym._elementwise(lambda cc, aa, bb: sym.Ite(cc, aa, bb) if isinstance(cc, SBool) else (aa if cc else bb), _obj(c) if isinstance(c, (list, np.ndarray)) else c, _obj(a) if isinstance(a, (list, np.ndarray)) else a, _obj(b) if isinstance(b, (list, np.ndarray)) else b)
        return np.where(c, a, b)
    if has_sym(args[0]):
        c = _obj(args[0])
        if c.ndim != 1:
            raise Unsupported("where(cond) with a symbolic condition of dimension != 1")
        return (np.array([i for i, e in enumerate(c) if bool(e)], dtype=int),)  # one path per outcome of each entry
    return np.where(*args)


def s_sum(a, *args, **kw):
    return np.sum(_obj(a) if has_sym(a) else a, *args, **kw)


def s_any(a, *args, **kw):
    if has_sym(a):
        if args or kw:
            raise Unsupported("any(axis) on symbolic")
        return sym.Or(list(_obj(a).flat))
    return np.any(a, *args, **kw)


def s_all(a, *args, **kw):
    if has_sym(a):
        if args or kw:
            raise Unsupported("all(axis) on symbolic")
        return sym.And(list(_obj(a).flat))
    return np.all(a, *args, **kw)


def s_isclose(a, b, rtol=1e-05, atol=1e-08, **kw):
    if has_sym(a) or has_sym(b):
        return sym._elementwise(lambda x, y: abs(x - y) <= atol + rtol * abs(y), a, b)
    return np.isclose(a, b, rtol, atol, **kw)


def s_allclose(a, b, rtol=1e-05, atol=1e-08, **kw):
    return s_all(s_isclose(a, b, rtol, atol))


def s_array_equal(a, b, **kw):
    if has_sym(a) or has_sym(b):
        a, b = _obj(a), _obj(b)
        if a.shape != b.shape:
            return False
        return sym.And([x == y for x, y in zip(a.flat, b.flat)])
    return np.array_equal(a, b, **kw)


def s_max(a, *args, **kw):
    if has_sym(a):
        if args or kw:
            raise Unsupported("max(axis) symbolic")
        acc = None
        for e in _obj(a).flat:
            acc = e if acc is None else sym._u_max(acc, e)
        return acc
    return np.max(a, *args, **kw)


def s_min(a, *args, **kw):
    if has_sym(a):
        if args or kw:
            raise Unsupported("min(axis) symbolic")
        acc = None
        for e in _obj(a).flat:
            acc = e if acc is None else sym._u_min(acc, e)
        return acc
    return np.min(a, *args, **kw)


def s_argmax(a, axis=None, **kw):
    """first index of a maximal element (numpy contract), chosen by path split."""
    if has_sym(a):
        a = _obj(a)
        if axis is None:
            flat = list(a.flat)
            best = 0
            for i in range(1, len(flat)):
                if flat[i] > flat[best]:  # symbolic comparison -> path split
                    best = i
            return best
        if a.ndim == 2 and axis == 0:
            return np.array([s_argmax(a[:, j]) for j in range(a.shape[1])])
        if a.ndim == 2 and axis == 1:
            return np.array([s_argmax(a[i, :]) for i in range(a.shape[0])])
        raise Unsupported("argmax axis")
    return np.argmax(a, axis, **kw)


def s_det(a, *x, **kw):
    if has_sym(a):
        a = _obj(a)
        n = a.shape[0]
        if n == 1:
            return a[0, 0]
        if n == 2:
            return a[0, 0] * a[1, 1] - a[0, 1] * a[1, 0]
        if n == 3:
            return (a[0, 0] * (a[1, 1] * a[2, 2] - a[1, 2] * a[2, 1]) - a[0, 1] * (a[1, 0] * a[2, 2] - a[1, 2] * a[2, 0])
                    + a[0, 2] * (a[1, 0] * a[2, 1] - a[1, 1] * a[2, 0]))
        raise Unsupported("det n>3 symbolic")
    return scipy.linalg.det(a, *x, **kw)


def s_inv(a, *x, **kw):
    """inverse by contract: explicit adjugate for n<=2, otherwise fresh X with A X = I (det != 0)."""
    if has_sym(a):
        a = _obj(a)
        n = a.shape[0]
        if n == 1:
            return np.array([[1 / a[0, 0]]], dtype=object)
        if n == 2:
            d = a[0, 0] * a[1, 1] - a[0, 1] * a[1, 0]
            return np.array([[a[1, 1] / d, -a[0, 1] / d], [-a[1, 0] / d, a[0, 0] / d]], dtype=object)
        c = ctx()
        X = np.empty((n, n), dtype=object)
        for i in range(n):
            for j in range(n):
                X[i, j] = SNum(c.fresh("inv"))
        P = np.dot(a, X)
        Q = np.dot(X, a)
        for i in range(n):
            for j in range(n):
                c.add_axiom(sym.term(P[i, j] == (1 if i == j else 0)))
                c.add_axiom(sym.term(Q[i, j] == (1 if i == j else 0)))
        return X
    return scipy.linalg.inv(a, *x, **kw)


def s_outer(a, b):
    if has_sym(a) or has_sym(b):
        a, b = _obj(a).ravel(), _obj(b).ravel()
        out = np.empty((len(a), len(b)), dtype=object)
        for i in range(len(a)):
            for j in range(len(b)):
                out[i, j] = a[i] * b[j]
        return out
    return np.outer(a, b)


def s_trace(a, *x, **kw):
    if has_sym(a):
        a = _obj(a)
        acc = 0
        for i in range(min(a.shape)):
            acc = acc + a[i, i]
        return acc
    return np.trace(a, *x, **kw)


def s_diagflat(v, *x, **kw):
    if has_sym(v):
        v = _obj(v).ravel()
        out = s_zeros((len(v), len(v)))
        for i, e in enumerate(v):
            out[i, i] = e
        return out
    return np.diagflat(v, *x, **kw)


def s_diag(v, *x, **kw):
    if has_sym(v):
        v = _obj(v)
        if v.ndim == 1:
            return s_diagflat(v)
        return np.array([v[i, i] for i in range(min(v.shape))], dtype=object)
    return np.diag(v, *x, **kw)


def s_block_diag(*arrs):
    if any(has_sym(a) for a in arrs):
        arrs = [np.atleast_2d(_obj(a)) for a in arrs]
        n = sum(a.shape[0] for a in arrs)
        m = sum(a.shape[1] for a in arrs)
        out = s_zeros((n, m))
        i = j = 0
        for a in arrs:
            out[i:i + a.shape[0], j:j + a.shape[1]] = a
            i += a.shape[0]
            j += a.shape[1]
        return out
    return scipy.linalg.block_diag(*arrs)


CHOL_REGISTRY = {}


def s_cholesky(a, *x, **kw):
    """numpy.linalg.cholesky by contract: the lower-triangular factor L with positive diagonal and L L^T = A (unique for
    positive-definite A).  If the harness built A from a known factor (registered), that factor is returned; otherwise a
    fresh lower-triangular L with the defining equations as hypotheses."""
    if not has_sym(a):
        return np.linalg.cholesky(a, *x, **kw)
    a = _obj(a)
    c = ctx()
    reg = c.__dict__.setdefault("_chol", [])
    for (A0, L0) in reg:
        if A0.shape == a.shape and all(sym.term(p).eq(sym.term(q)) for p, q in zip(A0.flat, a.flat)):
            return L0.copy()
    n = a.shape[0]
    L = np.full((n, n), 0, dtype=object)
    k = len(reg)
    for i in range(n):
        for j in range(i + 1):
            L[i, j] = SNum(z3.Real(f"chol{k}[{i},{j}]"))
        c.add_axiom(sym.term(L[i, i] > 0))
    P = np.dot(L, L.T)
    for i in range(n):
        for j in range(i + 1):
            c.add_axiom(sym.term(P[i, j] == a[i, j]))
    reg.append((a, L))
    return L.copy()


def register_cholesky(A, L):
    ctx().__dict__.setdefault("_chol", []).append((_obj(A), _obj(L)))


def s_multi_dot(arrays, *a, **kw):
    arrays = list(arrays)
    if any(isinstance(x, (orth.LMat, orth.LVec)) or has_sym(x) for x in arrays):
        acc = arrays[0]
        for x in arrays[1:]:
            acc = s_matmul(acc, x)
        return acc
    return np.linalg.multi_dot(arrays, *a, **kw)


def s_delete(arr, idx, axis=None):
    if isinstance(arr, np.ndarray) and arr.dtype == object:
        return np.array([e for k, e in enumerate(arr.ravel()) if k not in set(np.atleast_1d(idx).tolist())], dtype=object) \
            if (axis is None and arr.ndim == 1) else np.delete(arr, idx, axis)
    return np.delete(arr, idx, axis)


def s_fill_diagonal(a, val, wrap=False):
    for i in range(min(a.shape)):
        a[i, i] = val


def s_linear_sum_assignment(cost, maximize=False):
    """scipy.optimize.linear_sum_assignment by contract: returns a complete one-to-one assignment (row indices ascending)
    whose total is optimal among ALL complete one-to-one assignments of the matrix it was given.  Which optimal
    assignment is returned is not specified: one path per candidate, each assuming its optimality."""
    import itertools
    import scipy.optimize
    if not has_sym(cost):
        return scipy.optimize.linear_sum_assignment(cost, maximize)
    c = ctx()
    a = _obj(cost)
    n, m = a.shape
    c.__dict__.setdefault("lsa_calls", []).append((a, maximize))
    k = min(n, m)
    if n <= m:
        cands = [(tuple(range(n)), cols) for cols in itertools.permutations(range(m), n)]
    else:
        cands = [(rows, perm) for rows in itertools.combinations(range(n), m) for perm in itertools.permutations(range(m), m)]
    totals = []
    for rows, cols in cands:
        t = 0
        for i, j in zip(rows, cols):
            t = t + a[i, j]
        totals.append(t)
    sel = SNum(c.fresh("lsa", "int"))
    c.assume(sym.And(sel >= 0, sel < len(cands)))
    for idx in range(len(cands)):
        if sel == idx:  # path split
            for other in range(len(cands)):
                if other != idx:
                    c.assume(sym.sbool(totals[idx] >= totals[other]) if maximize else sym.sbool(totals[idx] <= totals[other]))
            rows, cols = cands[idx]
            return np.array(rows), np.array(cols)
    raise sym.PathAbort()


# ---- builtins
class b_int(int):
    """`int` as seen by extracted code: truncation contract on symbolic numbers, the builtin otherwise."""

    def __new__(cls, x=0, *a):
        if isinstance(x, SNum):
            return sym.fn_trunc(x)
        if isinstance(x, SBool):
            return SNum(z3.If(x.t, z3.IntVal(1), z3.IntVal(0)))
        return builtins.int(x, *a)


class b_float(float):
    def __new__(cls, x=0.0):
        if hasattr(x, "_pyvc_value"):
            return b_float(x._pyvc_value())
        if isinstance(x, SNum):
            return SNum(sym._real(x.t), x.deg) if x.is_int else x
        if isinstance(x, np.ndarray) and x.dtype == object and x.shape in ((), (1,)):
            return b_float(x.reshape(-1)[0])
        return builtins.float(x)


class b_range:
    """range() as seen by extracted code.  With a symbolic bound the loop body is executed for ONE representative
    index i (0 <= i < n, fresh) when n > 0 is feasible; the requested count is recorded on the context
    (`ctx.range_counts`) so that a contract can state how many iterations Python performs (range semantics: trusted)."""

    def __new__(cls, *a):
        if not any(isinstance(x, SNum) for x in a):
            return builtins.range(*[builtins.int(x) for x in a])
        o = object.__new__(cls)
        if len(a) != 1:
            raise Unsupported("range(start, stop) with symbolic bounds")
        o.n = a[0]
        return o

    def __iter__(self):
        c = ctx()
        c.__dict__.setdefault("range_counts", []).append(self.n)
        if self.n > 0:  # path split
            i = SNum(c.fresh("i", "int"))
            c.assume(sym.And(i >= 0, i < self.n))
            yield i


def b_bool(x=False):
    if isinstance(x, SBool):
        return x
    if isinstance(x, SNum):
        return SBool(x.t != 0)
    return builtins.bool(x)


def b_round(x, nd=None):
    if hasattr(x, "_pyvc_value"):
        x = x._pyvc_value()
    if isinstance(x, SNum):
        return x.__round__(nd)
    return builtins.round(x, nd) if nd is not None else builtins.round(x)


_NUMERIC_TYPES = (float, int, np.floating, np.integer)


_UNSHIM = {}


def b_isinstance(x, t):
    if isinstance(t, tuple):
        t = tuple(_UNSHIM.get(tt, tt) for tt in t)
    else:
        t = _UNSHIM.get(t, t)
    if isinstance(x, SNum):
        ts = t if isinstance(t, tuple) else (t,)
        if x.is_int:
            if any(tt in (int, np.integer) for tt in ts):
                return True
            return builtins.isinstance(x, t)
        if any(tt in (float, np.floating, np.float64) for tt in ts):
            return True
        return builtins.isinstance(x, t)
    if isinstance(x, SBool):
        ts = t if isinstance(t, tuple) else (t,)
        if any(tt in (bool, np.bool_) for tt in ts):
            return True
    return builtins.isinstance(x, t)


def m_floor(x):
    return sym.fn_floor(x) if isinstance(x, SNum) else math.floor(x)


def _m1(name, f):
    cf = getattr(math, name)
    return lambda x: f(x) if isinstance(x, SNum) else cf(x)


BY_IDENTITY = {}


SHIMS_USED = set()


def _reg(real, shim):
    import functools
    label = f"{getattr(real, '__module__', '') or ''}.{getattr(real, '__name__', str(real))}"

    @functools.wraps(shim)
    def w(*a, **k):
        if sym._CTX is not None:
            SHIMS_USED.add(label)
        return shim(*a, **k)
    BY_IDENTITY[id(real)] = w


for _r, _s in [
    (np.array, s_array), (np.asarray, s_asarray), (np.zeros, s_zeros), (np.ones, s_ones), (np.empty, s_empty),
    (np.full, s_full), (np.zeros_like, s_zeros_like), (np.ones_like, s_ones_like), (np.empty_like, s_empty_like),
    (np.eye, s_eye), (np.concatenate, s_concatenate), (np.dot, s_dot), (np.vdot, s_vdot), (np.matmul, s_matmul), (np.linalg.norm, s_norm),
    (scipy.linalg.norm, s_norm), (np.cross, s_cross), (np.clip, s_clip), (np.around, s_around), (np.round, s_around),
    (np.where, s_where), (np.sum, s_sum), (np.any, s_any), (np.all, s_all), (np.isclose, s_isclose),
    (np.allclose, s_allclose), (np.array_equal, s_array_equal), (np.max, s_max), (np.amax, s_max), (np.min, s_min),
    (np.amin, s_min), (np.argmax, s_argmax), (scipy.linalg.det, s_det), (np.linalg.det, s_det),
    (scipy.linalg.inv, s_inv), (np.linalg.inv, s_inv), (np.outer, s_outer), (np.trace, s_trace),
    (np.diagflat, s_diagflat), (np.diag, s_diag), (scipy.linalg.block_diag, s_block_diag),
    (__import__("scipy.optimize", fromlist=["x"]).linear_sum_assignment, s_linear_sum_assignment),
    (np.linalg.multi_dot, s_multi_dot), (np.delete, s_delete), (np.fill_diagonal, s_fill_diagonal), (np.linalg.cholesky, s_cholesky),
    (math.floor, m_floor), (math.sin, _m1("sin", sym.fn_sin)), (math.cos, _m1("cos", sym.fn_cos)),
    (math.sqrt, _m1("sqrt", sym.fn_sqrt)), (math.asin, _m1("asin", sym.fn_arcsin)), (math.acos, _m1("acos", sym.fn_arccos)),
    (math.atan, _m1("atan", sym.fn_arctan)), (math.fabs, _m1("fabs", abs)), (math.exp, _m1("exp", sym.fn_exp)),
]:
    _reg(_r, _s)

def s_finfo(t=float):
    return np.finfo(_UNSHIM.get(t, t))


_reg(np.finfo, s_finfo)
_UNSHIM.update({b_int: int, b_float: float, b_bool: bool})
from .symcoll import b_set  # noqa: E402

BUILTINS = {"set": b_set, "range": b_range, "int": b_int, "float": b_float, "bool": b_bool, "round": b_round, "isinstance": b_isinstance}


class ShimModule:
    """Proxy for `import numpy as np`-style access: attribute lookups go through BY_IDENTITY."""

    def __init__(self, real):
        object.__setattr__(self, "_real", real)

    def __getattr__(self, name):
        v = getattr(object.__getattribute__(self, "_real"), name)
        s = BY_IDENTITY.get(id(v))
        if s is not None:
            return s
        import types
        if isinstance(v, types.ModuleType) and v.__name__.split(".")[0] in ("numpy", "scipy", "math"):
            return ShimModule(v)
        return v
