"""Path exploration by decision replay + the per-path verification context.

A harness (contract) is an ordinary Python function of one argument `vc`.  It creates symbolic
inputs, states `vc.assume(...)` (requires), calls the *real* function bodies obtained through
`vc.fn(...)` and states `vc.ensure(name, ...)` (ensures).  The explorer runs the harness once per
feasible path: whenever the executed code takes the truth value of a symbolic condition the
context consults the decision prefix; beyond the prefix it asks z3 which outcomes are feasible,
follows one and queues the other.  Every `ensure` reached on a path yields one verification
condition   axioms /\\ path-condition  ==>  goal.
"""
from __future__ import annotations

import itertools
import math
import time
from fractions import Fraction

import z3

from . import sym
from .sym import PathAbort, SBool, SNum, Unsupported

UF_USED = set()
NORAISE = "noraise"
U = Fraction(1, 2 ** 53)  # unit round-off of binary64, round to nearest


class Obl:
    __slots__ = ("name", "pc", "goal", "axioms", "path", "note")

    def __init__(self, name, pc, goal, axioms, path, note=""):
        self.name, self.pc, self.goal, self.axioms, self.path, self.note = name, pc, goal, axioms, path, note


class Ctx:
    def __init__(self, prefix, opts):
        self.prefix = list(prefix)
        self.decisions = []
        self.alts = []
        self.pc = []
        self.opts = opts
        self.fmode = False
        self.in_code = 0
        self.norm_angles = bool(opts.get("norm_angles", False))
        self.solver = z3.Solver()
        self.solver.set("timeout", opts.get("branch_timeout_ms", 1500))
        self.uf = {}  # (name, argids) -> const
        self.uf_list = []  # (name, [args], const)
        self.gram_names = []
        self.gram_c = {}
        self.round_c = {}
        self.extra_axioms = []
        self._ax_done = 0
        self.obls = []
        self.covers = []
        self.fresh_n = itertools.count()
        self._pi = None
        self.period = None
        self.domain_checks = opts.get("domain_checks", False)
        self.in_spec = False
        self.n_branch_checks = 0
        self.trace = []

    # ---- symbols
    def fresh(self, base, sort="real"):
        n = f"{base}!{next(self.fresh_n)}"
        return z3.Int(n) if sort == "int" else (z3.Bool(n) if sort == "bool" else z3.Real(n))

    def pi(self):
        """pi as a symbolic constant with a rational enclosure (DESIGN 3.4)."""
        if self._pi is None:
            p = z3.Real("pi")
            self._pi = SNum(p, 1)
            if self.norm_angles:
                # angle unit normalised to turns (DESIGN 3.4a): sound because every operation executed
                # under this context is checked to be homogeneous in the angle unit (SNum.deg)
                self.add_axiom(p == z3.Q(1, 2))
            else:
                self.add_axiom(z3.And(p > z3.Q(314159265, 100000000), p < z3.Q(314159266, 100000000)))
        return self._pi

    def N(self, t):
        """In angle-normalised contexts the symbol pi is replaced by the numeral 1/2 (keeps VCs linear)."""
        if self.norm_angles:
            return z3.substitute(t, (z3.Real("pi"), z3.Q(1, 2)))
        return t

    def add_axiom(self, a):
        a = self.N(a)
        self.extra_axioms.append(a)
        self.solver.add(a)

    # ---- branching
    def _feasible(self, c):
        self.n_branch_checks += 1
        self.solver.push()
        self.solver.add(c)
        # z3 does not always honour its own time-out (nonlinear / to_int goals): a watchdog interrupts the check; "interrupted" counts as
        # "maybe feasible" (the path is explored, its obligations then go to the forked back ends with a hard limit)
        import threading
        wd = threading.Timer(self.opts.get("branch_timeout_ms", 1500) / 1000.0 + 1.0, lambda: z3.main_ctx().interrupt())
        wd.daemon = True
        wd.start()
        try:
            r = self.solver.check()
        except z3.Z3Exception:
            r = z3.unknown
        finally:
            wd.cancel()
        self.solver.pop()
        return r != z3.unsat

    def branch(self, cond):
        cond = z3.simplify(self.N(cond))
        if z3.is_true(cond):
            return True
        if z3.is_false(cond):
            return False
        i = len(self.decisions)
        if i < len(self.prefix):
            d = self.prefix[i]
        else:
            if len(self.decisions) > self.opts.get("max_depth", 400):
                raise Unsupported("path too deep (unbounded symbolic loop?)")
            if getattr(self, "deadline", None) is not None and time.time() > self.deadline:
                raise Unsupported(f"exploration budget of {self.opts.get('max_explore_s', 300)} s exceeded inside a path")
            self._flush_axioms()
            ct = self._feasible(cond)
            cf = self._feasible(z3.Not(cond))
            if ct and cf:
                d = True
                self.alts.append(self.decisions + [False])
            elif ct:
                d = True
            elif cf:
                d = False
            else:
                raise PathAbort()
        self.decisions.append(d)
        c = cond if d else z3.Not(cond)
        self.pc.append(c)
        self.solver.add(c)
        return d

    def assume(self, cond):
        if isinstance(cond, (bool,)) or not isinstance(cond, (SBool, z3.ExprRef)):
            if not bool(cond):
                raise PathAbort()
            return
        t = self.N(cond.t if isinstance(cond, SBool) else cond)
        self.pc.append(t)
        self.solver.add(t)

    def ensure(self, name, cond, note=""):
        if isinstance(cond, SBool):
            goal = cond.t
        elif isinstance(cond, z3.ExprRef):
            goal = cond
        else:
            goal = z3.BoolVal(bool(cond))
        self._flush_axioms()
        o = Obl(name, list(self.pc), self.N(goal), None, list(self.decisions), note)
        o.axioms = len(self.extra_axioms)  # prefix of the axiom list that exists at this point
        self.obls.append(o)

    # ---- function symbols
    def uf_app(self, name, args):
        args = [z3.simplify(a) for a in args]
        key = (name, tuple(a.get_id() for a in args))
        c = self.uf.get(key)
        if c is None:
            UF_USED.add(name)
            c = self.fresh(name)
            self.uf[key] = c
            self.uf_list.append((name, args, c))
        return c

    def gram_base(self, name):
        if name not in self.gram_names:
            self.gram_names.append(name)

    def gram(self, a, b):
        if a > b:
            a, b = b, a
        k = (a, b)
        if k not in self.gram_c:
            self.gram_c[k] = z3.Real(f"G<{a}.{b}>")
        return self.gram_c[k]

    def spacing(self, a):
        c = self.uf_app("spacing", [sym._real(sym._as_arith(a))])
        return SNum(c)

    # ---- rounded reals (mode F)
    # A float operation yields (i) the exact value when that value is provably representable: integers (< 2**53,
    # assumption), multiples of 2**-k whose magnitude is shown < 2**(53-k) by a solver query under the path condition,
    # scaling by powers of two, Sterbenz subtraction; (ii) otherwise a deterministic rounding constant r (one per exact
    # term) with  |r-e| <= 2**-53 |e|,  floor(e) <= r <= floor(e)+1  and  e integral -> r = e  (round-to-nearest is
    # monotone and fixes representable numbers).
    def _dyk(self, t):
        if t.sort() == z3.IntSort():
            return 0
        if z3.is_app(t) and t.decl().kind() == z3.Z3_OP_TO_REAL:
            return 0
        v = sym._num_val(t) if z3.is_rational_value(t) or z3.is_int_value(t) else None
        if v is not None:
            d = v.denominator
            if d & (d - 1) == 0:
                return d.bit_length() - 1
            return None
        e = self.__dict__.setdefault("dy", {}).get(t.get_id())
        return e[1] if e else None

    def set_dyadic(self, t, k):
        self.__dict__.setdefault("dy", {})[t.get_id()] = (t, k)

    def _mag_ok(self, exact, k):
        if k == 0:
            return True  # integers are assumed to stay below 2**53 (listed assumption)
        if k > 52:
            return False
        bound = z3.IntVal(2 ** (53 - k))
        self._flush_axioms()
        self.solver.push()
        self.solver.add(z3.Or(exact >= z3.ToReal(bound), exact <= -z3.ToReal(bound)))
        self.solver.set("timeout", 1000)
        r = self.solver.check()
        self.solver.pop()
        self.solver.set("timeout", self.opts.get("branch_timeout_ms", 1500))
        return r == z3.unsat

    def round_op(self, op, ta, tb):
        if op in ("floordiv", "mod", "pow") and not (ta.sort() == z3.IntSort() and tb.sort() == z3.IntSort()):
            if op == "pow" and sym._num_val(tb) == 2:
                return self.round_op("mul", ta, ta)
            if op in ("floordiv", "mod") and self._dyk(ta) == 0 and self._dyk(tb) == 0:
                return SNum(z3.simplify(sym._arith_exact(op, ta, tb)))  # integer-valued floats: exact
            raise Unsupported(f"float {op} in F-mode")
        exact = z3.simplify(sym._arith_exact(op, ta, tb))
        v = sym._num_val(exact)
        if v is not None:
            fv = Fraction(float(v))  # correctly rounded by CPython
            return SNum(z3.Q(fv.numerator, fv.denominator))
        if exact.sort() == z3.IntSort():
            return SNum(exact)
        ka, kb = self._dyk(ta), self._dyk(tb)
        if op in ("mul", "div"):
            other = sym._num_val(tb) if op == "div" or ka is not None else None
            if other is None and op == "mul":
                other = sym._num_val(ta)
                kk = kb
            else:
                kk = ka
            if other is not None and other != 0:
                n, d = abs(other.numerator), other.denominator
                if (n & (n - 1)) == 0 and (d & (d - 1)) == 0:  # scaling by a power of two is exact
                    if kk is not None:
                        sh = (d.bit_length() - 1) - (n.bit_length() - 1)
                        self.set_dyadic(exact, max(0, kk + (sh if op == "mul" else -sh)))
                    return SNum(exact)
        if ka is not None and kb is not None:
            k = max(ka, kb) if op in ("add", "sub") else (ka + kb if op == "mul" else None)
            if k is not None and self._mag_ok(exact, k):
                self.set_dyadic(exact, k)
                return SNum(exact)
        key = exact.get_id()
        r = self.round_c.get(key)
        if r is None:
            r = self.fresh("fl")
            self.round_c[key] = (r, exact)
            u = z3.Q(U.numerator, U.denominator)
            ae = z3.If(exact >= 0, exact, -exact)
            fl = z3.ToReal(z3.ToInt(exact))
            ax = [z3.And(r - exact <= u * ae, exact - r <= u * ae), z3.And(fl <= r, r <= fl + 1), z3.Implies(exact == fl, r == exact)]
            if op == "div" and self._dyk(ta) == 0 and self._dyk(tb) == 0:
                # quotient of two integers 0 <= a < 2**53, b > 0: the next integer above a/b is at least 1/b away,
                # the rounding error is at most 2**-53 * a/b < 1/b, so rounding cannot reach it: floor(fl(a/b)) = floor(a/b)
                ax.append(z3.Implies(z3.And(sym._real(ta) >= 0, sym._real(tb) > 0), z3.ToInt(r) == z3.ToInt(exact)))
            if op in ("add", "sub"):
                a_, b_ = sym._real(ta), sym._real(tb if op == "sub" else -tb)
                # Sterbenz: b/2 <= a <= 2b (same sign)  ->  a - b is exact
                ax.append(z3.Implies(z3.Or(z3.And(b_ > 0, a_ >= b_ / 2, a_ <= 2 * b_), z3.And(b_ < 0, a_ <= b_ / 2, a_ >= 2 * b_)), r == exact))
            for a in ax:
                self.add_axiom(a)
        else:
            r = r[0]
        return SNum(r)

    def _int_valued(self, t):
        return self._dyk(t) == 0

    # ---- axioms
    def _flush_axioms(self):
        from .axioms import instantiate, gram_axioms
        new = instantiate(self, self._ax_done)
        self._ax_done = len(self.uf_list)
        if len(self.gram_names) != getattr(self, "_gram_done", 0):
            # re-instantiated for the enlarged set of base vectors (duplicates are harmless)
            self._gram_done = len(self.gram_names)
            new = new + gram_axioms(self)
        for a in new:
            a = self.N(a)
            self.extra_axioms.append(a)
            self.solver.add(a)

    def all_axioms(self):
        from .axioms import gram_axioms
        self._flush_axioms()
        return list(self.extra_axioms)


class ExploreResult:
    def __init__(self):
        self.obls = []
        self.paths = 0
        self.aborted = 0
        self.unsupported = []
        self.errors = []
        self.branch_checks = 0
        self.seconds = 0.0


import re as _re
_re_proxy_type = _re.compile(r"(?<![\w.])(SNum|SBool|GVec|LVec|LMat|LState|SymSet|SymDict|GFrame)(?![\w(])")


def _attr_set_in_class_source(msg):
    """True iff msg is "'X' object has no attribute 'y'" and some method of a repository class named X assigns self.y"""
    import re
    import os
    m = re.match(r"'(\w+)' object has no attribute '(\w+)'", msg)
    if not m:
        return False
    cls, attr = m.groups()
    from . import extract
    pat_cls = re.compile(r"^class\s+" + re.escape(cls) + r"\b", re.M)
    pat_set = re.compile(r"self\." + re.escape(attr) + r"\s*(:[^=\n]*)?=[^=]")
    for root, _, files in os.walk(extract.REPO_SRC):
        for fn in files:
            if fn.endswith(".py"):
                try:
                    txt = open(os.path.join(root, fn), encoding="utf-8").read()
                except OSError:
                    continue
                mm = pat_cls.search(txt)
                if mm:
                    # the class body: up to the next top-level class/def
                    rest = txt[mm.start():]
                    nxt = re.search(r"^(class|def)\s", rest[1:], re.M)
                    body = rest[: nxt.start() + 1] if nxt else rest
                    if pat_set.search(body):
                        return True
    return False


def explore(harness, vc_factory, opts=None):
    """Run `harness(vc)` along every feasible path."""
    opts = opts or {}
    res = ExploreResult()
    t0 = time.time()
    work = [[]]
    max_paths = opts.get("max_paths", 4000)
    while work:
        prefix = work.pop()
        c = Ctx(prefix, opts)
        c.deadline = t0 + opts.get("max_explore_s", 300)
        sym.set_ctx(c)
        vc = vc_factory(c)
        try:
            harness(vc)
            res.paths += 1
        except PathAbort:
            res.aborted += 1
        except Unsupported as e:
            res.unsupported.append(f"{e} (path {c.decisions})")
            res.paths += 1
        except z3.Z3Exception as e:
            res.errors.append(f"z3: {e}")
        except (PathAbort, Unsupported):
            raise
        except Exception as e:
            # a library function that was handed a symbolic proxy it cannot digest (timedelta(seconds=SNum), int(SNum) inside C code, ...)
            # is a limit of this engine, not a property of the code: undecided, never a violation
            # (only the TYPE NAME of a proxy in a TypeError/AttributeError counts - "unsupported type ...: SNum", "'SNum' object has no attribute" -
            #  an error message of the real code that merely prints a symbolic value, e.g. safeArccos' ValueError, is the code raising)
            if isinstance(e, (TypeError, AttributeError, NotImplementedError)) and _re_proxy_type.search(str(e)):
                res.unsupported.append(f"{type(e).__name__}: {str(e)[:160]} (path {c.decisions})")
                res.paths += 1
                e = None
            elif isinstance(e, AttributeError) and getattr(e, "obj", None) is not None and (type(e.obj).__module__ or "").split(".")[0] in ("contracts", "pyvc") \
                    and not isinstance(e.obj, type):
                # the code asked a stand-in object written for the contract (a recorder, a stub clock ...) for something it does not model:
                # the harness has to be extended - undecided, never a violation
                res.unsupported.append(f"contract stand-in {type(e.obj).__name__} does not model attribute {getattr(e, 'name', '?')!r} (path {c.decisions})")
                res.paths += 1
                e = None
            elif isinstance(e, AttributeError) and _attr_set_in_class_source(str(e)):
                # an object built by the contract without running __init__ lacks an attribute that the class's own code assigns
                # (e.g. a field added to __init__ by a refactoring): the harness has to be extended - undecided, never a violation
                res.unsupported.append(f"harness does not initialise an attribute the class assigns itself: {str(e)[:160]} (path {c.decisions})")
                res.paths += 1
                e = None
            # the real code (or the contract) raised on this path: obligation "<harness>.noraise" = path infeasible
            if e is not None:
                import traceback as _tb
                tb = _tb.extract_tb(e.__traceback__)
                if tb and ("/contracts/" in tb[-1].filename or "/pyvc/" in tb[-1].filename) and not isinstance(e, AssertionError) \
                        and not any("/resonaate/" in f.filename for f in tb[-2:]):
                    # raised by the contract text / the engine itself, not by the code under contract: an error of this machinery (never a violation)
                    res.errors.append(f"contract error: {type(e).__name__}: {str(e)[:160]} at {tb[-1].filename.split('/')[-1]}:{tb[-1].lineno}")
                    res.paths += 1
                    e = None
            if e is not None:
                import traceback as _tb
                tb = _tb.extract_tb(e.__traceback__)
                where = next((f"{f.filename.split('/')[-1]}:{f.lineno}" for f in reversed(tb) if "/resonaate/" in f.filename), "?")
                import os as _os
                if _os.environ.get("PYVC_DEBUG"):
                    _tb.print_exc()
                sym.set_ctx(c)
                try:
                    c._flush_axioms()
                finally:
                    sym.set_ctx(None)
                c.obls.append(Obl(NORAISE, list(c.pc), z3.BoolVal(False), None, list(c.decisions), f"{type(e).__name__}: {str(e)[:120]} at {where}"))
                res.paths += 1
        finally:
            sym.set_ctx(None)
        for o in c.obls:
            o.axioms = c.extra_axioms[: o.axioms] if isinstance(o.axioms, int) else list(c.extra_axioms)
            res.obls.append(o)
        res.branch_checks += c.n_branch_checks
        work.extend(c.alts)
        if res.paths + res.aborted > max_paths:
            res.unsupported.append(f"more than {max_paths} paths")
            break
        if time.time() - t0 > opts.get("max_explore_s", 300):
            res.unsupported.append(f"exploration budget of {opts.get('max_explore_s', 300)} s exceeded after {res.paths} paths")
            break
    res.seconds = time.time() - t0
    return res
