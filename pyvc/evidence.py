"""Evidence writer (schema: /root/.vp/EVIDENCE.schema.json, level "proof")."""
from __future__ import annotations

import json
import os

MODE_TEXT = {
    "Z": "mode Z: Python ints are mathematical integers (exact)",
    "R": "mode R: float64 arithmetic treated as mathematical real arithmetic (rounding ignored; comparisons at exact boundaries hold up to rounding)",
    "F": "mode F: every float operation rounded through a deterministic uninterpreted rounding with |fl(x)-x| <= 2^-53 |x| (no overflow/underflow; integers below 2^53 exact)",
}


def write_evidence(root, prop, tier, seed, wall, n_obl, n_dis, samples, functions, lemmas, backends, solver_s, paths,
                   xran, n_viol, known, bounded, harnesses, undecided, extra=None):
    from .axioms import FAMILIES
    modes = sorted({h.mode for h in harnesses})
    uf = set()
    shims_used = set()
    for s in samples:
        pass
    trusted = []
    trusted.append("z3 %s / cvc5 1.0.3 as decision procedures" % __import__("z3").get_version_string())
    trusted.append("pyvc symbolic executor (proxy execution of the re-compiled real AST; self-checked by native cross-check runs of every contract)")
    trusted += [MODE_TEXT[m] for m in modes if m in MODE_TEXT]
    for u in (extra or {}).get("uf", []):
        trusted.append(f"axioms[{u}]: {FAMILIES.get(u, 'uninterpreted result symbol of a callee replaced by its contract stub (see callees_replaced_by_contract_stubs)')}")
    for u in (extra or {}).get("shims", []):
        trusted.append(f"library contract: {u}")
    for l in lemmas:
        trusted.append(f"contract lemma (assumed): {l}")
    ev = {
        "property_id": prop, "tier": tier, "seed": seed, "level": "proof", "wall_s": round(wall, 2),
        "violations": n_viol,
        "coverage": {
            "obligations": n_obl, "discharged": n_dis,
            "checker_cmd": f".venv/bin/python -m pyvc.cli check {prop} --tier {tier}",
            "trusted_base": trusted,
            "samples": samples,
            "functions_under_contract": functions,
            "paths_explored": paths,
            "backends": backends,
            "solver_time_s": round(solver_s, 2),
            "contract_crosscheck_native_runs": xran,
            "bounded_items": bounded,
            "known_findings_matched": known,
            "lemmas_supplied_by_contracts": lemmas,
            "callees_replaced_by_contract_stubs": (extra or {}).get("stubbed", []),
            "undecided": [list(map(str, u)) for u in undecided],
            "explanation": "each obligation is a named `ensure` of a sidecar contract; it is discharged iff for every feasible path of the real function bodies the VC axioms/\\pc ==> goal is unsat-checked, the path is non-vacuous (cover sat) and at least one path reaches it",
        },
        "assumptions": [],
    }
    ass = set()
    for h in harnesses:
        for a in h.opts.get("assumes", []):
            ass.add(a)
    ev["assumptions"] = sorted(ass) + [MODE_TEXT[m] for m in modes if m in MODE_TEXT] + \
        ["termination is not proved", "library contracts (numpy/scipy shims) and axiom families are trusted; see coverage.trusted_base"]
    # (runs against a modified copy of the repository - tools/mutant.sh, tools/eval_seeded.py - must not overwrite the evidence of the real tree)
    out_dir = os.environ.get("PYVC_EVIDENCE_DIR") or os.path.join(root, "evidence")
    os.makedirs(out_dir, exist_ok=True)
    json.dump(ev, open(os.path.join(out_dir, f"{prop}.json"), "w"), indent=1, default=str)
