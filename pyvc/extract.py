"""Mechanical extraction of the functions under contract from /repo/src (DESIGN 2).

For `module:Qual.name` the defining file is re-read and re-parsed on every run, the FunctionDef is
located by qualified name, a fixed list of node kinds is dropped (recorded per function), and the
remaining AST is compiled *as is* in a copy of the defining module's namespace in which library
objects are replaced by their trusted contracts (shims.py) and other resonaate functions by
extracted versions of themselves (so helpers without a contract are inlined as real code), or by
contract stubs where the caller asks for modular treatment.
"""
from __future__ import annotations

import ast
import hashlib
import importlib
import math
import os
import types
from fractions import Fraction

import z3

from . import shims, sym

REPO_SRC = os.environ.get("PYVC_REPO_SRC", "/repo/src")

_LOG_PREFIXES = ("logger", "_logger", "resonaateLog", "logging", "warn", "warnings")


class _Dropper(ast.NodeTransformer):
    def __init__(self, super_name="__pyvc_super__"):
        self.dropped = []
        self.first_arg = None
        self.super_name = super_name

    def _is_log_call(self, call):
        f = call.func
        chain = []
        while isinstance(f, ast.Attribute):
            chain.append(f.attr)
            f = f.value
        if isinstance(f, ast.Call):  # getLogger().info(...)
            g = f.func
            name = g.id if isinstance(g, ast.Name) else (g.attr if isinstance(g, ast.Attribute) else "")
            return "ogger" in name
        if isinstance(f, ast.Name):
            chain.append(f.id)
        chain.reverse()
        if not chain:
            return False
        if chain[0].startswith("resonaateLog"):
            return True
        for c in chain[:-1] if len(chain) > 1 else chain:
            if c in ("logger", "_logger", "logging", "warnings") or c.endswith("_logger"):
                return True
        return False

    def visit_Expr(self, node):
        if isinstance(node.value, ast.Constant) and isinstance(node.value.value, str):
            self.dropped.append(f"docstring@{node.lineno}")
            return ast.copy_location(ast.Pass(), node)
        if isinstance(node.value, ast.Call) and self._is_log_call(node.value):
            self.dropped.append(f"logging-call@{node.lineno}")
            return ast.copy_location(ast.Pass(), node)
        return self.generic_visit(node)

    def visit_AnnAssign(self, node):
        self.dropped.append(f"annotation@{node.lineno}")
        if node.value is None:
            return ast.copy_location(ast.Pass(), node)
        return ast.copy_location(ast.Assign(targets=[node.target], value=self.visit(node.value)), node)

    def visit_arg(self, node):
        if node.annotation is not None:
            node.annotation = None
        return node

    def visit_Call(self, node):
        self.generic_visit(node)
        if isinstance(node.func, ast.Name) and node.func.id == "super" and not node.args and self.first_arg:
            # zero-argument super() needs the class cell of the original class body: rewritten to an explicit proxy
            self.dropped.append(f"super()->explicit-proxy@{node.lineno}")
            return ast.copy_location(ast.Call(func=ast.Name(id=self.super_name, ctx=ast.Load()),
                                              args=[ast.Name(id=self.first_arg, ctx=ast.Load())], keywords=[]), node)
        return node

    def visit_SetComp(self, node):
        self.generic_visit(node)
        # {e for ...} builds a hash set directly; route it through the set contract (handles symbolic members)
        gen = ast.GeneratorExp(elt=node.elt, generators=node.generators)
        return ast.copy_location(ast.Call(func=ast.Name(id="set", ctx=ast.Load()), args=[ast.copy_location(gen, node)], keywords=[]), node)

    def visit_FunctionDef(self, node):
        if not hasattr(self, "_top"):
            self._top = node
            self.first_arg = node.args.args[0].arg if node.args.args else None
        if node.decorator_list:
            self.dropped.append("decorators:" + ",".join(ast.unparse(d) for d in node.decorator_list))
            node.decorator_list = []
        if node.returns is not None:
            node.returns = None
        return self.generic_visit(node)


_FILE_CACHE = {}


def _parse(path):
    st = os.stat(path)
    key = (path, st.st_mtime_ns, st.st_size)
    if key not in _FILE_CACHE:
        src = open(path, "rb").read()
        _FILE_CACHE[key] = (ast.parse(src, filename=path), hashlib.sha256(src).hexdigest())
    return _FILE_CACHE[key]


def module_path(mod):
    p = os.path.join(REPO_SRC, *mod.split("."))
    if os.path.isdir(p):
        return os.path.join(p, "__init__.py")
    return p + ".py"


def find_def(tree, qual):
    node = tree
    want_setter = qual.endswith("#setter")
    qual = qual.split("#")[0]
    for part in qual.split("."):
        found = None
        for ch in node.body:
            if isinstance(ch, (ast.FunctionDef, ast.ClassDef, ast.AsyncFunctionDef)) and ch.name == part:
                is_setter = isinstance(ch, ast.FunctionDef) and any(
                    isinstance(d, ast.Attribute) and d.attr in ("setter", "deleter") for d in ch.decorator_list)
                if isinstance(ch, ast.FunctionDef) and is_setter != want_setter:
                    continue
                found = ch
        if found is None:
            raise KeyError(f"definition {qual!r} not found")
        node = found
    return node


FUNCTIONS_USED = {}  # qualname -> meta (for the evidence file)


def _sym_const(v):
    """Map float module constants that are rational multiples of pi to the symbolic pi."""
    if not isinstance(v, float) or v == 0 or math.isinf(v) or math.isnan(v):
        return None
    pi = sym.SNum(z3.Real("pi"), 1)
    for q in (Fraction(1), Fraction(2), Fraction(1, 2), Fraction(1, 180), Fraction(1, 4), Fraction(3, 2),
              Fraction(1, 648000), Fraction(1, 12), Fraction(1, 43200)):
        if math.isclose(v, math.pi * float(q), rel_tol=4e-16, abs_tol=0):
            return pi * q if q != 1 else pi
    for q in (180, 43200, 648000):
        if math.isclose(v, q / math.pi, rel_tol=4e-16, abs_tol=0):
            return q / pi
    return None


def _code_wrapper(f):
    """marks the dynamic extent of extracted repository code (F-mode rounding applies only inside it)"""
    import functools

    @functools.wraps(f)
    def w(*a, **k):
        c = sym._CTX
        if c is None:
            return f(*a, **k)
        c.in_code += 1
        try:
            return f(*a, **k)
        finally:
            c.in_code -= 1
    return w


class exact_spec:
    """context manager for contract stubs called from repository code: specification arithmetic is exact"""

    def __enter__(self):
        c = sym._CTX
        self.saved = c.in_code if c is not None else 0
        if c is not None:
            c.in_code = 0

    def __exit__(self, *a):
        if sym._CTX is not None:
            sym._CTX.in_code = self.saved


def _make_super(loader, mod, cls_qual):
    def sup(obj):
        real = importlib.import_module(mod)
        for part in cls_qual.split("."):
            real = getattr(real, part)

        class _P:
            def __getattribute__(self_, name):
                for k in real.__mro__[1:]:
                    if k.__module__.startswith("resonaate") and name in k.__dict__:
                        f = loader.fn(f"{k.__module__}:{k.__qualname__}.{name}")
                        return types.MethodType(f, obj)
                if name == "__init__":
                    return lambda *a, **kw: None
                raise AttributeError(name)
        return _P()
    return sup


def _sym_container(v, depth=0):
    """module-level tables of angle constants (e.g. VALID_ANGLE_MAP): rebuilt with the symbolic pi inside"""
    if depth > 3:
        return None
    changed = False
    if isinstance(v, dict):
        out = {}
        for k, x in v.items():
            c = _sym_const(x) if isinstance(x, float) else (_sym_container(x, depth + 1) if isinstance(x, (dict, tuple, list)) else None)
            out[k] = x if c is None else c
            changed = changed or c is not None
        return out if changed else None
    items = []
    for x in v:
        c = _sym_const(x) if isinstance(x, float) else (_sym_container(x, depth + 1) if isinstance(x, (dict, tuple, list)) else None)
        items.append(x if c is None else c)
        changed = changed or c is not None
    return type(v)(items) if changed else None


class LazyFn:
    """A resonaate function referenced from an extracted function: extracted itself on first call."""

    def __init__(self, spec, loader):
        self.spec, self.loader, self._f = spec, loader, None

    def __call__(self, *a, **k):
        if self._f is None:
            self._f = self.loader.fn(self.spec)
        return self._f(*a, **k)

    def __get__(self, obj, objtype=None):
        if obj is None:
            return self
        return types.MethodType(self, obj)


class RepoModule:
    """`from . import constants as const`-style access to another resonaate module."""

    def __init__(self, real, loader):
        self.__dict__["_real"], self.__dict__["_loader"] = real, loader

    def __getattr__(self, name):
        real, loader = self.__dict__["_real"], self.__dict__["_loader"]
        g = loader.globals_for(real.__name__)
        if name in g:
            return g[name]
        return getattr(real, name)


class Loader:
    """Extracts functions for one harness run.  `stubs` maps 'module:qual' -> replacement callable."""

    def __init__(self, stubs=None, const_overrides=None, symbolic=True):
        self.stubs = dict(stubs or {})
        self.cache = {}
        self.symbolic = symbolic
        self.const_overrides = const_overrides or {}
        self.origin = {}

    def add_stub(self, spec, f):
        """install a contract stub, also in module namespaces that were already built"""
        mod, qual = spec.split(":")
        real = importlib.import_module(mod)
        o = real
        import builtins as _b
        if qual.startswith("@") and hasattr(_b, qual[1:]):
            o = _b
        for part in qual.lstrip("@").split("."):
            if not hasattr(o, part):
                raise KeyError(f"stub target {spec} does not exist in the repository")
            o = getattr(o, part)
        if not qual.startswith("@") and isinstance(o, types.FunctionType):
            spec = f"{o.__module__}:{o.__qualname__}"  # canonical: the defining module of the function
        self.stubs[spec] = f
        if qual.startswith("@"):
            g = self.cache.get(("globals", mod))
            if g is not None:
                g[qual[1:]] = f
            return
        for g, name in self.origin.get(spec, []):
            g[name] = f
        self.cache.pop(spec, None)

    def fn(self, spec):
        if spec in self.stubs:  # a contract stub replaces the callee wherever it is resolved (incl. super() and methods)
            return self.stubs[spec]
        if spec in self.cache:
            return self.cache[spec]
        mod, qual = spec.split(":")
        path = module_path(mod)
        tree, sha = _parse(path)
        node = find_def(tree, qual)
        if not isinstance(node, ast.FunctionDef):
            raise KeyError(f"{spec} is not a function")
        import copy
        node = copy.deepcopy(node)
        # decorators that are functions of the repository itself (wrap_anomaly, check_ecc) change what a call returns:
        # they are re-applied below, each as its own extracted body, in the order the source lists them
        real_mod = importlib.import_module(mod)
        repo_decos = [d.id for d in node.decorator_list if isinstance(d, ast.Name)
                      and isinstance(getattr(real_mod, d.id, None), types.FunctionType)
                      and getattr(real_mod, d.id).__module__.startswith("resonaate")]
        super_name = "__pyvc_super__" + qual.rsplit(".", 1)[0].replace(".", "_") if "." in qual else "__pyvc_super__"
        dr = _Dropper(super_name)
        node = dr.visit(node)
        ast.fix_missing_locations(node)
        m = ast.Module(body=[node], type_ignores=[])
        code = compile(m, path, "exec")
        g = self.globals_for(mod)
        if "." in qual:  # a method: give it a super() proxy bound to its defining class (shared namespace, unique name)
            g[super_name] = _make_super(self, mod, qual.rsplit(".", 1)[0])
        ns = {}
        exec(code, g, ns)
        f = _code_wrapper(ns[node.name])
        for dname in reversed(repo_decos):
            dreal = getattr(real_mod, dname)
            f = self.fn(f"{dreal.__module__}:{dreal.__qualname__}")(f)
            dr.dropped.append(f"decorator-reapplied:{dname}")
        FUNCTIONS_USED[spec] = {
            "file": os.path.relpath(path, REPO_SRC), "sha256": sha, "lines": [node.lineno, node.end_lineno],
            "dropped": dr.dropped,
        }
        self.cache[spec] = f
        return f

    def globals_for(self, mod):
        key = ("globals", mod)
        if key in self.cache:
            return self.cache[key]
        real = importlib.import_module(mod)
        g = dict(vars(real))
        self.cache[key] = g
        for name, v in list(g.items()):
            if name.startswith("__"):
                continue
            spec = None
            if isinstance(v, types.FunctionType) and getattr(v, "__module__", "").startswith("resonaate"):
                spec = f"{v.__module__}:{v.__qualname__}"
            if spec is not None:
                self.origin.setdefault(spec, []).append((g, name))
            if spec is not None and spec in self.stubs:
                g[name] = self.stubs[spec]
                continue
            if not self.symbolic:
                continue
            s = shims.BY_IDENTITY.get(id(v))
            if s is not None:
                g[name] = s
            elif isinstance(v, types.ModuleType) and v.__name__.split(".")[0] in ("numpy", "scipy", "math"):
                g[name] = shims.ShimModule(v)
            elif isinstance(v, types.ModuleType) and v.__name__.startswith("resonaate"):
                g[name] = RepoModule(v, self)
            elif spec is not None and "<locals>" not in spec:
                g[name] = LazyFn(spec, self)
            elif isinstance(v, float):
                c = _sym_const(v)
                if c is not None:
                    g[name] = c
                elif type(v) is not float:
                    g[name] = float(v)  # a numpy scalar constant: as a plain float it compares with proxies the way a literal does (numpy's reflected ufunc dispatch recurses)
            elif isinstance(v, type) and issubclass(v, float) and v.__module__.startswith("resonaate"):
                g[name] = self.float_box(f"{v.__module__}:{v.__qualname__}")  # JulianDate / ScenarioTime: boxed, real dunders
            elif isinstance(v, (dict, tuple, list)) and name.isupper():
                c = _sym_container(v)
                if c is not None:
                    g[name] = c
            if name in self.const_overrides:
                g[name] = self.const_overrides[name]
        if self.symbolic:
            for k, v in shims.BUILTINS.items():
                g.setdefault(k, v)
        for spec, stub in self.stubs.items():  # stubs addressed by bare global name: "module:@name"
            m2, q2 = spec.split(":")
            if m2 == mod and q2.startswith("@"):
                g[q2[1:]] = stub
        return g

    def float_box(self, spec):
        """symbolic stand-in for a float subclass of the repository: instances box a value, `float(box)` yields it, and
        every method/operator is the extracted real method of the class"""
        key = ("floatcls", spec)
        if key in self.cache:
            return self.cache[key]
        flat = self.cls(spec)

        def _new(cls, v=0.0):
            o = object.__new__(cls)
            o._v = v._pyvc_value() if hasattr(v, "_pyvc_value") else v
            return o
        # reflected operators are not overridden by the repository classes: Python falls back to plain float arithmetic
        refl = {"__radd__": lambda self, o: o + self._v, "__rsub__": lambda self, o: o - self._v, "__rmul__": lambda self, o: o * self._v,
                "__rtruediv__": lambda self, o: o / self._v, "__neg__": lambda self: -self._v, "__abs__": lambda self: abs(self._v)}
        ns = {"__new__": _new, "_pyvc_value": lambda self: self._v, "__repr__": lambda self: f"{flat.__name__}<{self._v}>"}
        ns.update({k: v for k, v in refl.items() if not hasattr(flat, k)})
        Box = type(flat.__name__, (flat,), ns)
        self.cache[key] = Box
        return Box

    def cls(self, spec, extra_methods=None):
        """Flat class whose methods/properties are the extracted functions of `module:Class` and its
        resonaate bases (MRO order).  Instances are created without running __init__."""
        key = ("cls", spec)
        if key in self.cache:
            return self.cache[key]
        mod, qual = spec.split(":")
        real_mod = importlib.import_module(mod)
        real = real_mod
        for part in qual.split("."):
            real = getattr(real, part)
        ns = {}
        for klass in reversed(real.__mro__):
            if not klass.__module__.startswith("resonaate"):
                continue
            path = module_path(klass.__module__)
            tree, _ = _parse(path)
            cnode = find_def(tree, klass.__qualname__)
            for ch in cnode.body:
                if isinstance(ch, ast.FunctionDef):
                    decos = [ast.unparse(d) for d in ch.decorator_list]
                    fspec = f"{klass.__module__}:{klass.__qualname__}.{ch.name}" + ("#setter" if any(d.endswith(".setter") for d in decos) else "")
                    if fspec in self.stubs:
                        f = self.stubs[fspec]
                    else:
                        f = LazyFn(fspec, self)
                    if "property" in decos:
                        ns[ch.name] = property(_bind_lazy(f))
                    elif any(d.endswith(".setter") for d in decos):
                        old = ns.get(ch.name)
                        ns[ch.name] = property(old.fget if isinstance(old, property) else None, _bind_lazy(f))
                    elif "staticmethod" in decos:
                        ns[ch.name] = staticmethod(f)
                    elif "classmethod" in decos:
                        ns[ch.name] = classmethod(_bind_lazy(f))
                    else:
                        ns[ch.name] = f
                elif isinstance(ch, ast.ClassDef) and hasattr(klass, ch.name):
                    ns[ch.name] = getattr(klass, ch.name)  # nested class (an Enum of labels, ...): the real object
                elif isinstance(ch, (ast.Assign, ast.AnnAssign)):
                    tgt = ch.targets[0] if isinstance(ch, ast.Assign) else ch.target
                    if isinstance(tgt, ast.Name) and hasattr(klass, tgt.id):
                        val = klass.__dict__.get(tgt.id, getattr(klass, tgt.id))
                        if hasattr(type(val), "__set__") or hasattr(type(val), "__delete__"):
                            continue  # data descriptors (ORM columns, ...) are not carried over: instances hold plain values
                        ns[tgt.id] = val
        ns.update(extra_methods or {})
        ns.pop("__slots__", None)
        if "__getattr__" not in ns:
            ns["__getattr__"] = _init_literal_fallback(real)
        c = type(real.__name__, (), ns)
        c.__pyvc_real__ = real
        self.cache[key] = c
        return c


def init_literals(real):
    """attribute -> literal for every `self.attr = <literal>` statement in the __init__ methods of `real` and its resonaate bases
    (literal: constant, empty or constant list/dict/set/tuple).  Instances built by a contract skip __init__; such fields (caches,
    counters, flags added by a refactoring) get exactly the value __init__ would have given them."""
    out = {}
    for klass in reversed(real.__mro__):
        if not getattr(klass, "__module__", "").startswith("resonaate"):
            continue
        try:
            tree, _ = _parse(module_path(klass.__module__))
            cnode = find_def(tree, klass.__qualname__)
        except Exception:  # noqa: BLE001
            continue
        for ch in cnode.body:
            if isinstance(ch, ast.FunctionDef) and ch.name == "__init__":
                for st in ast.walk(ch):
                    tgt = val = None
                    if isinstance(st, ast.Assign) and len(st.targets) == 1:
                        tgt, val = st.targets[0], st.value
                    elif isinstance(st, ast.AnnAssign) and st.value is not None:
                        tgt, val = st.target, st.value
                    if isinstance(tgt, ast.Attribute) and isinstance(tgt.value, ast.Name) and tgt.value.id == "self":
                        try:
                            out[tgt.attr] = ast.literal_eval(val)
                        except Exception:  # noqa: BLE001
                            if isinstance(val, ast.Call) and isinstance(val.func, ast.Name) and val.func.id in ("dict", "list", "set") and not val.args and not val.keywords:
                                out[tgt.attr] = {"dict": {}, "list": [], "set": set()}[val.func.id]
    return out


def _init_literal_fallback(real):
    lits = {}

    def __getattr__(self, name):
        if not lits:
            lits.update(init_literals(real))
            lits.setdefault("\0done", None)
        if name in lits and not name.startswith("__"):
            import copy
            v = copy.deepcopy(lits[name])
            object.__setattr__(self, name, v)
            return v
        raise AttributeError(f"'{real.__name__}' object has no attribute '{name}'")
    return __getattr__


def _bind_lazy(f):
    def g(*a, **k):
        return f(*a, **k)
    return g
