"""Abstract algebra of orthogonal 3x3 matrices acting on abstract 3-vectors (DESIGN 3.2, "matrix ring").

Matrices are linear combinations of *words* over generator symbols and their transposes; a
generator is either orthogonal (G^T G = G G^T = I: free-group reduction) or skew (S^T = -S, the
matrix of `cross(w, .)`).  Vectors are linear combinations of  word * base-vector.  Equality of two
such objects is decided by normal forms (free reduction is a complete decision procedure for the
word problem of a free group), coefficient by coefficient (coefficients may be symbolic numbers:
their equality goes to the SMT solver as usual).

The facts "this matrix is orthogonal" enter only through generators created by contract stubs of
functions whose real bodies are proved orthogonal entry-wise elsewhere (rot1/2/3, polar motion).
"""
from __future__ import annotations

import numpy as np
import z3

from . import sym
from .sym import SNum, Unsupported

_GEN = {}  # name -> kind


def _reduce(word):
    """free reduction of a tuple of (name, transposed) letters over orthogonal generators."""
    out = []
    for (n, t) in word:
        if out and out[-1][0] == n and out[-1][1] != t and _GEN.get(n) == "orth":
            out.pop()
        else:
            out.append((n, t))
    return tuple(out)


def _norm_word(word):
    """returns (sign, reduced word): transposed skew letters are rewritten S^T = -S."""
    sign = 1
    w = []
    for (n, t) in word:
        if _GEN.get(n) == "skew" and t:
            sign = -sign
            t = False
        w.append((n, t))
    return sign, _reduce(tuple(w))


def _add_to(d, key, coeff):
    if key in d:
        c = d[key] + coeff
    else:
        c = coeff
    if sym.is_num(c) and c == 0:
        d.pop(key, None)
    else:
        d[key] = c


def _is_zero(c):
    if isinstance(c, SNum):
        v = sym._num_val(z3.simplify(c.t)) if True else None
        return v == 0
    return c == 0


class LMat:
    """sum_i coeff_i * word_i"""
    __array_priority__ = 3000
    __array_ufunc__ = None
    shape = (3, 3)
    ndim = 2

    def __init__(self, terms=None):
        self.terms = terms or {}

    @staticmethod
    def gen(name, kind="orth"):
        _GEN[name] = kind
        return LMat({((name, False),): 1})

    @staticmethod
    def identity():
        return LMat({(): 1})

    @property
    def T(self):
        out = {}
        for w, c in self.terms.items():
            sgn, w2 = _norm_word(tuple((n, not t) for (n, t) in reversed(w)))
            _add_to(out, w2, sgn * c)
        return LMat(out)

    def transpose(self):
        return self.T

    def _mul(self, o):
        if isinstance(o, LMat):
            out = {}
            for w1, c1 in self.terms.items():
                for w2, c2 in o.terms.items():
                    sgn, w = _norm_word(w1 + w2)
                    _add_to(out, w, sgn * (c1 * c2))
            return LMat(out)
        if isinstance(o, LVec):
            out = {}
            for w1, c1 in self.terms.items():
                for (w2, b), c2 in o.terms.items():
                    sgn, w = _norm_word(w1 + w2)
                    _add_to(out, (w, b), sgn * (c1 * c2))
            return LVec(out)
        if isinstance(o, LState):
            raise Unsupported("3x3 matrix applied to a 6-state")
        return NotImplemented

    def __matmul__(self, o):
        return self._mul(o)

    def dot(self, o):
        return self._mul(o)

    def __mul__(self, s):
        if isinstance(s, (LMat, LVec)):
            raise Unsupported("element-wise product of abstract matrices")
        return LMat({w: c * s for w, c in self.terms.items()})

    __rmul__ = __mul__

    def __neg__(self):
        return self * -1

    def __add__(self, o):
        out = dict(self.terms)
        for w, c in o.terms.items():
            _add_to(out, w, c)
        return LMat(out)

    def __sub__(self, o):
        return self + (-o)

    def __repr__(self):
        return "LMat(" + " + ".join(f"{c}*{_show(w)}" for w, c in self.terms.items()) + ")"


def _show(w):
    return ".".join(n + ("'" if t else "") for n, t in w) or "I"


class LVec:
    """sum_i coeff_i * word_i * base_i"""
    __array_priority__ = 3000
    __array_ufunc__ = None
    shape = (3,)
    ndim = 1

    def __init__(self, terms=None):
        self.terms = terms or {}

    @staticmethod
    def base(name):
        sym.ctx().gram_base(name)
        return LVec({((), name): 1})

    def __add__(self, o):
        if sym.is_num(o) and o == 0:
            return self
        if not isinstance(o, LVec):
            return NotImplemented
        out = dict(self.terms)
        for k, c in o.terms.items():
            _add_to(out, k, c)
        return LVec(out)

    __radd__ = __add__

    def __neg__(self):
        return LVec({k: -c for k, c in self.terms.items()})

    def __sub__(self, o):
        return self + (-o)

    def __rsub__(self, o):
        return (-self) + o

    def __mul__(self, s):
        if isinstance(s, (LVec, LMat)):
            raise Unsupported("element-wise product of abstract vectors")
        if isinstance(s, np.ndarray) and s.shape == ():
            s = s.item()
        return LVec({k: c * s for k, c in self.terms.items()})

    __rmul__ = __mul__

    def __truediv__(self, s):
        return LVec({k: c / s for k, c in self.terms.items()})

    def __getitem__(self, i):
        if isinstance(i, slice) and i.start in (None, 0) and i.stop == 3 and i.step is None:
            return self
        raise Unsupported("component access on an abstract vector")

    def dot(self, o):
        return ldot(self, o)

    def __repr__(self):
        return "LVec(" + " + ".join(f"{c}*{_show(w)}.{b}" for (w, b), c in self.terms.items()) + ")"


def ldot(a, b):
    """<a, b> = sum c1 c2 <w1 b1, w2 b2> = sum c1 c2 <b1, w1^T w2 b2>."""
    tot = 0
    for (w1, b1), c1 in a.terms.items():
        for (w2, b2), c2 in b.terms.items():
            sgn, w = _norm_word(tuple((n, not t) for (n, t) in reversed(w1)) + w2)
            if w == ():
                g = SNum(sym.ctx().gram(b1, b2))
            else:
                # canonical orientation: <b1, w b2> = <b2, w^T b1>
                sgn2, wt = _norm_word(tuple((n, not t) for (n, t) in reversed(w)))
                k1, k2 = (b1, w, b2), (b2, wt, b1)
                if repr(k2) < repr(k1):
                    sgn, (b1_, w_, b2_) = sgn * sgn2, k2
                else:
                    b1_, w_, b2_ = k1
                g = SNum(z3.Real(f"B<{b1_}|{_show(w_)}|{b2_}>"))
            tot = tot + (sgn * (c1 * c2)) * g
    return tot


class LState:
    """6x1 state = (position LVec, velocity LVec)"""
    __array_priority__ = 3000
    __array_ufunc__ = None
    shape = (6,)
    ndim = 1

    def __init__(self, pos, vel):
        self.pos, self.vel = pos, vel

    def __getitem__(self, i):
        if isinstance(i, slice) and i.step is None:
            if i.start in (None, 0) and i.stop == 3:
                return self.pos
            if i.start == 3 and i.stop in (None, 6):
                return self.vel
        raise Unsupported(f"component access {i} on an abstract state")

    def __add__(self, o):
        return LState(self.pos + o.pos, self.vel + o.vel)

    def __sub__(self, o):
        return LState(self.pos - o.pos, self.vel - o.vel)


def _coeff_eq(c1, c2):
    r = (c1 == c2)
    return r if isinstance(r, sym.SBool) else bool(r)


def leq(a, b):
    """equality of two abstract objects as a conjunction of coefficient equalities."""
    if isinstance(a, LState):
        if not isinstance(b, LState):
            return False
        return sym.And(leq(a.pos, b.pos), leq(a.vel, b.vel))
    keys = set(a.terms) | set(b.terms)
    conds = [_coeff_eq(a.terms.get(k, 0), b.terms.get(k, 0)) for k in sorted(keys, key=repr)]
    return sym.And(*conds) if conds else True


def skew_of(vec):
    """generator for the matrix of cross(vec, .), keyed by the (simplified) component terms."""
    if isinstance(vec, LVec):
        raise Unsupported("cross product of two abstract vectors")
    comps = [z3.simplify(sym._real(sym._as_arith(e))) for e in np.asarray(vec, dtype=object).ravel()]
    reg = sym.ctx().__dict__.setdefault("_skew_names", {})
    key = tuple(c.sexpr() for c in comps)  # (ids are not stable once a term is garbage collected)
    if key not in reg:
        reg[key] = f"X{len(reg)}"
    name = reg[key]
    return LMat.gen(name, "skew")


_ROT = {}


def rot_gen(axis, angle, ctx_names):
    """generator for rot<axis>(angle); rot(-a) is the transpose of rot(a) (proved entry-wise: O-C04-rot.transpose)."""
    t = z3.simplify(sym.ctx().N(sym._real(sym._as_arith(angle))), som=True, sort_sums=True)
    nt = z3.simplify(-t, som=True, sort_sums=True)
    key, nkey = (axis, t.sexpr()), (axis, nt.sexpr())
    if nkey in ctx_names:
        return ctx_names[nkey].T
    if key not in ctx_names:
        ctx_names[key] = LMat.gen(f"R{axis}_{len(ctx_names)}")
    return ctx_names[key]
