"""Helpers for modular verification: contract stubs that replace a callee by `assert pre / assume post`.

Stubs are stateless with respect to the harness: they act on the active path context, so one stub
object can be installed in the (cached) globals of an extracted caller and reused on every path.
A stub models a *deterministic* callee: the result is an uninterpreted application keyed by the
argument terms (same arguments -> same result; pairwise functional consistency is instantiated
by axioms.instantiate), constrained by the callee's postcondition.
"""
from __future__ import annotations

import z3

from . import sym
from .sym import SBool, SNum, ctx

STUBS_USED = set()


def fresh_real(base="v", deg=0):
    return SNum(ctx().fresh(base), deg)


def fresh_int(base="k"):
    return SNum(ctx().fresh(base, "int"))


def fresh_bool(base="b"):
    return SBool(ctx().fresh(base, "bool"))


def assume(cond):
    ctx().assume(cond)


def require(name, cond):
    """precondition of a stubbed callee: becomes an obligation of the caller."""
    ctx().ensure(name, cond)


def scalar_contract(label, post, deg_out=0, pre=None, pre_name=None, arg_filter=None):
    """Stub for a callee `f(*args) -> number`.  post(result, *args) is assumed once per application."""

    def stub(*args, **kw):
        c = ctx()
        STUBS_USED.add(label)
        if kw:
            args = args + tuple(kw.values())
        use = [a for a in args if isinstance(a, (SNum, int, float))] if arg_filter is None else arg_filter(args)
        ts = [sym._real(sym._as_arith(a)) for a in use]
        if pre is not None:
            c.ensure(pre_name, pre(*args))
        k = c.uf_app(label, ts)
        r = SNum(k, deg_out)
        done = c.__dict__.setdefault("_stub_done", set())
        if k.get_id() not in done:
            done.add(k.get_id())
            from .extract import exact_spec
            with exact_spec():
                c.assume(post(r, *args))
        return r

    return stub
