"""Instantiated axioms for the function symbols (DESIGN 3.4) and Gram scalars (DESIGN 3.2).

Every axiom is *conditional on its domain*, so an application outside the domain (np.sqrt of a
negative number, arccos of 1.1 -> nan in the real code) constrains nothing and cannot make the
axiom set contradictory.  Each family used by a run is listed in the evidence `trusted_base`.
"""
from __future__ import annotations

import itertools

import z3

FAMILIES = {
    "sin": "sin^2+cos^2=1, |sin|,|cos|<=1, sign of sin/cos on the quadrants of [-pi,pi], values at 0, +-pi/2, pi; Lipschitz bounds |sin t|<=|t|, |sin t|<=|t-+pi|, |cos t|<=|t-+pi/2|; periodicity under whole turns (optional); shift/reflection laws for pairs of arguments whose difference or sum is 0, +-pi/2, +-pi, 2pi",
    "cos": "see sin",
    "tan": "tan*cos=sin",
    "sqrt": "x>=0 -> sqrt(x)>=0 and sqrt(x)^2=x; monotone on pairs",
    "arcsin": "|y|<=1 -> arcsin(y) in [-pi/2,pi/2], sin(arcsin y)=y, cos(arcsin y)>=0; strictly increasing on pairs",
    "arccos": "|y|<=1 -> arccos(y) in [0,pi], cos(arccos y)=y, sin(arccos y)>=0; strictly decreasing on pairs",
    "arctan": "arctan(y) in (-pi/2,pi/2), sin=y*cos, cos>0",
    "arctan2": "arctan2(y,x) in (-pi,pi]; (x,y)!=0 -> sin(a)*hypot=y, cos(a)*hypot=x; quadrant facts",
    "exp": "exp>0, exp(0)=1, strictly increasing on pairs",
    "log10": "uninterpreted; strictly increasing on pairs of positive arguments",
    "log": "uninterpreted; strictly increasing on pairs of positive arguments",
    "pow": "uninterpreted",
    "spacing": "0 < spacing(x) <= 2.3e-16*|x| + 1e-300 (one unit in the last place of a binary64 number)",
}


def _sincos(ctx, a):
    return ctx.uf_app("sin", [a]), ctx.uf_app("cos", [a])


def instantiate(ctx, start):
    out = []
    i = start
    pi = None
    while i < len(ctx.uf_list):
        name, args, c = ctx.uf_list[i]
        i += 1
        if name in ("sin", "cos"):
            t = args[0]
            s, k = _sincos(ctx, t)
            if name == "sin":  # emit once per argument (the sin twin is always created)
                pi = ctx.pi().t
                out.append(s * s + k * k == 1)
                out.append(z3.And(s >= -1, s <= 1, k >= -1, k <= 1))
                out.append(z3.Implies(z3.And(t > 0, t < pi), s > 0))
                out.append(z3.Implies(z3.And(t > -pi, t < 0), s < 0))
                out.append(z3.Implies(z3.And(t > -pi / 2, t < pi / 2), k > 0))
                out.append(z3.Implies(z3.And(t > pi / 2, t < 3 * pi / 2), k < 0))
                out.append(z3.Implies(z3.And(t > -3 * pi / 2, t < -pi / 2), k < 0))
                ab = lambda e: z3.If(e >= 0, e, -e)
                if ctx.opts.get("ax_lipschitz"):
                    out.append(z3.And(ab(s) <= ab(t), ab(k) <= ab(t - pi / 2), ab(k) <= ab(t + pi / 2), ab(s) <= ab(t - pi), ab(s) <= ab(t + pi)))
                out.append(z3.Implies(t == 0, z3.And(s == 0, k == 1)))
                out.append(z3.Implies(t == pi / 2, z3.And(s == 1, k == 0)))
                out.append(z3.Implies(t == -pi / 2, z3.And(s == -1, k == 0)))
                out.append(z3.Implies(z3.Or(t == pi, t == -pi), z3.And(s == 0, k == -1)))
        elif name == "tan":
            s, k = _sincos(ctx, args[0])
            out.append(z3.Implies(k != 0, c * k == s))
        elif name == "sqrt":
            x = args[0]
            out.append(z3.Implies(x >= 0, z3.And(c >= 0, c * c == x)))
        elif name == "arcsin":
            y = args[0]
            pi = ctx.pi().t
            s, k = _sincos(ctx, c)
            out.append(z3.Implies(z3.And(y >= -1, y <= 1), z3.And(c >= -pi / 2, c <= pi / 2, s == y, k >= 0)))
            out.append(z3.Implies(y == 0, c == 0))
            out.append(z3.Implies(y == 1, c == pi / 2))
            out.append(z3.Implies(y == -1, c == -pi / 2))
            out.append(z3.Implies(z3.And(y > 0, y <= 1), c > 0))
            out.append(z3.Implies(z3.And(y < 0, y >= -1), c < 0))
        elif name == "arccos":
            y = args[0]
            pi = ctx.pi().t
            s, k = _sincos(ctx, c)
            out.append(z3.Implies(z3.And(y >= -1, y <= 1), z3.And(c >= 0, c <= pi, k == y, s >= 0)))
            out.append(z3.Implies(y == 1, c == 0))
            out.append(z3.Implies(y == 0, c == pi / 2))
            out.append(z3.Implies(y == -1, c == pi))
            out.append(z3.Implies(z3.And(y > 0, y <= 1), c < pi / 2))
            out.append(z3.Implies(z3.And(y < 0, y >= -1), c > pi / 2))
        elif name == "arctan":
            y = args[0]
            pi = ctx.pi().t
            s, k = _sincos(ctx, c)
            out.append(z3.And(c > -pi / 2, c < pi / 2, k > 0, s == y * k))
            out.append(z3.Implies(y == 0, c == 0))
            out.append(z3.Implies(y > 0, c > 0))
            out.append(z3.Implies(y < 0, c < 0))
        elif name == "arctan2":
            y, x = args
            pi = ctx.pi().t
            s, k = _sincos(ctx, c)
            h = ctx.uf_app("sqrt", [z3.simplify(x * x + y * y)])
            out.append(z3.And(c > -pi, c <= pi))
            out.append(z3.Implies(z3.Or(x != 0, y != 0), z3.And(s * h == y, k * h == x, h > 0)))
            out.append(z3.Implies(z3.And(y == 0, x >= 0), c == 0))  # numpy: arctan2(0,0)=0
            out.append(z3.Implies(z3.And(y == 0, x < 0), c == pi))
            out.append(z3.Implies(y > 0, z3.And(c > 0, c < pi)))
            out.append(z3.Implies(y < 0, z3.And(c < 0, c > -pi)))
            out.append(z3.Implies(z3.And(x == 0, y > 0), c == pi / 2))
            out.append(z3.Implies(z3.And(x == 0, y < 0), c == -pi / 2))
            out.append(z3.Implies(x > 0, z3.And(c > -pi / 2, c < pi / 2)))
            out.append(z3.Implies(z3.And(x < 0, y >= 0), c > pi / 2))
            out.append(z3.Implies(z3.And(x < 0, y < 0), c < -pi / 2))
        elif name == "exp":
            out.append(c > 0)
            out.append(z3.Implies(args[0] == 0, c == 1))
        elif name == "spacing":
            x = args[0]
            out.append(c > 0)
            out.append(c <= z3.RealVal("2.3e-16") * z3.If(x >= 0, x, -x) + z3.RealVal("1e-300"))
        # pairwise monotonicity / functional consistency with earlier applications of the same symbol
        for (n2, a2, c2) in ctx.uf_list[: i - 1]:
            if n2 != name:
                continue
            if name == "sin" and not ctx.opts.get("ax_shift", True):
                continue
            if name == "sin":  # shift / reflection laws between two arguments (conditional, hence always sound)
                t1, t2 = args[0], a2[0]
                s1, k1 = _sincos(ctx, t1)
                s2, k2 = _sincos(ctx, t2)
                pi = ctx.pi().t
                d, sm = t1 - t2, t1 + t2
                out.append(z3.Implies(z3.Or(d == 2 * pi, d == -2 * pi, d == 0), z3.And(s1 == s2, k1 == k2)))
                if ctx.opts.get("ax_periodic"):
                    # periodicity for any whole number of turns (used with angle-unit normalisation, where it is linear)
                    q = z3.simplify(ctx.N(d / (2 * pi)))
                    out.append(z3.Implies(q == z3.ToReal(z3.ToInt(q)), z3.And(s1 == s2, k1 == k2)))
                out.append(z3.Implies(z3.Or(d == pi, d == -pi), z3.And(s1 == -s2, k1 == -k2)))
                out.append(z3.Implies(d == pi / 2, z3.And(s1 == k2, k1 == -s2)))
                out.append(z3.Implies(d == -pi / 2, z3.And(s1 == -k2, k1 == s2)))
                out.append(z3.Implies(z3.Or(sm == 0, sm == 2 * pi), z3.And(s1 == -s2, k1 == k2)))
                out.append(z3.Implies(z3.Or(sm == pi, sm == -pi), z3.And(s1 == s2, k1 == -k2)))
                out.append(z3.Implies(sm == pi / 2, z3.And(s1 == k2, k1 == s2)))
                continue
            if len(args) == 1:
                x, y = args[0], a2[0]
                if name in ("arcsin", "sqrt", "exp", "arctan"):
                    dom = {"arcsin": lambda v: z3.And(v >= -1, v <= 1), "sqrt": lambda v: v >= 0}.get(name, lambda v: z3.BoolVal(True))
                    out.append(z3.Implies(z3.And(dom(x), dom(y)), z3.And((x < y) == (c < c2), (x == y) == (c == c2))))
                elif name == "arccos":
                    dom = lambda v: z3.And(v >= -1, v <= 1)
                    out.append(z3.Implies(z3.And(dom(x), dom(y)), z3.And((x < y) == (c > c2), (x == y) == (c == c2))))
                elif name in ("log", "log10"):
                    out.append(z3.Implies(z3.And(x > 0, y > 0), z3.And((x < y) == (c < c2), (x == y) == (c == c2))))
                else:
                    out.append(z3.Implies(x == y, c == c2))
            else:
                out.append(z3.Implies(z3.And(*[p == q for p, q in zip(args, a2)]), c == c2))
    return out


def gram_axioms(ctx):
    out = []
    names = ctx.gram_names
    G = ctx.gram
    for u in names:
        out.append(G(u, u) >= 0)
    for u, v in itertools.combinations(names, 2):
        out.append(G(u, v) * G(u, v) <= G(u, u) * G(v, v))
    for u, v, w in itertools.combinations(names, 3):
        a, b, c = G(u, u), G(v, v), G(w, w)
        d, e, f = G(u, v), G(u, w), G(v, w)
        out.append(a * b * c + 2 * d * e * f - a * f * f - b * e * e - c * d * d >= 0)
    return out
