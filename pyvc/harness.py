"""Contracts API (`vc`), obligation registry, discharge, counterexample replay.

A contract module (contracts/Cxx.py) registers harnesses with @obligation.  The same harness text
runs in two modes:
  * symbolic  (SymVC)  -- inputs are z3 constants, the extracted real bodies run on proxies, every
    `ensure` becomes verification conditions discharged by z3 / cvc5;
  * concrete  (ConcVC) -- inputs are floats/ints (from a solver model or sampled), the *real*
    functions imported from /repo/src run natively, every `ensure` is evaluated.  This is the
    counterexample replay and the contract cross-check.
"""
from __future__ import annotations

import importlib
import math
import os
import random
import subprocess
import tempfile
import time
import traceback
from fractions import Fraction

import numpy as np
import z3

from . import explore, extract, shims, sym
from .sym import GVec, PathAbort, SBool, SNum, Unsupported

REGISTRY = {}  # property id -> list[Harness]


class Harness:
    def __init__(self, prop, name, func, ensures, fns, mode, tier, opts, note):
        self.prop, self.name, self.func = prop, name, func
        self.ensures = ensures  # names of the obligations this harness emits
        self.fns, self.mode, self.tier, self.opts, self.note = fns, mode, tier, opts, note


def obligation(prop, name, ensures=None, fns=(), mode="R", tier="quick", note="", **opts):
    def deco(f):
        REGISTRY.setdefault(prop, []).append(
            Harness(prop, name, f, (list(ensures) if ensures else [name]) + [f"{name}.noraise"] +
                    ([f"{name}.domain"] if opts.get("domain_checks") else []), list(fns), mode, tier, opts, note))
        return f
    return deco


def share(from_prop, name, to_prop):
    """register harness `name` of `from_prop` under `to_prop` as well (same contract, same obligations): a property whose
    contracts rely on a callee contract discharged for another property re-checks that callee contract in its own run"""
    import copy
    h = next(x for x in REGISTRY[from_prop] if x.name == name)
    if any(x.name == name for x in REGISTRY.get(to_prop, [])):
        return
    h2 = copy.copy(h)
    h2.prop = to_prop
    h2.opts = dict(h.opts)
    h2.note = f"[shared with {from_prop}] " + h.note
    REGISTRY.setdefault(to_prop, []).append(h2)


# ----------------------------------------------------------------------------------------------
class _Rec:
    """attribute bag used as `self` of methods under contract (reads/writes are logged: frames)."""


class BaseVC:
    symbolic = True

    def __init__(self, harness):
        self.h = harness
        self.reads, self.writes = set(), set()

    # numeric helpers usable in both modes -------------------------------------------------
    def sqrt(self, x):
        return sym.fn_sqrt(x) if isinstance(x, SNum) else math.sqrt(x)

    def sin(self, x):
        return sym.fn_sin(x) if isinstance(x, SNum) else math.sin(x)

    def cos(self, x):
        return sym.fn_cos(x) if isinstance(x, SNum) else math.cos(x)

    def arccos(self, x):
        return sym.fn_arccos(x) if isinstance(x, SNum) else math.acos(max(-1.0, min(1.0, x)))

    def arcsin(self, x):
        return sym.fn_arcsin(x) if isinstance(x, SNum) else math.asin(max(-1.0, min(1.0, x)))

    def arctan2(self, y, x):
        return sym.fn_arctan2(y, x) if (isinstance(y, SNum) or isinstance(x, SNum)) else math.atan2(y, x)

    def floor(self, x):
        return sym.fn_floor(x) if isinstance(x, SNum) else math.floor(x)

    def ite(self, c, a, b):
        return sym.Ite(c, a, b) if isinstance(c, SBool) else (a if c else b)

    def And(self, *xs):
        return sym.And(*xs)

    def Or(self, *xs):
        return sym.Or(*xs)

    def Not(self, x):
        return sym.Not(x)

    def implies(self, a, b):
        return sym.Implies(a, b)

    def iff(self, a, b):
        if isinstance(a, SBool) or isinstance(b, SBool):
            return SBool(sym.term(a) == sym.term(b))
        return bool(a) == bool(b)

    def dot(self, a, b):
        return shims.s_dot(a, b)

    def norm(self, a):
        return shims.s_norm(a)


class SymVC(BaseVC):
    def __init__(self, harness, c, loader):
        super().__init__(harness)
        self.c = c
        self.loader = loader
        self.inputs = {}
        self.scale = {}
        c.pi()

    @property
    def pi(self):
        return self.c.pi()

    def real(self, name, lo=None, hi=None, **kw):
        v = SNum(z3.Real(name))
        self.inputs[name] = v.t
        if lo is not None:
            self.c.assume(sym.sbool(v >= lo))
        if hi is not None:
            self.c.assume(sym.sbool(v <= hi))
        return v

    def int(self, name, lo=None, hi=None, **kw):
        v = SNum(z3.Int(name))
        self.inputs[name] = v.t
        if lo is not None:
            self.c.assume(sym.sbool(v >= lo))
        if hi is not None:
            self.c.assume(sym.sbool(v <= hi))
        return v

    def bool(self, name, **kw):
        v = SBool(z3.Bool(name))
        self.inputs[name] = v.t
        return v

    def angle(self, name, lo=None, hi=None, **kw):
        """a real input measured in the angle unit (degree 1 for the homogeneity check)."""
        v = SNum(z3.Real(name), 1)
        self.inputs[name] = v.t
        if self.c.norm_angles:
            self.scale[name] = 2 * math.pi  # model values are in turns
        # bounds are stated in units of pi so that they scale with the angle unit
        if lo is not None:
            self.c.assume(sym.sbool(v >= self.pi * Fraction(lo / math.pi).limit_denominator(10 ** 6)))
        if hi is not None:
            self.c.assume(sym.sbool(v <= self.pi * Fraction(hi / math.pi).limit_denominator(10 ** 6)))
        return v

    def vec(self, name, n=3, lo=None, hi=None):
        return np.array([self.real(f"{name}[{i}]", lo, hi) for i in range(n)], dtype=object)

    def mat(self, name, n, m, lo=None, hi=None):
        a = np.empty((n, m), dtype=object)
        for i in range(n):
            for j in range(m):
                a[i, j] = self.real(f"{name}[{i},{j}]", lo, hi)
        return a

    def lvec(self, name):
        """abstract 3-vector of the orthogonal-word algebra (pyvc.orth)"""
        from . import orth
        self.gvec(name)
        return orth.LVec.base(name)

    def lstate(self, name):
        from . import orth
        return orth.LState(self.lvec(name + ".r"), self.lvec(name + ".v"))

    def gstate(self, name):
        from . import orth
        return orth.LState(self.gvec(name + ".r"), self.gvec(name + ".v"))

    def gvec(self, name):
        for other in list(self.c.gram_names) + [name]:
            a, b = sorted((name, other))
            self.inputs[f"G<{a}.{b}>"] = self.c.gram(a, b)
        return GVec.base(name)

    def assume(self, cond):
        self.c.assume(cond if not isinstance(cond, np.bool_) else bool(cond))

    def ensure(self, name, cond, note=""):
        if name not in self.h.ensures:
            raise RuntimeError(f"harness {self.h.name} emitted undeclared obligation {name}")
        self.c.ensure(name, cond, note)

    def cut(self, name, cond, note=""):
        """assert-then-assume: the fact is an obligation here and a hypothesis for the rest of the path."""
        self.ensure(name, cond, note)
        self.assume(cond)

    def spec(self):
        """context manager: expressions built inside belong to the specification (no domain obligations)."""
        c = self.c

        class _S:
            def __enter__(self_):
                c.in_spec = True

            def __exit__(self_, *a):
                c.in_spec = False
        return _S()

    def eq(self, a, b, tol=None):
        from . import orth
        if isinstance(a, (orth.LVec, orth.LMat, orth.LState)):
            return orth.leq(a, b)
        if isinstance(a, GVec) or isinstance(b, GVec):
            # coefficient-wise in the (formally independent) base vectors: sufficient for equality
            if not (isinstance(a, GVec) and isinstance(b, GVec)):
                return False
            keys = set(a.c) | set(b.c)
            return sym.And([sym.sbool(a.c.get(k, 0) == b.c.get(k, 0)) if isinstance(a.c.get(k, 0) == b.c.get(k, 0), SBool) else bool(a.c.get(k, 0) == b.c.get(k, 0)) for k in sorted(keys, key=repr)])
        if isinstance(a, np.ndarray) or isinstance(b, np.ndarray):
            a, b = np.asarray(a, dtype=object), np.asarray(b, dtype=object)
            if a.shape != b.shape:
                return False
            return sym.And([sym.sbool(x == y) for x, y in zip(a.flat, b.flat)])
        r = a == b
        return r

    def le(self, a, b, tol=None):
        return a <= b

    def lt(self, a, b, tol=None):
        return a < b

    def close(self, a, b, tol):
        """|a-b| <= tol (same absolute tolerance in both modes; arrays element-wise)"""
        if isinstance(a, np.ndarray) or isinstance(b, np.ndarray):
            a, b = np.asarray(a, dtype=object), np.asarray(b, dtype=object)
            return sym.And([sym.sbool(abs(x - y) <= tol) for x, y in zip(a.flat, np.broadcast_to(b, a.shape).flat)])
        return abs(a - b) <= tol

    def fmode(self, on=True):
        self.c.fmode = on

    def as_code(self, f):
        """evaluate f() with the arithmetic interpretation of repository code (F-mode rounding applies)"""
        self.c.in_code += 1
        try:
            return f()
        finally:
            self.c.in_code -= 1

    def split_int(self, x, lo, hi):
        """case split on an integer input: returns the concrete value on each path (complete over lo..hi)"""
        for k in range(lo, hi + 1):
            if x == k:
                return k
        raise PathAbort()

    def dyadic(self, x, k, because):
        """declare that the float value x is a multiple of 2**-k (a fact about the binary64 format, e.g. every double
        of magnitude >= 2**21 is a multiple of 2**-31); recorded as an assumption."""
        self.c.set_dyadic(z3.simplify(sym._real(sym._as_arith(x))) if False else sym._real(sym._as_arith(x)), k)
        AXIOMS_USED.add(f"binary64 format: {because}")

    def is_multiple(self, x, period):
        """exists k in Z. x == period*k, offered to the solver as a disjunction of witnesses built from the
        floor terms that occur in x (the solvers cannot find the witness themselves, DESIGN 3.10(e))."""
        import itertools
        xt = z3.simplify(self.c.N(sym._real(sym._as_arith(x))))
        pt = self.c.N(sym._real(sym._as_arith(period)))
        floors, seen, stack = [], set(), [xt] + list(self.c.pc)
        while stack:
            t = stack.pop()
            if t.get_id() in seen:
                continue
            seen.add(t.get_id())
            if z3.is_app(t) and t.decl().kind() == z3.Z3_OP_TO_INT:
                floors.append(t)
            elif z3.is_const(t) and t.sort() == z3.IntSort() and t.decl().kind() == z3.Z3_OP_UNINTERPRETED \
                    and "!" in t.decl().name():
                floors.append(t)
            stack.extend(t.children())
        cands = []
        for r in range(0, min(3, len(floors)) + 1):
            for sub in itertools.combinations(floors, r):
                for signs in itertools.product((1, -1), repeat=r):
                    base = sum((sg * f for sg, f in zip(signs, sub)), z3.IntVal(0))
                    for c in range(-2, 3):
                        cands.append(base + c)
                if len(cands) > 1500:
                    break
        return SBool(z3.Or(*[xt == pt * z3.ToReal(k) for k in cands]))

    def fn(self, spec):
        return self.loader.fn(spec)

    def stub(self, spec, f):
        """replace callee `spec` by a contract stub (modular verification); symbolic mode only."""
        if self.loader.stubs.get(spec) is not f:
            self.loader.add_stub(spec, f)
        STUBBED.add(spec)

    def install(self, spec, f):
        """contract stub that also exists natively (ConcVC.install patches the real module for the run)"""
        self.stub(spec, f)

    def cls(self, spec, **kw):
        return self.loader.cls(spec, **kw)

    def float_class(self, spec):
        """boxed float subclass of the repository (JulianDate, ScenarioTime): see extract.Loader.float_box"""
        return self.loader.float_box(spec)

    def new(self, spec, **attrs):
        C = self.loader.cls(spec)
        o = object.__new__(C)
        for k, v in attrs.items():
            object.__setattr__(o, k, v)
        return o

    def fresh_real(self, base="v"):
        return SNum(self.c.fresh(base))

    def fresh_int(self, base="k"):
        return SNum(self.c.fresh(base, "int"))

    def fresh_bool(self, base="b"):
        return SBool(self.c.fresh(base, "bool"))

    def axiom(self, cond, why):
        """A lemma supplied by the contract; listed in the evidence (never the goal itself)."""
        self.c.add_axiom(sym.term(cond))
        AXIOMS_USED.add(why)


AXIOMS_USED = set()
STUBBED = set()


class Rejected(BaseException):
    pass


class ConcVC(BaseVC):
    symbolic = False

    def __init__(self, harness, values=None, rng=None):
        super().__init__(harness)
        self.values = dict(values or {})
        self.rng = rng or random.Random(0)
        self.failed = []
        self.checked = []
        self.inputs = {}
        self.loader = extract.Loader(symbolic=False)

    pi = math.pi

    def _draw(self, name, lo, hi, integer=False, special=()):
        if name in self.inputs:  # an input declared twice is the same value (as its symbolic namesake)
            return self.inputs[name]
        if name in self.values:
            v = self.values[name]
            return int(v) if integer else float(v)
        r = self.rng
        if special and r.random() < 0.3:
            v = r.choice(list(special))
        elif lo is not None and hi is not None:
            if r.random() < 0.08:
                v = r.choice([lo, hi])
            else:
                v = r.randint(int(math.ceil(lo)), int(math.floor(hi))) if integer else r.uniform(lo, hi)
        else:
            mag = 10 ** r.uniform(-2, 4)
            v = r.uniform(-1, 1) * mag
            if lo is not None:
                v = lo + abs(v)
            if hi is not None:
                v = hi - abs(v)
            if integer:
                v = int(round(v))
        return int(v) if integer else float(v)

    def real(self, name, lo=None, hi=None, special=()):
        v = self._draw(name, lo, hi, False, special)
        self.inputs[name] = v
        if (lo is not None and v < lo) or (hi is not None and v > hi):
            raise Rejected()
        return v

    def int(self, name, lo=None, hi=None, special=()):
        v = self._draw(name, lo, hi, True, special)
        self.inputs[name] = v
        if (lo is not None and v < lo) or (hi is not None and v > hi):
            raise Rejected()
        return v

    def angle(self, name, lo=None, hi=None, special=()):
        return self.real(name, lo, hi, special)

    def bool(self, name, **kw):
        v = bool(self.values[name]) if name in self.values else self.rng.random() < 0.5
        self.inputs[name] = v
        return v

    def vec(self, name, n=3, lo=None, hi=None):
        return np.array([self.real(f"{name}[{i}]", lo, hi) for i in range(n)], dtype=float)

    def mat(self, name, n, m, lo=None, hi=None):
        return np.array([[self.real(f"{name}[{i},{j}]", lo, hi) for j in range(m)] for i in range(n)], dtype=float)

    def lvec(self, name):
        return self.gvec(name)

    def lstate(self, name):
        return np.concatenate([self.gvec(name + ".r"), self.vec(name + ".v", 3, -10.0, 10.0)])

    def gstate(self, name):
        return np.concatenate([self.gvec(name + ".r"), self.gvec(name + ".v") * 2e-4])

    def gvec(self, name):
        """Realise a Gram-matrix model as concrete 3-vectors (incremental Cholesky), else sample."""
        prev = getattr(self, "_gv", None)
        if prev is None:
            prev = self._gv = []
        key = lambda a, b: "G<%s.%s>" % tuple(sorted((a, b)))
        if key(name, name) in self.values and len(prev) < 3:
            v = np.zeros(3)
            try:
                for i, (pn, pv) in enumerate(prev):
                    g = float(self.values.get(key(name, pn), 0.0))
                    v[i] = (g - float(np.dot(v[:i], pv[:i]))) / pv[i]
                rest = float(self.values[key(name, name)]) - float(np.dot(v, v))
                v[len(prev)] = math.sqrt(max(rest, 0.0))
            except ZeroDivisionError:
                raise Rejected()
            for i in range(3):
                self.inputs[f"{name}[{i}]"] = float(v[i])
            prev.append((name, v))
            return v
        v = self.vec(name, 3, -50000.0, 50000.0)
        prev.append((name, v))
        return v

    def assume(self, cond):
        if not bool(cond):
            raise Rejected()

    def ensure(self, name, cond, note=""):
        ok = bool(np.all(cond))
        self.checked.append(name)
        if not ok:
            self.failed.append(name)

    def cut(self, name, cond, note=""):
        self.ensure(name, cond, note)

    def spec(self):
        import contextlib
        return contextlib.nullcontext()

    def eq(self, a, b, tol=1e-9):
        a, b = np.asarray(a, dtype=float), np.asarray(b, dtype=float)
        if a.shape != b.shape:
            return False
        return bool(np.all(np.abs(a - b) <= tol * (1.0 + np.maximum(np.abs(a), np.abs(b)))))

    def close(self, a, b, tol):
        return bool(np.all(np.abs(np.asarray(a, dtype=float) - np.asarray(b, dtype=float)) <= tol))

    def le(self, a, b, tol=1e-9):
        return a <= b + tol * (1 + abs(a) + abs(b))

    def lt(self, a, b, tol=1e-9):
        return a < b + tol * (1 + abs(a) + abs(b))

    def fmode(self, on=True):
        pass

    def dyadic(self, x, k, because):
        pass

    def split_int(self, x, lo, hi):
        return int(x)

    def as_code(self, f):
        return f()

    def is_multiple(self, x, period):
        q = x / period
        return abs(q - round(q)) < 1e-9 * (1 + abs(q))

    def stub(self, spec, f):
        pass

    def install(self, spec, f):
        """native counterpart of a contract stub: the collaborator is patched into the real modules/classes for the duration of this run,
        so the same harness text drives the real compiled code (undone after the run)"""
        import sys
        mod, qual = spec.split(":")
        m = importlib.import_module(mod)
        if qual.startswith("@"):
            self._patch(m, qual[1:], f)
            return
        setter = qual.endswith("#setter")
        parts = qual.replace("#setter", "").split(".")
        if len(parts) == 1:
            real = getattr(m, parts[0])
            for mm in list(sys.modules.values()):
                if mm is not None and getattr(mm, "__name__", "").startswith("resonaate"):
                    for k, v in list(vars(mm).items()):
                        if v is real:
                            self._patch(mm, k, f)
            return
        owner = m
        for part in parts[:-1]:
            owner = getattr(owner, part)
        cur = owner.__dict__.get(parts[-1])
        new = f
        if isinstance(cur, property):
            new = property(cur.fget, f, cur.fdel) if setter else property(f, cur.fset, cur.fdel)
        elif isinstance(cur, staticmethod):
            new = staticmethod(f)
        elif isinstance(cur, classmethod):
            new = classmethod(f)
        self._patch(owner, parts[-1], new)

    _MISSING = object()

    def _patch(self, obj, name, val):
        undo = self.__dict__.setdefault("_undo", [])
        undo.append((obj, name, obj.__dict__.get(name, self._MISSING)))
        setattr(obj, name, val)

    def _uninstall(self):
        for obj, name, old in reversed(self.__dict__.get("_undo", [])):
            if old is self._MISSING:
                try:
                    delattr(obj, name)
                except AttributeError:
                    pass
            else:
                setattr(obj, name, old)
        self.__dict__["_undo"] = []

    def fn(self, spec):
        mod, qual = spec.split(":")
        o = importlib.import_module(mod)
        for part in qual.split("."):
            o = getattr(o, part)
        if isinstance(o, property):
            return o.fget
        if type(o).__name__ == "RemoteFunction" and hasattr(o, "_function"):
            return o._function  # ray remote function: the plain Python function the workers execute
        return o

    def cls(self, spec, **kw):
        return self.fn(spec)

    def float_class(self, spec):
        return self.fn(spec)

    def new(self, spec, **attrs):
        C = self.fn(spec)
        extra = {}
        if not hasattr(C, "__getattr__") and getattr(C, "__module__", "").startswith("resonaate"):
            extra["__getattr__"] = extract._init_literal_fallback(C)  # fields __init__ sets to a literal (see extract.init_literals)
        if getattr(C, "__abstractmethods__", None) or extra:
            C = type(C.__name__, (C,), extra)
            C.__abstractmethods__ = frozenset()
        o = object.__new__(C)
        for k, v in attrs.items():
            object.__setattr__(o, k, v)
        return o

    def fresh_real(self, base="v"):
        raise Rejected()

    fresh_int = fresh_bool = fresh_real

    def axiom(self, cond, why):
        pass


# ----------------------------------------------------------------------------------------------
def _forked(fn, hard_s):
    """Run fn() in a forked child with a hard wall-clock limit (z3 time-outs are not always honoured)."""
    import pickle
    import select
    import signal
    r, w = os.pipe()
    pid = os.fork()
    if pid == 0:
        try:
            os.close(r)
            try:
                out = fn()
            except BaseException as e:  # noqa
                out = ("unknown", None, f"{type(e).__name__}: {e}")
            with os.fdopen(w, "wb") as f:
                pickle.dump(out, f)
        finally:
            os._exit(0)
    os.close(w)
    data = b""
    deadline = time.time() + hard_s
    with os.fdopen(r, "rb") as f:
        while True:
            left = deadline - time.time()
            if left <= 0:
                break
            rl, _, _ = select.select([f], [], [], left)
            if not rl:
                break
            chunk = os.read(f.fileno(), 1 << 16)
            if not chunk:
                break
            data += chunk
    try:
        os.kill(pid, signal.SIGKILL)
    except ProcessLookupError:
        pass
    os.waitpid(pid, 0)
    if not data:
        return ("unknown", None, "hard time-out")
    try:
        return pickle.loads(data)
    except Exception:
        return ("unknown", None, "truncated answer")


def _solve_z3(fml, timeout_ms, rlimit=None):
    s = z3.Solver()
    s.set("timeout", timeout_ms)
    if rlimit:
        s.set("rlimit", rlimit)
    s.add(*fml)
    t0 = time.time()
    r = s.check()
    return s, str(r), time.time() - t0


def _solve_z3_tactic(fml, timeout_ms, tactic):
    t = z3.Then(z3.Tactic("simplify"), z3.Tactic("solve-eqs"), z3.Tactic(tactic)) if tactic != "default" else z3.Tactic("smt")
    s = t.solver()
    s.set("timeout", timeout_ms)
    s.add(*fml)
    t0 = time.time()
    try:
        r = s.check()
    except z3.Z3Exception:
        return s, "unknown", time.time() - t0
    return s, str(r), time.time() - t0


def _solve_cvc5(fml, timeout_ms):
    s = z3.Solver()
    s.add(*fml)
    smt = "(set-logic ALL)\n" + s.to_smt2()
    t0 = time.time()
    with tempfile.NamedTemporaryFile("w", suffix=".smt2", delete=False, dir=os.environ.get("TMPDIR", "/tmp")) as f:
        f.write(smt)
        p = f.name
    try:
        out = subprocess.run(["/usr/bin/cvc5", "--lang=smt2", f"--tlimit={timeout_ms}", "--nl-ext-tplanes", p],
                             capture_output=True, text=True, timeout=timeout_ms / 1000 + 10)
        r = out.stdout.strip().split("\n")[0] if out.stdout.strip() else "unknown"
    except subprocess.TimeoutExpired:
        r = "unknown"
    finally:
        os.unlink(p)
    if r not in ("sat", "unsat"):
        r = "unknown"
    return r, time.time() - t0


def _model_values(s, inputs, scale=None):
    m = s.model()
    out = {}
    for name, t in inputs.items():
        v = m.eval(t, model_completion=True)
        out[name] = _z3_to_py(v)
        if scale and name in scale and isinstance(out[name], (int, float)):
            out[name] = float(out[name]) * scale[name]
    return out


def _z3_to_py(v):
    if z3.is_int_value(v):
        return v.as_long()
    if z3.is_rational_value(v):
        return float(Fraction(v.numerator_as_long(), v.denominator_as_long()))
    if z3.is_algebraic_value(v):
        a = v.approx(20)
        return float(Fraction(a.numerator_as_long(), a.denominator_as_long()))
    if z3.is_true(v):
        return True
    if z3.is_false(v):
        return False
    return str(v)


_DCACHE = {}


def discharge(o, inputs, opts, scale=None):
    """Conjunctive goals are split; identical VCs (same hypotheses and goal terms) are solved once."""
    g = o.goal
    parts = list(g.children()) if z3.is_and(g) and opts.get("split_goals", True) else [g]
    total, backends, worst = 0.0, [], None
    for part in parts:
        key = (tuple(a.get_id() for a in o.axioms), tuple(a.get_id() for a in o.pc), part.get_id())
        if key not in _DCACHE:
            o2 = explore.Obl(o.name, o.pc, part, o.axioms, o.path, o.note)
            _DCACHE[key] = _discharge1(o2, inputs, opts, scale)
            total += _DCACHE[key]["seconds"]
        d = _DCACHE[key]
        backends.append(d["backend"])
        if d["verdict"] == "sat":
            return {**d, "seconds": total}
        if d["verdict"] != "unsat":
            worst = d
    if worst is not None:
        return {**worst, "seconds": total}
    return {"verdict": "unsat", "backend": backends[0] if len(set(backends)) == 1 else "+".join(sorted(set(backends))), "seconds": total}


def _z3_to_sympy(t, cache, syms, dens=None):
    import sympy
    k = t.get_id()
    if k in cache:
        return cache[k]
    if z3.is_int_value(t):
        r = sympy.Integer(t.as_long())
    elif z3.is_rational_value(t):
        r = sympy.Rational(t.numerator_as_long(), t.denominator_as_long())
    elif z3.is_const(t) and t.decl().kind() == z3.Z3_OP_UNINTERPRETED:
        r = syms.setdefault(t.decl().name(), sympy.Symbol("v%d" % len(syms)))
    else:
        kind = t.decl().kind()
        ch = [_z3_to_sympy(c, cache, syms, dens) for c in t.children()]
        if kind == z3.Z3_OP_ADD:
            r = sympy.Add(*ch)
        elif kind == z3.Z3_OP_MUL:
            r = sympy.Mul(*ch)
        elif kind == z3.Z3_OP_SUB:
            r = ch[0] - sympy.Add(*ch[1:]) if len(ch) > 1 else -ch[0]
        elif kind == z3.Z3_OP_UMINUS:
            r = -ch[0]
        elif kind == z3.Z3_OP_TO_REAL:
            r = ch[0]
        elif kind == z3.Z3_OP_DIV and ch[1].is_number and ch[1] != 0:
            r = ch[0] / ch[1]
        elif kind == z3.Z3_OP_DIV and dens is not None:
            dens.append(t.arg(1))  # must be shown non-zero under the hypotheses
            r = ch[0] / ch[1]
        elif kind == z3.Z3_OP_POWER and ch[1].is_Integer and ch[1] >= 0:
            r = ch[0] ** ch[1]
        else:
            raise ValueError("not a polynomial term")
    cache[k] = r
    return r


def _sympy_identity(goal, hyps=()):
    """back end 'sympy-ring': a goal  lhs == rhs  between rational-function terms is discharged when the numerator of
    lhs - rhs lies in the polynomial ideal generated by the equational hypotheses (remainder 0 modulo a Groebner basis;
    with no hypotheses: the zero polynomial).  Every symbolic denominator must be non-zero under the hypotheses (z3)."""
    try:
        import sympy
        if not (z3.is_eq(goal) and z3.is_arith(goal.arg(0))):
            return False
        cache, syms, dens = {}, {}, []
        d = _z3_to_sympy(goal.arg(0), cache, syms, dens) - _z3_to_sympy(goal.arg(1), cache, syms, dens)
        if not dens:
            if sympy.expand(d) == 0:
                return True
        for den in dens:
            s = z3.Solver()
            s.set("timeout", 3000)
            s.add(*hyps)
            s.add(den == 0)
            if s.check() != z3.unsat:
                return False
        num = sympy.numer(sympy.together(d))
        num = sympy.expand(num)
        if num == 0:
            return True
        gens = []
        for h in hyps:
            if z3.is_eq(h) and z3.is_arith(h.arg(0)):
                try:
                    g = sympy.expand(sympy.numer(sympy.together(_z3_to_sympy(h.arg(0), cache, syms, []) - _z3_to_sympy(h.arg(1), cache, syms, []))))
                    if g != 0 and g.free_symbols & num.free_symbols:
                        gens.append(g)
                except ValueError:
                    pass
        if not gens:
            return False
        symbols = sorted(set().union(*[g.free_symbols for g in gens]) | num.free_symbols, key=str)
        gb = sympy.groebner(gens, *symbols, order="grevlex")
        _, rem = sympy.reduced(num, list(gb.exprs), *symbols, order="grevlex")
        return rem == 0
    except Exception:
        return False


def _race(jobs, hard_s):
    """Run the solver jobs concurrently in forked children; first sat/unsat wins, the rest are killed."""
    import pickle
    import select
    import signal
    procs = {}
    for label, fn in jobs:
        r, w = os.pipe()
        pid = os.fork()
        if pid == 0:
            try:
                os.close(r)
                try:
                    out = fn()
                except BaseException as e:  # noqa
                    out = ("unknown", None, f"{type(e).__name__}: {e}")
                with os.fdopen(w, "wb") as f:
                    pickle.dump(out, f)
            finally:
                os._exit(0)
        os.close(w)
        procs[r] = (pid, label, b"")
    deadline = time.time() + hard_s
    result = ("unknown", None, "all back ends unknown")
    open_fds = set(procs)
    while open_fds:
        left = deadline - time.time()
        if left <= 0:
            result = ("unknown", None, "hard time-out")
            break
        rl, _, _ = select.select(list(open_fds), [], [], left)
        done = False
        for fd in rl:
            chunk = os.read(fd, 1 << 16)
            pid, label, buf = procs[fd]
            if chunk:
                procs[fd] = (pid, label, buf + chunk)
                continue
            open_fds.discard(fd)
            try:
                out = pickle.loads(buf)
            except Exception:
                out = ("unknown", None, label)
            if out[0] in ("sat", "unsat"):
                result = (out[0], out[1], label)
                done = True
                break
        if done:
            break
    for fd, (pid, label, buf) in procs.items():
        try:
            os.kill(pid, signal.SIGKILL)
        except ProcessLookupError:
            pass
        try:
            os.waitpid(pid, 0)
        except ChildProcessError:
            pass
        os.close(fd)
    return result


def _discharge1(o, inputs, opts, scale=None):
    """Returns dict(verdict=unsat|sat|unknown, backend, seconds, model).  Back ends raced: z3 (default smt),
    z3 nlsat tactic, cvc5; a first quick attempt uses the path condition without axioms (fewer hypotheses)."""
    tmo = int(opts.get("timeout_ms", 45000))
    fml = list(o.axioms) + list(o.pc) + [z3.Not(o.goal)]
    goal_s = z3.simplify(o.goal)
    if z3.is_true(goal_s):
        return {"verdict": "unsat", "backend": "simplify", "seconds": 0.0}
    t0 = time.time()

    def with_model(solve):
        def job():
            s, r, dt = solve()
            mv = None
            if r == "sat":
                try:
                    mv = _model_values(s, inputs, scale)
                except Exception:
                    mv = None
            return (r, mv, "")
        return job

    # cheap in-process attempt (no fork); a watchdog thread interrupts z3 if it overruns
    import threading
    s_quick = z3.Solver()
    s_quick.set("timeout", 400)
    s_quick.add(*fml)
    wd = threading.Timer(1.5, lambda: z3.main_ctx().interrupt())
    wd.start()
    try:
        rq = str(s_quick.check())
    except z3.Z3Exception:
        rq = "unknown"
    finally:
        wd.cancel()
    if rq == "unsat":
        return {"verdict": "unsat", "backend": "z3", "seconds": time.time() - t0}
    if rq == "sat":
        try:
            mv = _model_values(s_quick, inputs, scale)
        except Exception:
            mv = None
        return {"verdict": "sat", "backend": "z3", "seconds": time.time() - t0, "model": mv}
    if opts.get("sympy_ring", True) and z3.is_eq(o.goal) and z3.is_arith(o.goal.arg(0)) and \
            _forked(lambda: ("unsat" if _sympy_identity(o.goal, list(o.axioms) + list(o.pc)) else "unknown", None, ""), opts.get("sympy_timeout_s", 30))[0] == "unsat":
        return {"verdict": "unsat", "backend": "sympy-ring", "seconds": time.time() - t0}
    if o.axioms and opts.get("try_without_axioms", True):
        r0 = _forked(lambda: (_solve_z3(list(o.pc) + [z3.Not(o.goal)], min(tmo, 3000))[1], None, ""), 6)
        if r0[0] == "unsat":  # fewer hypotheses: still a proof
            return {"verdict": "unsat", "backend": "z3(pc-only)", "seconds": time.time() - t0}
    jobs = [("z3", with_model(lambda: _solve_z3(fml, tmo, opts.get("rlimit"))))]
    for tac in opts.get("tactics", ["qfnra-nlsat"]):
        jobs.append((f"z3:{tac}", with_model(lambda tac=tac: _solve_z3_tactic(fml, tmo, tac))))
    if opts.get("cvc5", True):
        jobs.append(("cvc5", lambda: (_solve_cvc5(fml, tmo)[0], None, "")))
    r, mv, backend = _race(jobs, tmo / 1000 + 5)
    total = time.time() - t0
    if r == "unsat":
        return {"verdict": "unsat", "backend": backend, "seconds": total}
    if r == "sat":
        return {"verdict": "sat", "backend": backend, "seconds": total, "model": mv}
    return {"verdict": "unknown", "backend": str(backend), "seconds": total}


def cover(o, opts):
    """is the path reaching this obligation feasible (non-vacuity)?  quick in-process try, then forked."""
    import threading
    s = z3.Solver()
    s.set("timeout", 400)
    s.add(*o.axioms)
    s.add(*o.pc)
    wd = threading.Timer(1.5, lambda: z3.main_ctx().interrupt())
    wd.start()
    try:
        r = str(s.check())
    except z3.Z3Exception:
        r = "unknown"
    finally:
        wd.cancel()
    if r != "unknown":
        return r

    def job():
        s = z3.Solver()
        s.set("timeout", int(opts.get("cover_timeout_ms", 5000)))
        s.add(*o.axioms)
        s.add(*o.pc)
        return (str(s.check()), None, "z3")
    return _forked(job, opts.get("cover_timeout_ms", 5000) / 1000 + 3)[0]


# ----------------------------------------------------------------------------------------------
def run_symbolic(h, tier="quick", stubs=None):
    """Explore + discharge one harness.  Returns a JSON-able dict."""
    opts = dict(h.opts)
    opts.setdefault("max_explore_s", 240 if tier == "quick" else 1200)
    opts.setdefault("max_paths", 4000 if tier == "quick" else 40000)
    holder = {}

    def factory(c):
        # a fresh loader per explored path: contract stubs installed by the harness on one path must not leak into the next
        loader = extract.Loader(stubs=stubs or opts.get("stubs"))
        vc = SymVC(h, c, loader)
        holder["vc"] = vc
        return vc

    extract.FUNCTIONS_USED.clear()
    AXIOMS_USED.clear()
    explore.UF_USED.clear()
    STUBBED.clear()
    shims.SHIMS_USED.clear()
    t0 = time.time()
    try:
        res = explore.explore(h.func, factory, opts)
    except Exception:
        return {"harness": h.name, "status": "crash", "error": traceback.format_exc(), "obligations": {}}
    inputs = holder["vc"].inputs if "vc" in holder else {}
    scale = holder["vc"].scale if "vc" in holder else {}
    per = {n: {"instances": 0, "unsat": 0, "sat": 0, "unknown": 0, "vacuous": 0, "backends": {}, "seconds": 0.0,
               "models": [], "notes": []} for n in h.ensures}
    cover_cache = {}
    t_dis = time.time()
    for o in res.obls:
        if o.name == explore.NORAISE:
            o.name = f"{h.name}.noraise"
            per[o.name]["notes"].append(o.note)
        if o.name == "domain":
            o.name = f"{h.name}.domain"
        rec = per[o.name]
        rec["instances"] += 1
        budget = opts.get("max_discharge_s", 400 if tier == "quick" else 1800)
        if time.time() - t_dis > budget or (rec["sat"] >= 3 and rec["unknown"] + rec["sat"] >= 6):
            # the harness's solver budget is spent (or this obligation is already refuted on several paths): no further solver calls for it
            d = {"verdict": "unknown", "seconds": 0.0, "backend": "budget"}
        else:
            d = discharge(o, inputs, opts, scale)
        rec["seconds"] += d["seconds"]
        rec["backends"][d["backend"]] = rec["backends"].get(d["backend"], 0) + 1
        if d["verdict"] == "unsat":
            key = (tuple(o.path), len(o.pc))
            if key not in cover_cache:
                cover_cache[key] = cover(o, opts)
            if cover_cache[key] == "unsat":
                rec["vacuous"] += 1
            else:
                rec["unsat"] += 1
        elif d["verdict"] == "sat":
            rec["sat"] += 1
            if len(rec["models"]) < 3:
                rec["models"].append({"path": o.path, "model": d.get("model"), "goal": str(z3.simplify(o.goal))[:400],
                                      "backend": d["backend"]})
        else:
            rec["unknown"] += 1
            rec["notes"].append(f"unknown on path {o.path}")
    uf_fams = sorted({n for n, _, _ in []})
    return {
        "harness": h.name, "status": "ok", "paths": res.paths, "aborted": res.aborted,
        "unsupported": res.unsupported, "errors": res.errors, "branch_checks": res.branch_checks,
        "explore_s": res.seconds, "wall_s": time.time() - t0, "obligations": per,
        "functions": dict(extract.FUNCTIONS_USED), "lemmas": sorted(AXIOMS_USED), "mode": h.mode,
        "stubbed": sorted(STUBBED), "uf": sorted(explore.UF_USED), "shims": sorted(shims.SHIMS_USED),
    }


LAST_REAL_ERRORS = []
NATIVE_TZ = "CET-1CEST,M3.5.0,M10.5.0/3"


def run_concrete(h, values=None, seed=0, n=1):
    """Run the harness natively on the real code.  Returns (ran, failures:list[(name, inputs)])."""
    rng = random.Random(seed)
    ran, fails, errors = 0, [], []
    del LAST_REAL_ERRORS[:]
    # scenario instants are naive UTC datetimes: nothing may depend on the host's time zone.  Native runs therefore execute under a zone WITH
    # daylight-saving switches (the sandbox default is UTC, where local-time arithmetic is accidentally right)
    if os.environ.get("TZ") != NATIVE_TZ:
        os.environ["TZ"] = NATIVE_TZ
        time.tzset()
    for i in range(n):
        vc = ConcVC(h, values if i == 0 else None, rng) if values is not None else ConcVC(h, None, rng)
        try:
            with np.errstate(all="ignore"):
                h.func(vc)
            ran += 1
        except Rejected:
            continue
        except Exception as e:  # real code raised outside what the contract allows
            tb = e.__traceback__
            while tb is not None and tb.tb_next is not None:
                tb = tb.tb_next
            fn = tb.tb_frame.f_code.co_filename if tb is not None else ""
            real = "/resonaate/" in fn and "/contracts/" not in fn and "/pyvc/" not in fn and not isinstance(e, AssertionError)
            if real:
                LAST_REAL_ERRORS.append((repr(e), dict(vc.inputs)))  # raised BY the real code (innermost frame in the package): a concrete input for a refuted '.noraise'
            if real and h.opts.get("native_only"):
                # bounded stand-in: the real code raised on a sampled input of the stated domain - that input fails '<harness>.noraise'
                fails.append((f"{h.name}.noraise", dict(vc.inputs, **{"raised": repr(e)[:300]})))
            else:
                errors.append((repr(e), dict(vc.inputs)))
            continue
        finally:
            vc._uninstall()
        for name in vc.failed:
            fails.append((name, dict(vc.inputs)))
    return ran, fails, errors
