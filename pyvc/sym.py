"""Symbolic proxy values for pyvc.

The real function bodies (re-compiled from /repo/src on every run, see extract.py) are *executed*
on these proxies.  Arithmetic builds z3 terms, comparisons build SBool, and taking the truth value
of an SBool asks the path explorer (explore.py) for a decision, so every feasible path of the real
control flow is enumerated.

Arithmetic interpretation (DESIGN 3.3):
  * Int sort  -> Python ints are mathematical integers (mode Z)
  * Real sort -> float64 treated as mathematical reals (mode R) unless the active context is in
    F-mode, in which case every float operation is rounded through a deterministic uninterpreted
    rounding constant with the IEEE-754 relative error bound (mode F).
"""
from __future__ import annotations

import math
from fractions import Fraction

import numpy as np
import z3


class Unsupported(BaseException):
    """Raised when the executed code leaves the supported subset: obligation is *undecided*."""


class PathAbort(BaseException):
    """Current path is infeasible (an assumption contradicts the path condition)."""


# --------------------------------------------------------------------------------------------
# active context (set by explore.Explorer while a path is being executed)
_CTX = None


def ctx():
    if _CTX is None:
        raise RuntimeError("no active pyvc context")
    return _CTX


def set_ctx(c):
    global _CTX
    _CTX = c


# --------------------------------------------------------------------------------------------
def _q(x) -> z3.ArithRef:
    """Exact rational of a Python/NumPy number."""
    if isinstance(x, (bool, np.bool_)):
        return z3.IntVal(int(x))
    if isinstance(x, (int, np.integer)):
        return z3.IntVal(int(x))
    if isinstance(x, (float, np.floating)):
        x = float(x)
        if math.isnan(x) or math.isinf(x):
            raise Unsupported(f"non-finite float literal {x}")
        fr = Fraction(x)
        return z3.Q(fr.numerator, fr.denominator)
    if isinstance(x, Fraction):
        return z3.Q(x.numerator, x.denominator)
    raise Unsupported(f"cannot lift {type(x).__name__} to a z3 number")


def is_num(x):
    return isinstance(x, (int, float, np.integer, np.floating, Fraction)) and not isinstance(x, (bool, np.bool_))


def term(x) -> z3.ExprRef:
    if isinstance(x, SNum):
        return x.t
    if isinstance(x, SBool):
        return x.t
    if isinstance(x, (bool, np.bool_)):
        return z3.BoolVal(bool(x))
    if isinstance(x, np.ndarray) and x.shape == ():
        return term(x.item())
    return _q(x)


def _real(t):
    return z3.ToReal(t) if t.sort() == z3.IntSort() else t


def _both(a, b):
    """Coerce two arithmetic terms to a common sort."""
    if a.sort() == b.sort():
        return a, b
    return _real(a), _real(b)


def _num_val(t):
    """Concrete Fraction of a numeral term, else None."""
    t = z3.simplify(t) if not (z3.is_rational_value(t) or z3.is_int_value(t)) and _is_ground(t) else t
    if z3.is_int_value(t):
        return Fraction(t.as_long())
    if z3.is_rational_value(t):
        return Fraction(t.numerator_as_long(), t.denominator_as_long())
    return None


def _is_ground(t, _depth=0):
    if _depth > 40:
        return False
    if z3.is_const(t):
        return z3.is_int_value(t) or z3.is_rational_value(t) or z3.is_true(t) or z3.is_false(t)
    if t.decl().kind() == z3.Z3_OP_UNINTERPRETED:
        return False
    return all(_is_ground(c, _depth + 1) for c in t.children())


class SBool:
    __slots__ = ("t",)
    __array_priority__ = 1000

    def __init__(self, t):
        self.t = t

    def __bool__(self):
        return ctx().branch(self.t)

    @staticmethod
    def _b(o):
        t = term(o)
        return t if z3.is_bool(t) else (t != 0)

    def __and__(self, o):
        return SBool(z3.And(self.t, SBool._b(o)))

    __rand__ = __and__

    def __or__(self, o):
        return SBool(z3.Or(self.t, SBool._b(o)))

    __ror__ = __or__

    def __xor__(self, o):
        return SBool(z3.Xor(self.t, SBool._b(o)))

    __rxor__ = __xor__

    def __invert__(self):
        return SBool(z3.Not(self.t))

    def __eq__(self, o):
        return SBool(self.t == term(o))

    def __ne__(self, o):
        return SBool(self.t != term(o))

    def __hash__(self):
        raise Unsupported("symbolic boolean used as a hash key (set/dict member)")

    def implies(self, o):
        return SBool(z3.Implies(self.t, term(o)))

    def _as_num(self):
        return SNum(z3.If(self.t, z3.IntVal(1), z3.IntVal(0)))

    def __gt__(self, o):
        return self._as_num() > o

    def __ge__(self, o):
        return self._as_num() >= o

    def __lt__(self, o):
        return self._as_num() < o

    def __le__(self, o):
        return self._as_num() <= o

    def __add__(self, o):
        return self._as_num() + o

    __radd__ = __add__

    def __mul__(self, o):
        return self._as_num() * o

    __rmul__ = __mul__

    def __repr__(self):
        return f"SBool({self.t})"

    def __array_ufunc__(self, ufunc, method, *inputs, **kw):
        return _dispatch_ufunc(ufunc, method, inputs, kw)


def sbool(x):
    if isinstance(x, SBool):
        return x
    return SBool(term(x))


def And(*xs):
    if len(xs) == 1 and isinstance(xs[0], (list, tuple)):
        xs = tuple(xs[0])
    ts = [term(x) for x in xs]
    if all(z3.is_true(t) or z3.is_false(t) for t in ts) and not any(isinstance(x, SBool) for x in xs):
        return all(bool(x) for x in xs)
    return SBool(z3.And(*ts)) if ts else True


def Or(*xs):
    if len(xs) == 1 and isinstance(xs[0], (list, tuple)):
        xs = tuple(xs[0])
    ts = [term(x) for x in xs]
    if not any(isinstance(x, SBool) for x in xs):
        return any(bool(x) for x in xs)
    return SBool(z3.Or(*ts)) if ts else False


def Not(x):
    if isinstance(x, SBool):
        return SBool(z3.Not(x.t))
    return not x


def Implies(a, b):
    if not isinstance(a, SBool) and not isinstance(b, SBool):
        return (not a) or bool(b)
    return SBool(z3.Implies(term(a), term(b)))


def Ite(c, a, b):
    """if-then-else on values (no path split)."""
    if not isinstance(c, SBool):
        return a if c else b
    ta, tb = term(a), term(b)
    if z3.is_bool(ta):
        return SBool(z3.If(c.t, ta, tb))
    ta, tb = _both(ta, tb)
    return SNum(z3.If(c.t, ta, tb), _deg_same(a, b, "ite"))


class SNum:
    """A symbolic number (z3 Int or Real term)."""

    __slots__ = ("t", "deg")
    __array_priority__ = 1000

    def __init__(self, t, deg=0):
        self.t = t
        self.deg = deg  # degree in the angle unit (only checked when the context normalises angles)

    # -- helpers
    @property
    def is_int(self):
        return self.t.sort() == z3.IntSort()

    def _bin(self, o, op, swap=False):
        if isinstance(o, np.ndarray):
            f = np.frompyfunc((lambda e: _arith(op, e, self)) if swap else (lambda e: _arith(op, self, e)), 1, 1)
            return f(o.astype(object)) if o.shape != () else f(o.item())
        if isinstance(o, GVec):
            return NotImplemented
        if isinstance(o, SBool):
            o = SNum(z3.If(o.t, z3.IntVal(1), z3.IntVal(0)))
        elif not isinstance(o, SNum):
            if not (is_num(o) or isinstance(o, (bool, np.bool_))):
                return NotImplemented
        return _arith(op, o, self) if swap else _arith(op, self, o)

    def __add__(self, o):
        return self._bin(o, "add")

    def __radd__(self, o):
        return self._bin(o, "add", True)

    def __sub__(self, o):
        return self._bin(o, "sub")

    def __rsub__(self, o):
        return self._bin(o, "sub", True)

    def __mul__(self, o):
        return self._bin(o, "mul")

    def __rmul__(self, o):
        return self._bin(o, "mul", True)

    def __truediv__(self, o):
        return self._bin(o, "div")

    def __rtruediv__(self, o):
        return self._bin(o, "div", True)

    def __floordiv__(self, o):
        return self._bin(o, "floordiv")

    def __rfloordiv__(self, o):
        return self._bin(o, "floordiv", True)

    def __mod__(self, o):
        return self._bin(o, "mod")

    def __rmod__(self, o):
        return self._bin(o, "mod", True)

    def __pow__(self, o):
        return self._bin(o, "pow")

    def __rpow__(self, o):
        return self._bin(o, "pow", True)

    def __neg__(self):
        return SNum(-self.t, self.deg)

    def __pos__(self):
        return self

    def __abs__(self):
        return SNum(z3.If(self.t >= 0, self.t, -self.t), self.deg)

    # comparisons
    def _cmp(self, o, f):
        if isinstance(o, np.ndarray):
            g = np.frompyfunc(lambda e: self._cmp(e, f), 1, 1)
            return g(o.astype(object))
        if o is None:
            return NotImplemented
        if not isinstance(o, (SNum, SBool)) and not is_num(o) and not isinstance(o, (bool, np.bool_)):
            return NotImplemented
        _deg_same(self, o, "comparison")
        a, b = _both(self.t, _as_arith(o))
        return SBool(f(a, b))

    def __lt__(self, o):
        return self._cmp(o, lambda a, b: a < b)

    def __le__(self, o):
        return self._cmp(o, lambda a, b: a <= b)

    def __gt__(self, o):
        return self._cmp(o, lambda a, b: a > b)

    def __ge__(self, o):
        return self._cmp(o, lambda a, b: a >= b)

    def __eq__(self, o):
        r = self._cmp(o, lambda a, b: a == b)
        return False if r is NotImplemented else r

    def __ne__(self, o):
        r = self._cmp(o, lambda a, b: a != b)
        return True if r is NotImplemented else r

    def __hash__(self):
        raise Unsupported("symbolic number used as a hash key (set/dict member): use the set/dict contracts of pyvc.symcoll")

    def __bool__(self):
        return ctx().branch(self.t != 0)

    def __float__(self):
        v = _num_val(self.t)
        if v is not None:
            return float(v)
        raise Unsupported("float() of a symbolic number outside the shimmed builtins")

    def __int__(self):
        v = _num_val(self.t)
        if v is not None:
            return int(v)
        raise Unsupported("int() of a symbolic number outside the shimmed builtins")

    def __index__(self):
        v = _num_val(self.t)
        if v is not None and v.denominator == 1:
            return int(v)
        raise Unsupported("symbolic number used as an index/range bound")

    def __round__(self, nd=None):
        if nd in (None, 0):
            return fn_round_half_even(self)
        if not isinstance(nd, int):
            raise Unsupported("round(x, ndigits) with symbolic ndigits")
        scale = 10 ** nd  # round-half-even at the given decimal digit (exact-decimal idealisation of float round)
        r = fn_round_half_even(self * scale)
        return SNum(_real(r.t) / scale, self.deg) if nd > 0 else SNum(_real(r.t) * (10 ** (-nd)), self.deg)

    def __floor__(self):
        return fn_floor(self)

    def __ceil__(self):
        return -fn_floor(-self)

    def __trunc__(self):
        return fn_trunc(self)

    def __repr__(self):
        return f"SNum({self.t})"

    def __array_ufunc__(self, ufunc, method, *inputs, **kw):
        return _dispatch_ufunc(ufunc, method, inputs, kw)

    # numpy calls these on elements of object arrays (np.sin(obj_array) -> elem.sin())
    def sin(self):
        return fn_sin(self)

    def cos(self):
        return fn_cos(self)

    def tan(self):
        return fn_tan(self)

    def sqrt(self):
        return fn_sqrt(self)

    def arcsin(self):
        return fn_arcsin(self)

    def arccos(self):
        return fn_arccos(self)

    def arctan(self):
        return fn_arctan(self)

    def arctan2(self, o):
        return fn_arctan2(self, o)

    def exp(self):
        return fn_exp(self)

    def log10(self):
        return fn_uf("log10", self)

    def log(self):
        return fn_uf("log", self)

    def floor(self):
        return fn_floor(self)

    def conjugate(self):
        return self

    def item(self):
        return self

    @property
    def real(self):
        return self

    @property
    def shape(self):
        return ()

    @property
    def ndim(self):
        return 0


def _as_arith(o):
    if isinstance(o, SNum):
        return o.t
    if isinstance(o, SBool):
        return z3.If(o.t, z3.IntVal(1), z3.IntVal(0))
    return _q(o)


def snum(x):
    return x if isinstance(x, SNum) else SNum(term(x))


def _deg(x):
    return x.deg if isinstance(x, SNum) else 0


def _is_zero_lit(x):
    if isinstance(x, SNum):
        v = _num_val(x.t) if z3.is_const(x.t) else None
        return v == 0
    return is_num(x) and x == 0


def _deg_same(a, b, what):
    c = _CTX
    if c is None or not c.norm_angles:
        return _deg(a)
    da, db = _deg(a), _deg(b)
    if da == db:
        return da
    if _is_zero_lit(a):
        return db
    if _is_zero_lit(b):
        return da
    raise Unsupported(f"angle-unit inhomogeneous {what}: degrees {da} vs {db} (period normalisation not applicable)")


def _deg_of(op, a, b):
    c = _CTX
    if c is None or not c.norm_angles:
        return 0
    da, db = _deg(a), _deg(b)
    if op in ("add", "sub"):
        return _deg_same(a, b, op)
    if op == "mul":
        return da + db
    if op == "div":
        return da - db
    if op == "floordiv":
        _deg_same(a, b, op)
        return 0
    if op == "mod":
        return _deg_same(a, b, op)
    if op == "pow":
        if db != 0:
            raise Unsupported("angle in exponent")
        if da == 0:
            return 0
        v = _num_val(_as_arith(b))
        if v is None or (da * v).denominator != 1:
            raise Unsupported("non-integral angle degree")
        return int(da * v)
    return 0


def _arith(op, a, b):
    """a op b on numbers of which at least one is symbolic."""
    ta, tb = _as_arith(a), _as_arith(b)
    c = _CTX
    dg = _deg_of(op, a, b)
    if c is not None and c.fmode and c.in_code > 0 and (ta.sort() == z3.RealSort() or tb.sort() == z3.RealSort() or op == "div"):
        r = c.round_op(op, ta, tb)
        r.deg = dg
        return r
    return SNum(_arith_exact(op, ta, tb), dg)


def _arith_exact(op, ta, tb):
    if op == "add":
        ta, tb = _both(ta, tb)
        return ta + tb
    if op == "sub":
        ta, tb = _both(ta, tb)
        return ta - tb
    if op == "mul":
        ta, tb = _both(ta, tb)
        return ta * tb
    if op == "div":
        return _real(ta) / _real(tb)
    if op == "floordiv":
        if ta.sort() == z3.IntSort() and tb.sort() == z3.IntSort():
            vb = _num_val(tb)
            if vb is not None and vb > 0:
                return ta / tb  # z3 integer division = floor for positive divisor
            return _floor_term(_real(ta) / _real(tb))
        return z3.ToReal(_floor_term(_real(ta) / _real(tb)))
    if op == "mod":
        if ta.sort() == z3.IntSort() and tb.sort() == z3.IntSort():
            vb = _num_val(tb)
            if vb is not None and vb > 0:
                return ta % tb
        ra, rb = _real(ta), _real(tb)
        return ra - rb * z3.ToReal(_floor_term(ra / rb))
    if op == "pow":
        vb = _num_val(tb)
        if vb is not None and vb.denominator == 1 and -8 <= vb <= 8:
            n = int(vb)
            if n == 0:
                return z3.IntVal(1) if ta.sort() == z3.IntSort() else z3.RealVal(1)
            acc = ta
            for _ in range(abs(n) - 1):
                acc = acc * ta
            return acc if n > 0 else z3.RealVal(1) / _real(acc)
        if vb is not None and vb == Fraction(1, 2):
            return fn_sqrt(SNum(ta)).t
        if vb is not None and vb == Fraction(3, 2):
            s = fn_sqrt(SNum(ta)).t
            return s * s * s
        if vb is not None and vb == Fraction(-3, 2):
            s = fn_sqrt(SNum(ta)).t
            return z3.RealVal(1) / (s * s * s)
        return ctx().uf_app("pow", [_real(ta), _real(tb)])
    raise Unsupported(op)


def _floor_term(r):
    """floor of a real term as an Int term (z3 ToInt is floor)."""
    return z3.ToInt(r)


# --------------------------------------------------------------------------------------------
# function symbols.  Each application is a fresh real constant keyed by the (hash-consed)
# argument terms; axioms are instantiated per application by the context (axioms.py).

_UF_DEG = {"sin": (1, 0), "cos": (1, 0), "tan": (1, 0), "arcsin": (0, 1), "arccos": (0, 1), "arctan": (0, 1),
           "exp": (0, 0), "log": (0, 0), "log10": (0, 0)}


def _uf_deg(name, args):
    c = _CTX
    if c is None or not c.norm_angles:
        return 0
    if name in _UF_DEG:
        need, out = _UF_DEG[name]
        if _deg(args[0]) != need and not _is_zero_lit(args[0]):
            raise Unsupported(f"angle-unit inhomogeneous {name}() of a degree-{_deg(args[0])} value")
        return out
    if name == "arctan2":
        _deg_same(args[0], args[1], "arctan2")
        return 1
    if name == "sqrt":
        d = _deg(args[0])
        if d % 2:
            raise Unsupported("sqrt of odd angle degree")
        return d // 2
    if any(_deg(a) for a in args):
        raise Unsupported(f"angle passed to {name}")
    return 0


def _domain_check(name, args):
    c = _CTX
    if c is None or not c.domain_checks or c.in_spec:
        return
    x = _real(_as_arith(args[0]))
    if name == "sqrt":
        c.ensure("domain", x >= 0, "sqrt argument")
    elif name in ("arcsin", "arccos"):
        c.ensure("domain", z3.And(x >= -1, x <= 1), f"{name} argument")
    elif name in ("log", "log10"):
        c.ensure("domain", x > 0, f"{name} argument")


def fn_uf(name, *args):
    dg = _uf_deg(name, args)
    _domain_check(name, args)
    r = _fn_uf(name, *args)
    r.deg = dg
    return r


def _fn_uf(name, *args):
    ts = [_real(_as_arith(a)) for a in args]
    vals = [_num_val(t) for t in ts]
    if all(v is not None for v in vals):
        r = _concrete_uf(name, [float(v) for v in vals])
        if r is not None:
            return r
    return SNum(ctx().uf_app(name, ts))


_CONC = {
    "sin": math.sin, "cos": math.cos, "tan": math.tan, "arcsin": math.asin, "arccos": math.acos,
    "arctan": math.atan, "arctan2": math.atan2, "exp": math.exp, "log10": math.log10, "log": math.log,
    "sqrt": math.sqrt,
}


def _concrete_uf(name, vals):
    """Constant folding of transcendental functions on numerals is only exact for a few points."""
    if name == "sqrt":
        v = Fraction(vals[0])
        if v >= 0:
            from math import isqrt
            n, d = v.numerator, v.denominator
            rn, rd = isqrt(n), isqrt(d)
            if rn * rn == n and rd * rd == d:
                return SNum(z3.Q(rn, rd))
        return None
    if name in ("sin", "tan", "arcsin", "arctan") and vals[0] == 0:
        return SNum(z3.RealVal(0))
    if name == "cos" and vals[0] == 0:
        return SNum(z3.RealVal(1))
    if name == "exp" and vals[0] == 0:
        return SNum(z3.RealVal(1))
    if name == "arccos" and vals[0] == 1:
        return SNum(z3.RealVal(0))
    return None


def fn_sin(x):
    return fn_uf("sin", x)


def fn_cos(x):
    return fn_uf("cos", x)


def fn_tan(x):
    return fn_uf("tan", x)


def fn_sqrt(x):
    return fn_uf("sqrt", x)


def fn_arcsin(x):
    return fn_uf("arcsin", x)


def fn_arccos(x):
    return fn_uf("arccos", x)


def fn_arctan(x):
    return fn_uf("arctan", x)


def fn_arctan2(y, x):
    return fn_uf("arctan2", y, x)


def fn_exp(x):
    return fn_uf("exp", x)


def fn_floor(x):
    if _deg(x) != 0 and _CTX is not None and _CTX.norm_angles:
        raise Unsupported("fn_floor of an angle (not unit-invariant)")
    """floor -> symbolic *integer-valued* number (kept Int sorted: exact)."""
    t = _as_arith(x)
    if t.sort() == z3.IntSort():
        return SNum(t)
    return SNum(_floor_term(t))


def fn_trunc(x):
    if _deg(x) != 0 and _CTX is not None and _CTX.norm_angles:
        raise Unsupported("fn_trunc of an angle (not unit-invariant)")
    t = _as_arith(x)
    if t.sort() == z3.IntSort():
        return SNum(t)
    ft = z3.ToInt(t)
    return SNum(ft + z3.If(z3.And(t < 0, t != z3.ToReal(ft)), 1, 0))


def fn_round_half_even(x):
    if _deg(x) != 0 and _CTX is not None and _CTX.norm_angles:
        raise Unsupported("fn_round_half_even of an angle (not unit-invariant)")
    t = _as_arith(x)
    if t.sort() == z3.IntSort():
        return SNum(t)
    f = z3.ToInt(t)
    frac = t - z3.ToReal(f)
    half = z3.Q(1, 2)
    return SNum(z3.If(frac < half, f, z3.If(frac > half, f + 1, z3.If(f % 2 == 0, f, f + 1))))


# --------------------------------------------------------------------------------------------
# Gram vectors: abstract vectors as linear combinations of named base vectors.

class GVec:
    __slots__ = ("c",)
    __array_priority__ = 2000
    __array_ufunc__ = None

    def __init__(self, comps):
        self.c = comps  # name -> number | SNum

    @staticmethod
    def base(name):
        ctx().gram_base(name)
        return GVec({name: 1})

    def _lin(self, o, sgn):
        if not isinstance(o, GVec):
            if is_num(o) and o == 0:
                return self
            return NotImplemented
        out = dict(self.c)
        for k, v in o.c.items():
            out[k] = (out[k] + sgn * v) if k in out else sgn * v
        return GVec(out)

    def __add__(self, o):
        return self._lin(o, 1)

    __radd__ = __add__

    def __sub__(self, o):
        return self._lin(o, -1)

    def __rsub__(self, o):
        return (-self)._lin(o, 1)

    def __neg__(self):
        return GVec({k: -v for k, v in self.c.items()})

    def __mul__(self, s):
        if isinstance(s, GVec):
            raise Unsupported("element-wise product of abstract vectors")
        if isinstance(s, np.ndarray) and s.shape == ():
            s = s.item()
        return GVec({k: v * s for k, v in self.c.items()})

    __rmul__ = __mul__

    def __truediv__(self, s):
        return GVec({k: v / s for k, v in self.c.items()})

    def dot(self, o):
        return gdot(self, o)

    def __getitem__(self, i):
        if isinstance(i, slice) and i.start in (None, 0) and i.stop == 3 and i.step is None:
            return self  # position part of a state whose position is this abstract 3-vector
        raise Unsupported("component access on an abstract (Gram) vector")

    def __repr__(self):
        return f"GVec({self.c})"


def _triple(a, b, c):
    """scalar triple product [a,b,c] of plain base vectors as a canonical signed constant."""
    if a == b or b == c or a == c:
        return 0
    names = [a, b, c]
    sign = 1
    for i in range(3):  # bubble sort, counting transpositions
        for j in range(2 - i):
            if names[j] > names[j + 1]:
                names[j], names[j + 1] = names[j + 1], names[j]
                sign = -sign
    return sign * SNum(z3.Real("T<%s.%s.%s>" % tuple(names)))


def gram_scalar(ka, kb):
    """<ka, kb> for base keys that are plain names or ('x', a, b) = a x b."""
    ca, cb = isinstance(ka, tuple), isinstance(kb, tuple)
    if not ca and not cb:
        return SNum(ctx().gram(ka, kb))
    if ca and not cb:
        return _triple(ka[1], ka[2], kb)
    if cb and not ca:
        return _triple(kb[1], kb[2], ka)
    G = lambda u, v: SNum(ctx().gram(u, v))
    return G(ka[1], kb[1]) * G(ka[2], kb[2]) - G(ka[1], kb[2]) * G(ka[2], kb[1])  # Lagrange identity


def _cross_base(p, q):
    """p x q as a dict {base key: coefficient}."""
    cp, cq = isinstance(p, tuple), isinstance(q, tuple)
    if not cp and not cq:
        if p == q:
            return {}
        return {("x", p, q): 1} if p < q else {("x", q, p): -1}
    if cp and not cq:  # (a x b) x c = b (a.c) - a (b.c)
        a, b = p[1], p[2]
        return {b: gram_scalar(a, q), a: -gram_scalar(b, q)}
    if cq and not cp:  # c x (a x b) = a (c.b) - b (c.a)
        a, b = q[1], q[2]
        return {a: gram_scalar(p, b), b: -gram_scalar(p, a)}
    a, b, c, d = p[1], p[2], q[1], q[2]  # (a x b) x (c x d) = c [a,b,d] - d [a,b,c]
    return {c: _triple(a, b, d), d: -_triple(a, b, c)}


def gcross(u, v):
    out = {}
    for ku, cu in u.c.items():
        for kv, cv in v.c.items():
            for k, c in _cross_base(ku, kv).items():
                t = (cu * cv) * c
                out[k] = out[k] + t if k in out else t
    return GVec(out)


def gdot(a, b):
    tot = 0
    for ka, va in a.c.items():
        for kb, vb in b.c.items():
            g = gram_scalar(ka, kb)
            if is_num(g) and g == 0:
                continue
            tot = tot + (va * vb) * g
    return tot


class GFrame:
    """array([e1, e2, e3]) of abstract vectors (rows), or its transpose (columns)."""
    __array_priority__ = 2500
    __array_ufunc__ = None
    shape = (3, 3)
    ndim = 2

    def __init__(self, vecs, transposed=False):
        self.vecs, self.transposed = list(vecs), transposed

    @property
    def T(self):
        return GFrame(self.vecs, not self.transposed)

    def apply(self, x):
        if not self.transposed:  # rows e_i: (E x)_i = e_i . x
            if not isinstance(x, GVec):
                raise Unsupported("frame rows applied to a coordinate vector")
            return np.array([gdot(e, x) for e in self.vecs], dtype=object)
        if isinstance(x, GVec):
            raise Unsupported("frame columns applied to an abstract vector")
        x = np.asarray(x, dtype=object).ravel()
        acc = None
        for e, xi in zip(self.vecs, x):
            t = e * xi
            acc = t if acc is None else acc + t
        return acc


def gnorm(a):
    return fn_sqrt(gdot(a, a))


# --------------------------------------------------------------------------------------------
# numpy ufunc dispatch

def _box(x):
    if isinstance(x, np.ndarray):
        return x.astype(object)
    b = np.empty((), dtype=object)
    b[()] = x
    return b


def _elementwise(f, *args):
    if any(isinstance(a, np.ndarray) and a.shape != () for a in args):
        g = np.frompyfunc(f, len(args), 1)
        return g(*[_box(a) for a in args])
    # (numpy scalars become Python numbers: `np.float64 - proxy` re-enters this dispatch through numpy's reflected operator otherwise)
    args = [a.item() if isinstance(a, (np.ndarray, np.generic)) else a for a in args]
    return f(*args)


def _sym(x):
    return isinstance(x, (SNum, SBool))


def _u_abs(x):
    return abs(x)


def _u_sign(x):
    if not _sym(x):
        return np.sign(x)
    t = _as_arith(x)
    one = z3.IntVal(1) if t.sort() == z3.IntSort() else z3.RealVal(1)
    return SNum(z3.If(t > 0, one, z3.If(t < 0, -one, one - one)))


def _u_fmod(a, b):
    """C fmod: result has the sign of the dividend (truncated quotient)."""
    ta, tb = _real(_as_arith(a)), _real(_as_arith(b))
    q = ta / tb
    fq = z3.ToInt(q)
    tq = fq + z3.If(z3.And(q < 0, q != z3.ToReal(fq)), 1, 0)  # truncation expressed with a single floor
    return SNum(ta - tb * z3.ToReal(tq), _deg_same(a, b, "fmod"))


def _u_max(a, b):
    return Ite(sbool(a >= b), a, b)


def _u_min(a, b):
    return Ite(sbool(a <= b), a, b)


def _wrap1(fn, cfn):
    return lambda x: fn(x) if _sym(x) else cfn(x)


_UFUNCS = {
    np.add: lambda a, b: a + b,
    np.subtract: lambda a, b: a - b,
    np.multiply: lambda a, b: a * b,
    np.true_divide: lambda a, b: a / b,
    np.floor_divide: lambda a, b: a // b,
    np.remainder: lambda a, b: a % b,
    np.fmod: lambda a, b: _u_fmod(a, b) if (_sym(a) or _sym(b)) else np.fmod(a, b),
    np.power: lambda a, b: a ** b,
    np.negative: lambda a: -a,
    np.positive: lambda a: a,
    np.absolute: _u_abs,
    np.fabs: _u_abs,
    np.sign: _u_sign,
    np.sqrt: _wrap1(fn_sqrt, np.sqrt),
    np.square: lambda a: a * a,
    np.sin: _wrap1(fn_sin, np.sin),
    np.cos: _wrap1(fn_cos, np.cos),
    np.tan: _wrap1(fn_tan, np.tan),
    np.arcsin: _wrap1(fn_arcsin, np.arcsin),
    np.arccos: _wrap1(fn_arccos, np.arccos),
    np.arctan: _wrap1(fn_arctan, np.arctan),
    np.arctan2: lambda a, b: fn_arctan2(a, b) if (_sym(a) or _sym(b)) else np.arctan2(a, b),
    np.exp: _wrap1(fn_exp, np.exp),
    np.log10: _wrap1(lambda x: fn_uf("log10", x), np.log10),
    np.log: _wrap1(lambda x: fn_uf("log", x), np.log),
    np.floor: _wrap1(fn_floor, np.floor),
    np.ceil: _wrap1(lambda x: -fn_floor(-x), np.ceil),
    np.trunc: _wrap1(fn_trunc, np.trunc),
    np.rint: _wrap1(fn_round_half_even, np.rint),
    np.less: lambda a, b: a < b,
    np.less_equal: lambda a, b: a <= b,
    np.greater: lambda a, b: a > b,
    np.greater_equal: lambda a, b: a >= b,
    np.equal: lambda a, b: a == b,
    np.not_equal: lambda a, b: a != b,
    np.logical_and: lambda a, b: And(a, b),
    np.logical_or: lambda a, b: Or(a, b),
    np.logical_not: lambda a: Not(a),
    np.bitwise_and: lambda a, b: a & b,
    np.bitwise_or: lambda a, b: a | b,
    np.invert: lambda a: ~a,
    np.maximum: _u_max,
    np.minimum: _u_min,
    np.isnan: lambda a: False,
    np.isfinite: lambda a: True,
    np.isinf: lambda a: False,
    np.conjugate: lambda a: a,
    np.deg2rad: lambda a: a * ctx().pi() / 180,
    np.rad2deg: lambda a: a * 180 / ctx().pi(),
    np.spacing: lambda a: ctx().spacing(a),
}


def _dispatch_ufunc(ufunc, method, inputs, kw):
    if method != "__call__":
        if method == "reduce" and ufunc in (np.add, np.multiply, np.logical_and, np.logical_or, np.maximum, np.minimum):
            arr = np.asarray(inputs[0], dtype=object)
            f = _UFUNCS[ufunc]
            acc = None
            for e in arr.flat:
                acc = e if acc is None else f(acc, e)
            return acc
        raise Unsupported(f"ufunc method {ufunc.__name__}.{method} on symbolic values")
    f = _UFUNCS.get(ufunc)
    if f is None:
        raise Unsupported(f"numpy ufunc {ufunc.__name__} has no symbolic contract")
    out = kw.get("out")
    res = _elementwise(f, *inputs)
    if out is not None:
        o = out[0] if isinstance(out, tuple) else out
        o[...] = res
        return o
    return res
