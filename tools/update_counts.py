#!/usr/bin/env python3
"""Refresh the obligation counts quoted in DESIGN.md section 4 from the evidence files of the last quick run."""
import json, os, re
ROOT = os.path.dirname(os.path.dirname(os.path.abspath(__file__)))
s = open(os.path.join(ROOT, "DESIGN.md")).read()
for f in sorted(os.listdir(os.path.join(ROOT, "evidence"))):
    pid = f[:-5]
    e = json.load(open(os.path.join(ROOT, "evidence", f)))
    n = e["coverage"]["obligations"]
    b = sum(len(x.get("obligations", [])) for x in e["coverage"]["bounded_items"] if "obligations" in x)
    s = re.sub(r"(\*\*" + pid + r" [^*]+\*\* \()(\d+)", lambda m: m.group(1) + str(n), s, count=1)
    print(pid, n, "proved obligations,", b, "bounded stand-in obligations")
open(os.path.join(ROOT, "DESIGN.md"), "w").write(s)
