#!/usr/bin/env python3
"""Evaluate one seeded change directory (patch.diff, demo.py, meta.json):
   1. demo passes on the clean tree and fails with the patch (scratch copy of /repo/src)
   2. [--suite] the pinned baseline suite still passes with the patch (scratch worktree, removed afterwards)
   3. the property's quick check (and optionally others) against the patched source: which obligations fire
Writes <dir>/result.json.  Nothing under /repo is modified."""
import ast, json, os, shutil, subprocess, sys, tempfile, xml.etree.ElementTree as ET

ROOT = os.path.dirname(os.path.dirname(os.path.abspath(__file__)))


def run(cmd, env=None, cwd=None, timeout=3600):
    e = dict(os.environ)
    e.update(env or {})
    p = subprocess.run(cmd, shell=True, capture_output=True, text=True, env=e, cwd=cwd, timeout=timeout)
    return p.returncode, p.stdout + p.stderr


def main():
    d = os.path.abspath(sys.argv[1])
    suite = "--suite" in sys.argv
    recheck = "--recheck" in sys.argv  # keep the recorded demo/suite confirmation, only re-run the checks with the current machinery
    props = [a for a in sys.argv[2:] if a.startswith("C")]
    meta = json.load(open(os.path.join(d, "meta.json")))
    prop = meta["property"]
    props = props or [prop]
    res = {"property": prop}
    if recheck and os.path.exists(os.path.join(d, "result.json")):
        res = json.load(open(os.path.join(d, "result.json")))
    tmp = tempfile.mkdtemp(prefix="pyvc-seed.")
    try:
        shutil.copytree("/repo/src", os.path.join(tmp, "src"))
        rc, out = run(f"patch -p1 -d {tmp} < {d}/patch.diff")
        res["patch_applies"] = rc == 0
        if rc != 0:
            res["patch_output"] = out[-500:]
        env_mut = {"PYTHONPATH": os.path.join(tmp, "src")}
        if recheck and "demo_passes_clean" in res:
            pass
        else:
          rc_clean, o1 = run(f"/venv/bin/python {d}/demo.py", env={"PYTHONPATH": "/repo/src"}, cwd=tmp, timeout=900)
          rc_mut, o2 = run(f"/venv/bin/python {d}/demo.py", env=env_mut, cwd=tmp, timeout=900)
          res["demo_passes_clean"] = rc_clean == 0
          res["demo_fails_patched"] = rc_mut != 0
          res["demo_tail_patched"] = o2[-300:]
        checks = {}
        for p in props:
            rc, out = run(f".venv/bin/python -m pyvc.cli check {p}", env={"PYTHONPATH": os.path.join(tmp, "src"), "PYVC_REPO_SRC": os.path.join(tmp, "src"), "PYVC_EVIDENCE_DIR": os.path.join(tmp, "evidence")}, cwd=ROOT, timeout=3000)
            lines = [l for l in out.splitlines() if l.startswith(("VIOLATION", "UNDECIDED", "CRASH", p + ":"))]
            checks[p] = {"exit": rc, "violations": [l.split("obligation=")[1] for l in lines if l.startswith("VIOLATION")][:12], "summary": [l for l in lines if l.startswith(p + ":")]}
        res["checks"] = checks
        res["caught"] = any(c["exit"] == 1 for c in checks.values())
        if suite:
            wt = os.path.join(tmp, "wt")
            run(f"git -C /repo worktree add -q --detach {wt} HEAD")
            try:
                rc, out = run(f"patch -p1 -d {wt} < {d}/patch.diff")
                b = json.load(open("/root/.vp/BASELINE.json"))
                stable = set(ast.literal_eval(b["stable_pass"]) if isinstance(b["stable_pass"], str) else b["stable_pass"])
                xml = os.path.join(tmp, "j.xml")
                cmd = b["cmd"].replace("cd /repo", f"cd {wt}").replace("<file>", xml)
                run(cmd, env={"PYTHONPATH": os.path.join(wt, "src")}, timeout=3000)
                passed = set()
                for tc in ET.parse(xml).getroot().iter("testcase"):
                    if not any(ch.tag in ("failure", "error", "skipped") for ch in tc):
                        passed.add(f"{tc.get('classname')}::{tc.get('name')}")
                missing = sorted(stable - passed)
                res["suite_missing"] = missing[:10]
                res["suite_passes"] = not missing
            finally:
                run(f"git -C /repo worktree remove --force {wt}")
    finally:
        shutil.rmtree(tmp, ignore_errors=True)
    json.dump(res, open(os.path.join(d, "result.json"), "w"), indent=1)
    print(json.dumps({k: v for k, v in res.items() if k not in ("demo_tail_patched",)}, indent=1)[:1500])


if __name__ == "__main__":
    main()
