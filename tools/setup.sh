#!/bin/sh
# Builds the overlay interpreter: python 3.12 with the repo's own dependencies (via /venv) plus
# z3-solver / cvc5 / sympy from the offline wheelhouse.  Offline, idempotent.
set -e
cd "$(dirname "$0")/.."
if [ ! -x .venv/bin/python ] || ! .venv/bin/python -c "import z3, sympy, numpy, resonaate" 2>/dev/null; then
  rm -rf .venv
  /venv/bin/python -m venv .venv
  .venv/bin/pip install -q --no-index --find-links /opt/veriftools/wheels z3-solver sympy mpmath jsonschema
  echo "import site; site.addsitedir('/venv/lib/python3.12/site-packages')" > .venv/lib/python3.12/site-packages/zz_repo.pth
fi
.venv/bin/python -c "import z3, sympy, numpy, scipy, resonaate; print('pyvc toolchain ok: z3', z3.get_version_string())"
test -x /usr/bin/cvc5
