#!/bin/sh
# usage: tools/mutant.sh <prop> <file-relative-to-src/resonaate> <sed-expression>
# applies a sed edit to a scratch copy of /repo/src and runs the property's quick check against it
set -e
D=$(mktemp -d /tmp/pyvc-mut.XXXXXX)
cp -r /repo/src "$D/src"
sed -i "$3" "$D/src/resonaate/$2"
if diff -q "$D/src/resonaate/$2" "/repo/src/resonaate/$2" >/dev/null; then echo "MUTANT DID NOT APPLY"; rm -rf "$D"; exit 9; fi
cd /verif
PYTHONPATH="$D/src" PYVC_REPO_SRC="$D/src" PYVC_EVIDENCE_DIR="$D/evidence" .venv/bin/python -m pyvc.cli check "$1" 2>&1 | grep -E "VIOLATION|UNDECIDED|CRASH|^$1:" | cut -c1-220
rm -rf "$D"
