#!/usr/bin/env python3
"""Regenerates /verif/MANIFEST.json from the table below (keeps it schema-valid at all times)."""
import json, os
ROOT = os.path.dirname(os.path.dirname(os.path.abspath(__file__)))
BASE = json.load(open("/root/.vp/BASELINE.json"))["cmd"].replace("--junitxml=<file>", "").strip()
PY = ".venv/bin/python"

# id -> (level text, level note, technique)
CLAIMED = json.load(open(os.path.join(ROOT, "tools", "claimed.json")))
NA = json.load(open(os.path.join(ROOT, "tools", "not_applicable.json")))

checks = []
for pid in sorted(CLAIMED):
    c = CLAIMED[pid]
    checks.append({
        "property_id": pid,
        "quick_cmd": f"{PY} -m pyvc.cli check {pid} --tier quick",
        "thorough_cmd": f"{PY} -m pyvc.cli check {pid} --tier thorough",
        "evidence_file": f"evidence/{pid}.json",
        "replay_cmd_template": PY + " -m pyvc.cli replay {path}",
        "engine": "pyvc",
        "level_claimed": {"category": "proof", "text": c["text"], "design_ref": c.get("design_ref", "DESIGN.md §4 " + pid)},
        "level_note": c["note"],
        "technique": c.get("technique", "contract-based deductive verification: sidecar contracts on the real function bodies (re-extracted from /repo/src every run), VCs per path discharged by z3/cvc5"),
    })
man = {
    "version": 1,
    "setup_cmd": "sh tools/setup.sh",
    "hooks": {"guard": "RESONAATE_VERIF", "enable": "no source hooks are needed: contracts are sidecars under /verif/contracts and the real function bodies are re-extracted from /repo/src on every run",
              "baseline_off_cmd": BASE, "source_commits": [], "add_only": True},
    "engines": [{"name": "pyvc", "path": "pyvc/", "serves_properties": sorted(CLAIMED),
                 "kind_free_text": "VC generator for Python: proxy-value symbolic execution of the real function bodies against sidecar contracts, z3 + cvc5 back ends, native replay of counter-models"}],
    "checks": checks,
    "not_applicable": [{"property_id": k, "reason": v} for k, v in sorted(NA.items())],
    "notes": "exit 0 discharged / 1 refuted (VIOLATION line) / 2 undecided / 3 checker crash. known_findings.json lists genuine defects recorded rather than repaired.",
}
json.dump(man, open(os.path.join(ROOT, "MANIFEST.json"), "w"), indent=1)
print("claimed", sorted(CLAIMED), "n/a", sorted(NA))
