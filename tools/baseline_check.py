#!/usr/bin/env python3
"""Runs the pinned baseline suite on /repo's working tree and compares with /root/.vp/BASELINE.json."""
import json, subprocess, sys, tempfile, xml.etree.ElementTree as ET, ast, os
b = json.load(open("/root/.vp/BASELINE.json"))
stable = set(ast.literal_eval(b["stable_pass"]) if isinstance(b["stable_pass"], str) else b["stable_pass"])
out = os.path.join(tempfile.gettempdir(), "baseline.junit.xml")
cmd = b["cmd"].replace("<file>", out)
subprocess.run(cmd, shell=True, stdout=subprocess.DEVNULL, stderr=subprocess.DEVNULL)
passed = set()
for tc in ET.parse(out).getroot().iter("testcase"):
    if not any(ch.tag in ("failure", "error", "skipped") for ch in tc):
        passed.add(f"{tc.get('classname')}::{tc.get('name')}")
missing = sorted(stable - passed)
print(f"stable={len(stable)} passed_now={len(passed)} missing_from_stable={len(missing)}")
for m in missing[:40]:
    print("  MISSING", m)
sys.exit(1 if missing else 0)
