#!/usr/bin/env python3
"""Copy confirmed seeded changes (sub-agent output dirs evaluated by tools/eval_seeded.py --suite) into /verif/seeded/<id>/ and write seeded/RESULTS.md.
usage: keep_seeded.py <outdir>            (e.g. /tmp/wt/out)
A change is kept only if: the patch applies, the demonstration passes on the clean tree and fails with the patch, and the pinned baseline suite
still passes with the patch (all confirmed by eval_seeded.py on scratch copies, not taken from the sub-agent's report)."""
import json, os, shutil, sys

ROOT = os.path.dirname(os.path.dirname(os.path.abspath(__file__)))


def main():
    out = sys.argv[1]
    rows = []
    for d in sorted(os.listdir(out)):
        p = os.path.join(out, d)
        if not os.path.isfile(os.path.join(p, "result.json")):
            continue
        r = json.load(open(os.path.join(p, "result.json")))
        meta = json.load(open(os.path.join(p, "meta.json")))
        ok = r.get("patch_applies") and r.get("demo_passes_clean") and r.get("demo_fails_patched") and r.get("suite_passes")
        if not ok:
            rows.append((d, meta.get("property"), "NOT KEPT", str({k: r.get(k) for k in ("patch_applies", "demo_passes_clean", "demo_fails_patched", "suite_passes")}), "", ""))
            continue
        dst = os.path.join(ROOT, "seeded", d)
        os.makedirs(dst, exist_ok=True)
        for f in ("patch.diff", "demo.py"):
            shutil.copy(os.path.join(p, f), os.path.join(dst, f))
        files = meta.get("files_changed")
        keep = {
            "id": d,
            "property": meta.get("property"),
            "breaks": meta.get("what_it_breaks"),
            "needs_to_manifest": meta.get("needs_to_manifest"),
            "files_changed": files,
            "origin": "fresh sub-agent given only the property text and its own scratch worktree of /repo (nothing from /verif)",
            "confirmed_by_me": {
                "how": "tools/eval_seeded.py <dir> --suite : patch applied to a scratch copy of /repo/src (demo) and to a scratch git worktree (suite); /repo itself untouched",
                "demo_passes_on_clean_tree": r["demo_passes_clean"],
                "demo_fails_with_patch": r["demo_fails_patched"],
                "baseline_suite_passes_with_patch": r["suite_passes"],
                "baseline_cmd": json.load(open("/root/.vp/BASELINE.json"))["cmd"],
                "demo_cmd": "PYTHONPATH=<tree>/src /venv/bin/python demo.py   (exit 0 = property holds on the demo's inputs, non-zero = broken)",
            },
            "checks": {k: {"exit": v["exit"], "obligations_refuted": v["violations"]} for k, v in r["checks"].items()},
            "caught": r["caught"],
            "sub_agent_tests_run": meta.get("tests_run"),
        }
        json.dump(keep, open(os.path.join(dst, "meta.json"), "w"), indent=1)
        caught_by = "; ".join(f"{k}: " + ", ".join(x.replace(" no-failing-input-found", "*") for x in v["violations"][:4]) for k, v in r["checks"].items() if v["exit"] == 1)
        rows.append((d, meta.get("property"), "caught" if r["caught"] else "MISSED", (files if isinstance(files, str) else ", ".join(files or []))[:80],
                     caught_by, (meta.get("needs_to_manifest") or "")[:160].replace("\n", " ").replace("|", "/")))
    # earlier rounds: keep their rows (their patch/demo/meta are already under seeded/); when a re-check directory is given (copies of seeded/<id> evaluated again with
    # tools/eval_seeded.py against the machinery as it is now) the row shows that result, otherwise the one recorded in meta.json
    recheck = sys.argv[sys.argv.index("--rechecked") + 1] if "--rechecked" in sys.argv else None
    have = {r[0] for r in rows}
    for d in sorted(os.listdir(os.path.join(ROOT, "seeded"))):
        mp = os.path.join(ROOT, "seeded", d, "meta.json")
        if d in have or not os.path.isfile(mp):
            continue
        meta = json.load(open(mp))
        checks, caught = meta.get("checks", {}), meta.get("caught")
        rp = os.path.join(recheck, d, "result.json") if recheck else None
        if rp and os.path.isfile(rp):
            r = json.load(open(rp))
            if r.get("patch_applies"):
                checks = {k: {"exit": v["exit"], "obligations_refuted": v["violations"]} for k, v in r["checks"].items()}
                caught = r["caught"]
                meta["checks"], meta["caught"] = checks, caught
                json.dump(meta, open(mp, "w"), indent=1)
        files = meta.get("files_changed")
        caught_by = "; ".join(f"{k}: " + ", ".join(x.replace(" no-failing-input-found", "*") for x in v.get("obligations_refuted", [])[:4]) for k, v in checks.items() if v.get("exit") == 1)
        rows.append((d, meta.get("property"), "caught" if caught else "MISSED", (files if isinstance(files, str) else ", ".join(files or []))[:80], caught_by,
                     (meta.get("needs_to_manifest") or "")[:160].replace("\n", " ").replace("|", "/")))
    rows.sort(key=lambda r: r[0])
    with open(os.path.join(ROOT, "seeded", "RESULTS.md"), "w") as f:
        f.write("# Seeded changes: which checks catch which\n\n"
                "Each row is a change to /repo produced by a fresh sub-agent that saw only the property text, confirmed by me on scratch copies "
                "(demo passes clean / fails patched, pinned suite still green), then run against the property's quick check with "
                "`tools/eval_seeded.py`. `*` = the obligation was refuted symbolically but no native failing input was found (VIOLATION ... no-failing-input-found).\n\n"
                "| id | property | result | files | refuted obligations (first 4) | needs, to manifest |\n|---|---|---|---|---|---|\n")
        for row in rows:
            f.write("| " + " | ".join(str(x) for x in row) + " |\n")
    print(f"{sum(1 for r in rows if r[2] == 'caught')} caught, {sum(1 for r in rows if r[2] == 'MISSED')} missed, {sum(1 for r in rows if r[2] == 'NOT KEPT')} not kept")


if __name__ == "__main__":
    main()
