#!/bin/sh
# Literal confirmation of the kept seeded changes: apply each patch to /repo itself, run the property's registered quick command, undo it straight afterwards.
# usage: tools/confirm_seeded.sh [id ...]     (default: every /verif/seeded/<id>/)   -> writes seeded/CONFIRM.txt
cd /verif
[ -z "$(git -C /repo status --porcelain)" ] || { echo "/repo working tree is not clean"; exit 2; }
ids="$@"
if [ -n "$ids" ]; then echo "--- $(date -u +%Y-%m-%dT%H:%MZ) appended run for: $ids (evidence written elsewhere: PYVC_EVIDENCE_DIR)" >> seeded/CONFIRM.txt
else ids=$(ls seeded | grep -v '\.' ); : > seeded/CONFIRM.txt; fi
export PYVC_EVIDENCE_DIR=/tmp/pyvc-confirm-evidence
for id in $ids; do
  prop=$(python3 -c "import json;print(json.load(open('seeded/$id/meta.json'))['property'])")
  cmd=$(python3 -c "import json;print([c['quick_cmd'] for c in json.load(open('MANIFEST.json'))['checks'] if c['property_id']=='$prop'][0])")
  git -C /repo apply "/verif/seeded/$id/patch.diff" || { echo "$id patch does not apply" >> seeded/CONFIRM.txt; continue; }
  out=$(sh -c "$cmd" 2>&1); rc=$?
  git -C /repo checkout -- .
  n=$(echo "$out" | grep -c "^VIOLATION property=$prop")
  echo "$id property=$prop exit=$rc violation_lines=$n first: $(echo "$out" | grep "^VIOLATION" | head -1 | cut -c1-160)" >> seeded/CONFIRM.txt
done
[ -z "$(git -C /repo status --porcelain)" ] && echo "repo clean again" >> seeded/CONFIRM.txt
rm -rf /tmp/pyvc-confirm-evidence
tail -n 60 seeded/CONFIRM.txt
